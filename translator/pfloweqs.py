"""Regenerate lean/Andes/Gen/PFlowEqs.lean from the REAL model objects of /repo (Line, PQ, PV, Slack, Shunt)
on every run: the declared residual strings (`e_str`) of every variable and the `v_str` of every service
they refer to, after this module's own textual substitution of service / parameter / flag names.

Built on Python's `ast`; real sub-expressions go through translator/pyexpr2lean.to_lean (with decimal
literals as `OfScientific` scientific literals and `x ** 2` as `x * x`, which is what NumPy computes);
complex services (`1j`, `re`, `im`) are split into a (re, im) pair of real expressions by the small
complex layer below — the Lean side proves that the pair equals the complex quotient (C01.yhk_is_quotient).

Power-flow specialisation: PFlow evaluates the equations at `dae.t < 0`; a summand carrying the factor
`Indicator(dae_t >= 0)` is dropped and the factor `Indicator(dae_t < 0)` is removed (anything else with
`Indicator`/`dae_t` is refused).  The harness asserts `dae.t < 0` on every real run."""
import ast
import os
from decimal import Decimal

from translator.pyexpr2lean import to_lean, Untranslatable

# fields of the hand-declared parameter records in lean/Andes/Model/Line.lean
RECORDS = {
    'Line': ('LineP', ['u', 'r', 'x', 'g', 'b', 'g1', 'b1', 'g2', 'b2', 'tap', 'phi']),
    'PQ': ('PQP', ['u', 'p0', 'q0', 'vmin', 'vmax']),
    'PV': ('GenP', ['u', 'p0', 'q0', 'v0', 'a0', 'pmin', 'pmax', 'qmin', 'qmax']),
    'Slack': ('GenP', ['u', 'p0', 'q0', 'v0', 'a0', 'pmin', 'pmax', 'qmin', 'qmax']),
    'Shunt': ('ShuntP', ['u', 'g', 'b']),
}
# variables (arguments of every generated equation of the model, in this order) and limiter flag groups
VARS = {'Line': ['a1', 'v1', 'a2', 'v2'], 'PQ': ['a', 'v'], 'PV': ['a', 'v', 'q'], 'Slack': ['a', 'v', 'q', 'p'],
        'Shunt': ['a', 'v']}
FLAGS = {'Line': {}, 'PQ': {'vcmp': 'z'}, 'PV': {'qlim': 'zq'}, 'Slack': {'qlim': 'zq', 'plim': 'zp'}, 'Shunt': {}}
MODELS = ['Line', 'PQ', 'PV', 'Slack', 'Shunt']


def lit(v):
    """numeric literal -> Lean scientific literal (exact decimal reading of the literal's text)"""
    if isinstance(v, bool) or not isinstance(v, (int, float)):
        raise Untranslatable('literal %r' % (v,))
    d = Decimal(repr(v))
    sign, digits, exp = d.as_tuple()
    m = int(''.join(map(str, digits)))
    if exp >= 0:
        s = '%d.0' % (m * 10 ** exp)
    else:
        s = '%de%d' % (m, exp)
    return '(-%s)' % s if sign else s


class Squares(ast.NodeTransformer):
    """x ** 2 -> x * x (NumPy evaluates an integer square as a product); literals -> marker names"""

    def __init__(self):
        self.lits = {}

    def visit_BinOp(self, n):
        self.generic_visit(n)
        if isinstance(n.op, ast.Pow):
            if isinstance(n.right, ast.Name) and self.lits.get(n.right.id) == '2.0':
                return ast.BinOp(left=n.left, op=ast.Mult(), right=n.left)
            raise Untranslatable('power other than ** 2')
        return n

    def visit_Constant(self, n):
        if isinstance(n.value, complex):
            return n
        name = '__lit%d' % len(self.lits)
        self.lits[name] = lit(n.value)
        return ast.Name(id=name, ctx=ast.Load())


def flatten(n, op):
    if isinstance(n, ast.BinOp) and isinstance(n.op, op):
        return flatten(n.left, op) + flatten(n.right, op)
    return [n]


def indicator_kind(n):
    """'pf' for Indicator(dae_t < 0), 'tds' for Indicator(dae_t >= 0), None otherwise"""
    if isinstance(n, ast.Call) and isinstance(n.func, ast.Name) and n.func.id == 'Indicator' and len(n.args) == 1:
        c = n.args[0]
        if isinstance(c, ast.Compare) and isinstance(c.left, ast.Name) and c.left.id == 'dae_t' and len(c.ops) == 1 \
                and isinstance(c.comparators[0], ast.Constant) and c.comparators[0].value == 0:
            if isinstance(c.ops[0], ast.Lt):
                return 'pf'
            if isinstance(c.ops[0], ast.GtE):
                return 'tds'
        raise Untranslatable('Indicator of an unexpected condition: ' + ast.unparse(n))
    return None


def pflow_specialise(tree):
    """drop the summands that are switched off for dae_t < 0, strip the Indicator(dae_t < 0) factor"""
    body = tree.body
    terms = flatten(body, ast.Add)
    if not any(indicator_kind(f) for t in terms for f in flatten(t, ast.Mult)):
        return tree
    kept = []
    for t in terms:
        fs = flatten(t, ast.Mult)
        kinds = [indicator_kind(f) for f in fs]
        if 'tds' in kinds:
            continue
        fs = [f for f, k in zip(fs, kinds) if k != 'pf']
        e = fs[0]
        for f in fs[1:]:
            e = ast.BinOp(left=e, op=ast.Mult(), right=f)
        kept.append(e)
    if not kept:
        raise Untranslatable('no power-flow summand')
    e = kept[0]
    for t in kept[1:]:
        e = ast.BinOp(left=e, op=ast.Add(), right=t)
    return ast.Expression(body=e)


class Cx:
    """complex layer: a value is ('r', text) or ('c', re_text|None, im_text|None)"""

    def __init__(self, names, lits, funcs):
        self.names, self.lits, self.funcs = names, lits, funcs

    def is_complex(self, n):
        for s in ast.walk(n):
            if isinstance(s, ast.Constant) and isinstance(s.value, complex):
                return True
            if isinstance(s, ast.Name) and self.names.get(s.id, ('',))[0] == 'c':
                return True
        return False

    @staticmethod
    def add(a, b, op):
        if a is None:
            return b if op == '+' else (None if b is None else '(-%s)' % b)
        if b is None:
            return a
        return '(%s %s %s)' % (a, op, b)

    @staticmethod
    def mul(a, b):
        return None if a is None or b is None else '(%s * %s)' % (a, b)

    def go(self, n):
        if not self.is_complex(n):
            names = {k: v for k, v in self.names.items() if isinstance(v, str)}
            names.update(self.lits)
            return ('r', to_lean(n, names, self.funcs))
        if isinstance(n, ast.Constant):
            if n.value == 1j:
                return ('c', None, '1.0')
            raise Untranslatable('complex literal %r' % (n.value,))
        if isinstance(n, ast.Name):
            return self.names[n.id]
        if isinstance(n, ast.BinOp):
            a, b = self.go(n.left), self.go(n.right)
            ar, ai = (a[1], None) if a[0] == 'r' else (a[1], a[2])
            br, bi = (b[1], None) if b[0] == 'r' else (b[1], b[2])
            if isinstance(n.op, (ast.Add, ast.Sub)):
                op = '+' if isinstance(n.op, ast.Add) else '-'
                return ('c', self.add(ar, br, op), self.add(ai, bi, op))
            if isinstance(n.op, ast.Mult):
                if ai is None and bi == '1.0' and br is None:      # x * 1j
                    return ('c', None, ar)
                if bi is None and ai == '1.0' and ar is None:      # 1j * x
                    return ('c', None, br)
                return ('c', self.add(self.mul(ar, br), self.mul(ai, bi), '-'),
                        self.add(self.mul(ar, bi), self.mul(ai, br), '+'))
            if isinstance(n.op, ast.Div):
                if bi is None:
                    return ('c', None if ar is None else '(%s / %s)' % (ar, br), None if ai is None else '(%s / %s)' % (ai, br))
                if br is None:
                    raise Untranslatable('division by a purely imaginary value')
                den = '((%s * %s) + (%s * %s))' % (br, br, bi, bi)
                # (ar + j ai) / (br + j bi) = ((ar br + ai bi) + j (ai br - ar bi)) / (br^2 + bi^2)
                re = self.add(self.mul(ar, br), self.mul(ai, bi), '+')
                im = self.add(self.mul(ai, br), self.mul(ar, bi), '-')
                return ('c', None if re is None else '(%s / %s)' % (re, den), None if im is None else '(%s / %s)' % (im, den))
        raise Untranslatable('complex expression ' + ast.unparse(n))


def translate(src, names, funcs, pflow=False):
    """-> ('r', text) | ('c', re, im)"""
    tree = ast.parse(' '.join(src.split()), mode='eval')
    if pflow:
        tree = pflow_specialise(tree)
    sq = Squares()
    tree = sq.visit(tree)
    ast.fix_missing_locations(tree)
    for s in ast.walk(tree):
        if isinstance(s, ast.Name) and s.id not in names and s.id not in sq.lits and s.id not in ('re', 'im') and s.id not in funcs:
            raise Untranslatable('unknown name %s in %r' % (s.id, src))
    body = tree.body
    # re(...) / im(...) of a complex value at top level
    if isinstance(body, ast.Call) and isinstance(body.func, ast.Name) and body.func.id in ('re', 'im') and len(body.args) == 1:
        v = Cx(names, sq.lits, funcs).go(body.args[0])
        if v[0] == 'r':
            return ('r', v[1] if body.func.id == 're' else '0.0')
        part = v[1] if body.func.id == 're' else v[2]
        return ('r', part if part is not None else '0.0')
    return Cx(names, sq.lits, funcs).go(body)


def referenced(src, pflow=False):
    tree = ast.parse(' '.join(src.split()), mode='eval')
    if pflow:
        tree = pflow_specialise(tree)
    return {s.id for s in ast.walk(tree) if isinstance(s, ast.Name)}


def extract(system):
    """the strings of the real model objects: {model: {'services': [(name, v_str, vtype)], 'eqs': [(var, e_str, kind)],
    'ext': [(var, bus-var, indexer)]}}"""
    out = {}
    for m in MODELS:
        mdl = getattr(system, m)
        srv = [(n, s.v_str, 'c' if getattr(s, 'vtype', float) is complex else 'r') for n, s in mdl.services.items()
               if getattr(s, 'v_str', None)]
        eqs, ext = [], []
        for n, v in mdl.algebs_ext.items():
            eqs.append((n, v.e_str, 'ext'))
            ext.append((n, v.src, v.indexer.name, v.model))
        for n, v in mdl.algebs.items():
            eqs.append((n, v.e_str, 'int'))
        if mdl.states or mdl.states_ext:
            raise Untranslatable('%s declares differential states' % m)
        nums = [k for k in ('f_num', 'g_num', 'j_num') if k in type(mdl).__dict__]
        if nums:
            raise Untranslatable('%s defines %s' % (m, nums))
        out[m] = {'services': srv, 'eqs': eqs, 'ext': ext,
                  'setters': sorted(n for n, v in list(mdl.algebs_ext.items()) + list(mdl.algebs.items()) if v.e_setter)}
    return out


def generate(lean_dir, system=None):
    if system is None:
        import andes
        system = andes.System(default_config=True, no_output=True)
    data = extract(system)
    out = ['import Andes.Model.Line',
           '/-! GENERATED by translator/pfloweqs.py from the model objects of andes (Line, PQ, PV, Slack, Shunt) on every',
           'run — do not edit.  `<Model>_<service>` : service `v_str`; `<Model>_<var>` : residual `e_str` (power-flow branch). -/',
           'set_option linter.unusedVariables false',
           'namespace Andes.Gen.PFlowEqs', 'open Andes.PFlow',
           'variable {α : Type} [Add α] [Sub α] [Mul α] [Div α] [Neg α] [OfScientific α] [Trig α]', '']
    items, unused, table = [], {}, []
    for m in MODELS:
        rec, fields = RECORDS[m]
        d = data[m]
        names = {f: 'd.%s' % f for f in fields}
        for v in VARS[m]:
            names[v] = v
        for disc, arg in FLAGS[m].items():
            for z in ('zi', 'zl', 'zu'):
                names['%s_%s' % (disc, z)] = '%s.%s' % (arg, z)
        funcs = {'sin': 'Trig.sin', 'cos': 'Trig.cos'}
        needed = set()
        for _, e, _ in d['eqs']:
            needed |= referenced(e, True)
        svc_names = [s[0] for s in d['services']]
        # transitive closure over services
        changed = True
        while changed:
            changed = False
            for n, v, _ in d['services']:
                if n in needed:
                    r = referenced(v) - needed
                    if r:
                        needed |= r
                        changed = True
        emit_all = (m == 'Line')          # every Line service is emitted (gk, bk, yk are stated about in C01)
        unused[m] = [n for n in svc_names if n not in needed]
        sargs = '(d : %s α)' % rec
        for n, v, kind in d['services']:
            if n in names and n in fields:
                raise Untranslatable('service %s.%s shadows a parameter' % (m, n))
            if not (emit_all or n in needed):
                continue
            t = translate(v, names, funcs, False)
            if t[0] == 'r':
                out.append('/-- `%s.%s.v_str = %r` -/' % (m, n, ' '.join(v.split())))
                out.append('def %s_%s %s : α := %s' % (m, n, sargs, t[1]))
                names[n] = '(%s_%s d)' % (m, n)
                items.append('%s_%s' % (m, n))
            else:
                out.append('/-- `%s.%s.v_str = %r` (complex: real and imaginary part) -/' % (m, n, ' '.join(v.split())))
                out.append('def %s_%s_re %s : α := %s' % (m, n, sargs, t[1] or '0.0'))
                out.append('def %s_%s_im %s : α := %s' % (m, n, sargs, t[2] or '0.0'))
                names[n] = ('c', '(%s_%s_re d)' % (m, n), '(%s_%s_im d)' % (m, n))
                items += ['%s_%s_re' % (m, n), '%s_%s_im' % (m, n)]
        eargs = sargs + ''.join(' (%s : Flags α)' % a for a in FLAGS[m].values()) + ' (%s : α)' % ' '.join(VARS[m])
        for n, e, kind in d['eqs']:
            t = translate(e, names, funcs, True)
            if t[0] != 'r':
                raise Untranslatable('complex residual %s.%s' % (m, n))
            out.append('/-- `%s.%s.e_str = %r` -/' % (m, n, ' '.join(e.split())))
            out.append('def %s_%s %s : α := %s' % (m, n, eargs, t[1]))
            items.append('%s_%s' % (m, n))
        for (n, src, idxr, model) in d['ext']:
            table.append((m, n, model, src, idxr))
        if d['setters']:
            raise Untranslatable('%s has equation setters %s (the assembly model only knows adders)' % (m, d['setters']))
        out.append('')
    out.append('/-- (model, variable, target model, target variable, indexer) of every external algebraic variable -/')
    out.append('def extTable : List (String × String × String × String × String) := [')
    out.append(',\n'.join('  ("%s", "%s", "%s", "%s", "%s")' % t for t in table) + ']')
    out += ['', 'end Andes.Gen.PFlowEqs', '']
    os.makedirs(os.path.join(lean_dir, 'Andes', 'Gen'), exist_ok=True)
    path = os.path.join(lean_dir, 'Andes', 'Gen', 'PFlowEqs.lean')
    txt = '\n'.join(out)
    if not os.path.exists(path) or open(path).read() != txt:
        with open(path, 'w') as fh:
            fh.write(txt)
    return {'defs': items, 'unused_services': unused, 'ext_table': table,
            'strings': {m: {'services': data[m]['services'], 'eqs': data[m]['eqs']} for m in MODELS}}
