"""Maintain translator/baseline_unproved.json: obligations that the tactic portfolio does not close on the
pinned tree although they are true identities (outside the fragment).  Keyed by theorem name AND by the hash
of the obligation text, so that an entry stops applying as soon as the code (hence the text) changes.
usage: python -m translator.baseline <lake build log> <hash json> [--add]"""
import json
import os
import re
import sys


def failed_theorems(log_text, lean_dir):
    out = set()
    for m in re.finditer(r'error: (Andes/Gen/(\w+)\.lean):(\d+):(\d+): (.*)', log_text):
        path, mod, ln = m.group(1), m.group(2), int(m.group(3))
        src = open(os.path.join(lean_dir, path)).read().split('\n')
        k = ln
        while k > 0 and not src[k - 1].startswith('theorem'):
            k -= 1
        if k > 0:
            out.add('Andes.Gen.%s.%s' % (mod, src[k - 1].split()[1]))
    return out


if __name__ == '__main__':
    here = os.path.dirname(os.path.abspath(__file__))
    log = open(sys.argv[1]).read()
    hashes = json.load(open(sys.argv[2]))
    bl_path = os.path.join(here, 'baseline_unproved.json')
    bl = json.load(open(bl_path)) if os.path.exists(bl_path) else {}
    failed = failed_theorems(log, os.path.join(os.path.dirname(here), 'lean'))
    print(len(failed), 'failed theorems')
    for f in sorted(failed):
        print('  ', f, hashes.get(f))
    if '--add' in sys.argv:
        for f in failed:
            if f in hashes:
                bl[f] = hashes[f]
        json.dump(bl, open(bl_path, 'w'), indent=0, sort_keys=True)
        print('baseline now has', len(bl), 'entries')
