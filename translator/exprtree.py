"""Python expression syntax (ANDES equation strings and generated pycode bodies) -> expression trees of the
Lean deep embedding `Andes.Expr` (lean/Andes/Model/Expr.lean).  Built on Python's own `ast`; SymPy is not
used (C02 is about independence from SymPy).

A tree is a nested tuple: ('num', Fraction) ('var', i) ('pi',) ('nan',) ('add', a, b) ('sub', a, b)
('mul', a, b) ('div', a, b) ('neg', a) ('pow', a, n) ('rpow', a, b) ('un', f, a) ('atan2', y, x)
('lt', a, b) ('le', a, b) ('band', a, b) ('bor', a, b) ('bnot', a) ('ite', c, a, b).

Complex-valued sub-expressions (services declared with vtype=complex, `1j`, re/im/conj/abs/arg) are
expanded by the translator into PAIRS of real trees (`Cx(re, im)`); a complex symbol `z` becomes the two
real variables `z.re`, `z.im`."""
import ast
from decimal import Decimal
from fractions import Fraction


class Untranslatable(Exception):
    pass


class Cx:
    """a complex value as a pair of real trees"""
    __slots__ = ('re', 'im')

    def __init__(self, re, im):
        self.re, self.im = re, im


ZERO = ('num', Fraction(0))
ONE = ('num', Fraction(1))


def num(v):
    return ('num', Fraction(v))


def is_zero(t):
    return t[0] == 'num' and t[1] == 0


def is_one(t):
    return t[0] == 'num' and t[1] == 1


# smart constructors used ONLY by the complex expansion (they keep x+0, x*1, x*0 out of the real/imag parts;
# both sides of an obligation are expanded by the same rules)
def s_add(a, b):
    if is_zero(a):
        return b
    if is_zero(b):
        return a
    return ('add', a, b)


def s_sub(a, b):
    if is_zero(b):
        return a
    if is_zero(a):
        return ('neg', b)
    return ('sub', a, b)


def s_mul(a, b):
    if is_zero(a) or is_zero(b):
        return ZERO
    if is_one(a):
        return b
    if is_one(b):
        return a
    return ('mul', a, b)


def s_neg(a):
    if is_zero(a):
        return ZERO
    return ('neg', a)


def c_of(x):
    return x if isinstance(x, Cx) else Cx(x, ZERO)


def c_add(a, b):
    a, b = c_of(a), c_of(b)
    return Cx(s_add(a.re, b.re), s_add(a.im, b.im))


def c_sub(a, b):
    a, b = c_of(a), c_of(b)
    return Cx(s_sub(a.re, b.re), s_sub(a.im, b.im))


def c_mul(a, b):
    a, b = c_of(a), c_of(b)
    return Cx(s_sub(s_mul(a.re, b.re), s_mul(a.im, b.im)), s_add(s_mul(a.re, b.im), s_mul(a.im, b.re)))


def c_conj(a):
    a = c_of(a)
    return Cx(a.re, s_neg(a.im))


def c_abs2(a):
    a = c_of(a)
    return s_add(s_mul(a.re, a.re), s_mul(a.im, a.im))


def c_div(a, b):
    a, b = c_of(a), c_of(b)
    if is_zero(b.im):
        return Cx(('div', a.re, b.re), ZERO if is_zero(a.im) else ('div', a.im, b.re))
    d = c_abs2(b)
    n = c_mul(a, c_conj(b))
    return Cx(('div', n.re, d), ('div', n.im, d))


def c_pow(a, n):
    r = Cx(ONE, ZERO)
    for _ in range(n):
        r = c_mul(r, a)
    return r


def c_exp(a):
    a = c_of(a)
    mag = ONE if is_zero(a.re) else ('un', 'exp', a.re)
    return Cx(s_mul(mag, ('un', 'cos', a.im)), s_mul(mag, ('un', 'sin', a.im)))


FN1 = {'sin': 'sin', 'cos': 'cos', 'tan': 'tan', 'exp': 'exp', 'log': 'log', 'sqrt': 'sqrt',
       'abs': 'abs', 'Abs': 'abs', 'atan': 'arctan', 'arctan': 'arctan', 'sign': 'sign'}
CONST_NAMES = {'__zeros': ZERO, '__ones': ONE, '__falses': ZERO, '__trues': ONE, 'True': ONE, 'False': ZERO}


class Translator:
    """one symbol table per model: name -> variable index (complex names get `.re` / `.im`)"""

    def __init__(self, complex_names=(), subs=None):
        self.sym = {}
        self.complex_names = set(complex_names)
        self.subs = subs or {}        # name -> ast node (SubsService substitution, textual)
        self.side = []                # real trees that must vanish identically (see `sqrt` of a complex value)

    def var(self, name):
        if name not in self.sym:
            self.sym[name] = len(self.sym)
        return ('var', self.sym[name])

    # ------------------------------------------------------------------
    def tr(self, n):
        """returns a real tree or a Cx"""
        if isinstance(n, ast.Expression):
            return self.tr(n.body)
        if isinstance(n, ast.Constant):
            v = n.value
            if isinstance(v, bool):
                return ONE if v else ZERO
            if isinstance(v, int):
                return num(v)
            if isinstance(v, float):
                if v != v or v in (float('inf'), float('-inf')):
                    raise Untranslatable('non-finite literal')
                return ('num', Fraction(Decimal(repr(v))))
            if isinstance(v, complex):
                return Cx(('num', Fraction(Decimal(repr(v.real)))), ('num', Fraction(Decimal(repr(v.imag)))))
            raise Untranslatable('literal %r' % (v,))
        if isinstance(n, ast.Name):
            nm = n.id
            if nm in self.subs:
                return self.tr(self.subs[nm])
            if nm == 'pi':
                return ('pi',)
            if nm == 'nan':
                return ('nan',)
            if nm == 'I':
                return Cx(ZERO, ONE)
            if nm in CONST_NAMES:
                return CONST_NAMES[nm]
            if nm in self.complex_names:
                return Cx(self.var(nm + '.re'), self.var(nm + '.im'))
            return self.var(nm)
        if isinstance(n, ast.UnaryOp):
            a = self.tr(n.operand)
            if isinstance(n.op, ast.USub):
                return Cx(s_neg(a.re), s_neg(a.im)) if isinstance(a, Cx) else ('neg', a)
            if isinstance(n.op, ast.UAdd):
                return a
            if isinstance(n.op, (ast.Invert, ast.Not)):
                return ('bnot', self.real(a))
            raise Untranslatable('unary ' + type(n.op).__name__)
        if isinstance(n, ast.BinOp):
            if isinstance(n.op, ast.Pow):
                return self.power(n.left, n.right)
            a, b = self.tr(n.left), self.tr(n.right)
            cx = isinstance(a, Cx) or isinstance(b, Cx)
            if isinstance(n.op, ast.Add):
                return c_add(a, b) if cx else ('add', a, b)
            if isinstance(n.op, ast.Sub):
                return c_sub(a, b) if cx else ('sub', a, b)
            if isinstance(n.op, ast.Mult):
                return c_mul(a, b) if cx else ('mul', a, b)
            if isinstance(n.op, ast.Div):
                return c_div(a, b) if cx else ('div', a, b)
            if isinstance(n.op, ast.BitAnd):
                return ('band', self.real(a), self.real(b))
            if isinstance(n.op, ast.BitOr):
                return ('bor', self.real(a), self.real(b))
            raise Untranslatable('binop ' + type(n.op).__name__)
        if isinstance(n, ast.BoolOp):
            vals = [self.real(self.tr(v)) for v in n.values]
            op = 'band' if isinstance(n.op, ast.And) else 'bor'
            r = vals[0]
            for v in vals[1:]:
                r = (op, r, v)
            return r
        if isinstance(n, ast.Compare):
            if len(n.ops) != 1:
                raise Untranslatable('comparison chain')
            return self.compare(type(n.ops[0]).__name__, self.real(self.tr(n.left)), self.real(self.tr(n.comparators[0])))
        if isinstance(n, ast.Call):
            return self.call(n)
        raise Untranslatable(type(n).__name__)

    def real(self, t):
        if isinstance(t, Cx):
            if is_zero(t.im):
                return t.re
            raise Untranslatable('complex value where a real one is required')
        return t

    def compare(self, op, a, b):
        if op == 'Lt':
            return ('lt', a, b)
        if op == 'LtE':
            return ('le', a, b)
        if op == 'Gt':
            return ('lt', b, a)
        if op == 'GtE':
            return ('le', b, a)
        if op == 'Eq':
            return ('band', ('le', a, b), ('le', b, a))
        if op == 'NotEq':
            return ('bnot', ('band', ('le', a, b), ('le', b, a)))
        raise Untranslatable('comparison ' + op)

    def const_value(self, n):
        """numeric value of a literal exponent (possibly negated), else None"""
        if isinstance(n, ast.Constant) and isinstance(n.value, (int, float)) and not isinstance(n.value, bool):
            return n.value
        if isinstance(n, ast.UnaryOp) and isinstance(n.op, ast.USub):
            v = self.const_value(n.operand)
            return None if v is None else -v
        if isinstance(n, ast.BinOp) and isinstance(n.op, ast.Div):
            a, b = self.const_value(n.left), self.const_value(n.right)
            if a is not None and b:
                return Fraction(a) / Fraction(b)
        return None

    def power(self, base, expo):
        a = self.tr(base)
        v = self.const_value(expo)
        if v is not None and Fraction(v).denominator == 1:
            k = int(Fraction(v))
            if isinstance(a, Cx):
                return c_pow(a, k) if k >= 0 else c_div(Cx(ONE, ZERO), c_pow(a, -k))
            if k >= 0:
                return ('pow', a, k)
            return ('div', ONE, ('pow', a, -k))
        a = self.real(a)
        if v is not None and Fraction(v) == Fraction(1, 2):
            return ('un', 'sqrt', a)
        if v is not None and Fraction(v) == Fraction(-1, 2):
            return ('div', ONE, ('un', 'sqrt', a))
        return ('rpow', a, self.real(self.tr(expo)))

    def seq(self, n):
        if isinstance(n, (ast.List, ast.Tuple)):
            return list(n.elts)
        raise Untranslatable('expected a list')

    def call(self, n):
        if isinstance(n.func, ast.Attribute) and isinstance(n.func.value, ast.Name) and n.func.attr == 'reduce' \
                and n.func.value.id in ('logical_and', 'logical_or'):
            vals = [self.real(self.tr(v)) for v in self.seq(n.args[0])]
            op = 'band' if n.func.value.id == 'logical_and' else 'bor'
            r = vals[0]
            for v in vals[1:]:
                r = (op, r, v)
            return r
        if not isinstance(n.func, ast.Name):
            raise Untranslatable('call of ' + ast.dump(n.func)[:40])
        f = n.func.id
        args = n.args
        if f in FN1 and len(args) == 1:
            a = self.tr(args[0])
            if isinstance(a, Cx) and not is_zero(a.im):
                if f in ('abs', 'Abs'):
                    return ('un', 'sqrt', c_abs2(a))
                if f == 'exp':
                    return c_exp(a)
                if f == 'log':
                    return Cx(('un', 'log', ('un', 'sqrt', c_abs2(a))), ('atan2', a.im, a.re))
                if f == 'sqrt':
                    # SymPy prints |z| as sqrt(z * conj(z)) expanded: the argument is real although it is
                    # written with complex exponentials.  Use the real part; "imaginary part = 0" becomes a
                    # side obligation of its own.
                    self.side.append(a.im)
                    return ('un', 'sqrt', a.re)
                raise Untranslatable('%s of a complex value' % f)
            return ('un', FN1[f], self.real(a))
        if f in ('atan2', 'arctan2') and len(args) == 2:
            return ('atan2', self.real(self.tr(args[0])), self.real(self.tr(args[1])))
        if f in ('radians', 'rad') and len(args) == 1:
            return ('mul', self.real(self.tr(args[0])), ('div', ('pi',), num(180)))
        if f in ('re', 'real') and len(args) == 1:
            return c_of(self.tr(args[0])).re
        if f in ('im', 'imag') and len(args) == 1:
            return c_of(self.tr(args[0])).im
        if f == 'conj' and len(args) == 1:
            return c_conj(self.tr(args[0]))
        if f in ('arg', 'angle') and len(args) == 1:
            a = c_of(self.tr(args[0]))
            return ('atan2', a.im, a.re)
        if f == 'Indicator' and len(args) == 1:
            return self.real(self.tr(args[0]))
        if f in ('less', 'Lt', 'StrictLessThan'):
            return self.compare('Lt', self.real(self.tr(args[0])), self.real(self.tr(args[1])))
        if f in ('less_equal', 'Le', 'LessThan'):
            return self.compare('LtE', self.real(self.tr(args[0])), self.real(self.tr(args[1])))
        if f in ('greater', 'Gt', 'StrictGreaterThan'):
            return self.compare('Gt', self.real(self.tr(args[0])), self.real(self.tr(args[1])))
        if f in ('greater_equal', 'Ge', 'GreaterThan'):
            return self.compare('GtE', self.real(self.tr(args[0])), self.real(self.tr(args[1])))
        if f in ('equal', 'Eq'):
            return self.compare('Eq', self.real(self.tr(args[0])), self.real(self.tr(args[1])))
        if f == 'logical_not':
            return ('bnot', self.real(self.tr(args[0])))
        if f == 'logical_and' and len(args) == 2:
            return ('band', self.real(self.tr(args[0])), self.real(self.tr(args[1])))
        if f == 'logical_or' and len(args) == 2:
            return ('bor', self.real(self.tr(args[0])), self.real(self.tr(args[1])))
        if f == 'safe_div' and len(args) == 2:
            a, b = self.real(self.tr(args[0])), self.real(self.tr(args[1]))
            return ('ite', b, ('div', a, b), ZERO)
        if f == 'select':
            conds = [self.real(self.tr(c)) for c in self.seq(args[0])]
            vals = [self.tr(v) for v in self.seq(args[1])]
            default = ('nan',)
            for kw in n.keywords:
                if kw.arg == 'default':
                    default = self.tr(kw.value)
            if len(args) > 2:
                default = self.tr(args[2])
            return self.nest(conds, vals, default)
        if f == 'Piecewise':
            conds, vals = [], []
            default = ('nan',)
            for a in args:
                if not (isinstance(a, ast.Tuple) and len(a.elts) == 2):
                    raise Untranslatable('Piecewise arm')
                e, c = a.elts
                if isinstance(c, ast.Constant) and c.value is True or (isinstance(c, ast.Name) and c.id == 'True'):
                    default = self.tr(e)
                    break
                conds.append(self.real(self.tr(c)))
                vals.append(self.tr(e))
            return self.nest(conds, vals, default)
        if f == 'array' and len(args) == 1:
            raise Untranslatable('array')
        raise Untranslatable('call ' + f)

    def nest(self, conds, vals, default):
        if any(isinstance(v, Cx) for v in vals) or isinstance(default, Cx):
            raise Untranslatable('complex piecewise')
        r = default
        for c, v in reversed(list(zip(conds, vals))):
            r = ('ite', c, v, r)
        return r


# ---------------------------------------------------------------------- rendering

def to_lean(t):
    k = t[0]
    if k == 'num':
        q = t[1]
        if q.denominator == 1:
            return '(num (%d))' % q.numerator if q.numerator < 0 else '(num %d)' % q.numerator
        return '(num ((%d : ℚ) / %d))' % (q.numerator, q.denominator)
    if k == 'var':
        return '(var %d)' % t[1]
    if k in ('pi', 'nan'):
        return k
    if k == 'pow':
        return '(pow %s %d)' % (to_lean(t[1]), t[2])
    if k == 'un':
        return '(un .%s %s)' % (t[1], to_lean(t[2]))
    return '(%s %s)' % (k, ' '.join(to_lean(x) for x in t[1:]))


def to_sexp(t):
    k = t[0]
    if k == 'num':
        q = t[1]
        return '( num %d/%d )' % (q.numerator, q.denominator)
    if k == 'var':
        return '( var %d )' % t[1]
    if k in ('pi', 'nan'):
        return k
    if k == 'pow':
        return '( pow %s %d )' % (to_sexp(t[1]), t[2])
    if k == 'un':
        return '( un %s %s )' % (t[1], to_sexp(t[2]))
    return '( %s %s )' % (k, ' '.join(to_sexp(x) for x in t[1:]))


def size(t):
    return 1 + sum(size(x) for x in t[1:] if isinstance(x, tuple))


def vars_of(t, acc=None):
    acc = set() if acc is None else acc
    if t[0] == 'var':
        acc.add(t[1])
    for x in t[1:]:
        if isinstance(x, tuple):
            vars_of(x, acc)
    return acc


def parse_expr(src):
    return ast.parse(str(src).strip(), mode='eval').body


# ---------------------------------------------------------------------- shallow rendering (real numbers)

SHALLOW_FN = {'sin': 'Real.sin', 'cos': 'Real.cos', 'tan': 'Real.tan', 'exp': 'Real.exp', 'log': 'Real.log',
              'sqrt': 'Real.sqrt', 'abs': 'abs', 'arctan': 'Real.arctan'}


def to_shallow(t, names):
    """tree -> Lean term over ℝ with the model's symbols as bound variables (`names`: index -> identifier)"""
    k = t[0]
    if k == 'num':
        q = t[1]
        if q.denominator == 1:
            return '(%d : ℝ)' % q.numerator
        return '((%d : ℝ) / %d)' % (q.numerator, q.denominator)
    if k == 'var':
        return names[t[1]]
    if k == 'pi':
        return 'Real.pi'
    if k in ('add', 'sub', 'mul', 'div'):
        op = {'add': '+', 'sub': '-', 'mul': '*', 'div': '/'}[k]
        return '(%s %s %s)' % (to_shallow(t[1], names), op, to_shallow(t[2], names))
    if k == 'neg':
        return '(-%s)' % to_shallow(t[1], names)
    if k == 'pow':
        return '(%s ^ %d)' % (to_shallow(t[1], names), t[2])
    if k == 'un' and t[1] in SHALLOW_FN:
        return '(%s %s)' % (SHALLOW_FN[t[1]], to_shallow(t[2], names))
    raise Untranslatable('shallow rendering of ' + k)
