"""Python expression syntax -> Lean 4 term text (shallow embedding into a field).

Built on Python's own `ast` (not on SymPy).  Used for straight-line numeric routines (C04, C11) and, via
`translator/models.py`, for ANDES equation strings and generated pycode (C02, C03, C18)."""
import ast

BINOPS = {ast.Add: '+', ast.Sub: '-', ast.Mult: '*', ast.Div: '/'}


class Untranslatable(Exception):
    pass


def lean_num(v):
    """exact rational reading of a Python numeric literal as Lean text"""
    if isinstance(v, bool):
        raise Untranslatable('bool literal')
    if isinstance(v, int):
        return '(%d)' % v if v < 0 else str(v)
    if isinstance(v, float):
        from fractions import Fraction
        # the literal's decimal text denotes a rational; repr round-trips the shortest decimal
        fr = Fraction(repr(v))
        if fr.denominator == 1:
            return '(%d)' % fr.numerator if fr.numerator < 0 else str(fr.numerator)
        return '((%d : ℚ) / %d : ℚ)' % (fr.numerator, fr.denominator) if False else '(%d / %d)' % (fr.numerator, fr.denominator)
    raise Untranslatable('literal %r' % (v,))


def to_lean(node, names=None, funcs=None):
    """`names`: python name -> lean identifier; unknown names are kept (and collected in names['?'])"""
    names = names if names is not None else {}
    funcs = funcs or {}

    def go(n):
        if isinstance(n, ast.Expression):
            return go(n.body)
        if isinstance(n, ast.Constant):
            return lean_num(n.value)
        if isinstance(n, ast.Name):
            return names.get(n.id, n.id)
        if isinstance(n, ast.UnaryOp):
            if isinstance(n.op, ast.USub):
                return '(-%s)' % go(n.operand)
            if isinstance(n.op, ast.UAdd):
                return go(n.operand)
            raise Untranslatable('unary %s' % type(n.op).__name__)
        if isinstance(n, ast.BinOp):
            if type(n.op) in BINOPS:
                return '(%s %s %s)' % (go(n.left), BINOPS[type(n.op)], go(n.right))
            if isinstance(n.op, ast.Pow):
                if isinstance(n.right, ast.Constant) and isinstance(n.right.value, int) and n.right.value >= 0:
                    return '(%s ^ %d)' % (go(n.left), n.right.value)
                if isinstance(n.right, ast.UnaryOp) and isinstance(n.right.op, ast.USub) and \
                        isinstance(n.right.operand, ast.Constant) and isinstance(n.right.operand.value, int):
                    return '((%s ^ %d)⁻¹)' % (go(n.left), n.right.operand.value)
                raise Untranslatable('power with non-integer exponent')
            raise Untranslatable('binop %s' % type(n.op).__name__)
        if isinstance(n, ast.Call):
            fn = n.func.id if isinstance(n.func, ast.Name) else (n.func.attr if isinstance(n.func, ast.Attribute) else None)
            if fn in funcs:
                return '(%s %s)' % (funcs[fn], ' '.join(go(a) for a in n.args))
            raise Untranslatable('call %s' % fn)
        if isinstance(n, ast.Attribute):
            # self.x / dae.x style access: use the attribute name
            return names.get(n.attr, n.attr)
        raise Untranslatable(type(n).__name__)
    return go(node)


def return_expr(func_src_node):
    """the expression of the single `return` of a function definition"""
    rets = [n for n in ast.walk(func_src_node) if isinstance(n, ast.Return)]
    if len(rets) != 1:
        raise Untranslatable('function has %d return statements' % len(rets))
    return rets[0].value


def find_def(tree, path):
    node = tree
    for p in path.split('.'):
        for ch in ast.iter_child_nodes(node):
            if isinstance(ch, (ast.FunctionDef, ast.ClassDef)) and ch.name == p:
                node = ch
                break
        else:
            raise KeyError(path)
    return node
