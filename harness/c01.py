"""C01 — a converged power flow satisfies the AC network equations of the input data.

Lean: Andes/Props/C01.lean.  Andes/Gen/PFlowEqs.lean is REGENERATED on every run from the real model objects
(Line, PQ, PV, Slack, Shunt: every residual string and the services it uses); Andes/Model/Line.lean (per-unit
conversion) and Andes/Model/Assemble.lean (bus lookup, adders, g_islands) are hand models tied to the real
System by the streams below.

Streams (random networks built through System.add, all choices from ctx.rng):
  assemble   dae.g after the real PFlow.fg_update() at the reported solution and at a random point, against
             the Lean model evaluated on the INPUT-base data (as_dict(vin=True)); tolerance 1e-9*(1+max|y_series|)
  per-unit   system-base r,x,g,b,g1,b1,g2,b2 of every line / g,b of every shunt and the bus addresses of every
             line, bit-exact against the model
Oracle on the real code (independent of the model): complex power balance at every non-islanded bus from
the physical input data at the voltages PFlow.run() reports, PV/Slack set-points, slack angle; invariance of
the solution under insertion order, index type (numbers / strings) and device base; the same for NR /
dishonest / Newton-Krylov and klu / umfpack / spsolve; stock cases in every input format."""
import contextlib
import glob
import io
import json
import math
import os
import tempfile
import random

from harness import common as C

PROP_MODULES = ['Andes.Props.C01']
RULE = ('network = random connected topology (2-30 buses, parallel lines, off-nominal taps, phase shifters, '
        'asymmetric branch shunts, several devices per bus, offline devices, isolated bus, device bases != system '
        'base, 1-4 voltage levels, numeric/string/mixed idx, shuffled insertion order) x Newton variant x sparse '
        'solver; distinct = distinct (network, variant); non-trivial = at least 2 buses, a load and an online line')
ASSUMPTIONS = [
    'theorems are over the reals (Mathlib sin/cos); IEEE rounding is exercised by the correspondence only',
    '"converges from a flat start for every well-posed network" is not a theorem (Newton has no global guarantee): '
    'measured on the generated networks and reported as a count; a reported convergence is what the oracle audits',
    'the series impedance carries the 1e-8 regularisation of Line.yhk; the oracle (which does not add it) allows '
    'the corresponding first-order change of the branch flows on top of the configured tolerance',
    'limiters (PQ voltage band, PV reactive limits) enter the model as their status flags read from the real run; '
    'the theorems about loads and set-points are for the in-band state (zi=1, zl=zu=0), generated networks stay in it',
    'islanded-bus detection and address allocation are C12 / C10; here they are inputs checked by the correspondence',
    'the to-bus equations of Line used the from-side shunt on the pinned tree (repaired, see known_findings.json '
    'line-to-side-shunt): the network theorems now hold for asymmetric end shunts too; the oracle key stays armed',
]
CORPUS = os.path.join(C.ROOT, 'corpus', 'c01')
EPS = 1e-8

# ------------------------------------------------------------------ generation


def gen_spec(rng, nmax=14, asym=None):
    nb = rng.choice([2, 2, 3, 3, 4, 5, 6, 8, 10, 12, 14, 18, 24, 30])
    while nb > nmax:
        nb = rng.choice([2, 3, 4, 5, 6, 8, 10, 12, 14])
    levels = rng.sample([110.0, 230.0, 13.8, 500.0], rng.choice([1, 1, 2, 3]))
    mva = rng.choice([100.0, 100.0, 50.0, 250.0])
    buses = [{'Vn': rng.choice(levels)} for _ in range(nb)]
    asym = (rng.random() < 0.3) if asym is None else asym
    lines = []

    def mk_line(i, j, online=True):
        x = rng.uniform(0.02, 0.25)
        # (a small NEGATIVE resistance is valid data: star equivalents of three-winding transformers, reduced networks)
        ln = {'bus1': i, 'bus2': j, 'u': 1.0 if online else 0.0, 'x': x,
              'r': x * rng.choice([0.0, 0.1, 0.3, 0.3, -0.08]) * rng.random(),
              'b': rng.choice([0.0, rng.uniform(0, 0.03)]), 'g': rng.choice([0.0, 0.0, 0.0, 0.004]),
              'b1': 0.0, 'g1': 0.0, 'b2': 0.0, 'g2': 0.0,
              'tap': rng.choice([1.0, 1.0, round(rng.uniform(0.95, 1.05), 3)]),
              'phi': rng.choice([0.0, 0.0, 0.0, round(rng.uniform(-0.1, 0.1), 3)])}
        if rng.random() < 0.2:
            ln['b1'] = ln['b2'] = round(rng.uniform(0, 0.05), 4)
            ln['g1'] = ln['g2'] = rng.choice([0.0, 0.002])
        if asym and rng.random() < 0.5:
            ln['b1'], ln['b2'] = round(rng.uniform(0, 0.05), 4), round(rng.uniform(0.01, 0.06), 4)
            if rng.random() < 0.3:
                ln['g1'], ln['g2'] = 0.001, 0.003
        # device base: values are chosen on the system base and re-expressed on (Sn, Vn1)
        ln['Sn'] = rng.choice([mva, mva, 50.0, 200.0, 33.3])
        ln['Vn1'] = buses[i]['Vn'] * rng.choice([1.0, 1.0, 1.05, 0.95])
        ln['Vn2'] = buses[j]['Vn']
        return ln
    for k in range(1, nb):
        lines.append(mk_line(rng.randrange(k), k))
    for _ in range(rng.randrange(0, max(2, nb // 2))):
        i, j = rng.sample(range(nb), 2)
        lines.append(mk_line(i, j, online=rng.random() > 0.2))
    slack_bus = rng.randrange(nb)
    gens_at = [b for b in range(nb) if b != slack_bus]
    rng.shuffle(gens_at)
    pv_buses = gens_at[:rng.randrange(0, max(1, nb // 4) + 1)]
    pqs, shunts, pvs = [], [], []
    for b in range(nb):
        is_gen = b == slack_bus or b in pv_buses
        if rng.random() < (0.35 if is_gen else 0.75):
            for _ in range(rng.choice([1, 1, 2])):
                p = rng.uniform(0.03, 0.3)
                pqs.append({'bus': b, 'u': 0.0 if rng.random() < 0.1 else 1.0, 'p0': p, 'q0': p * rng.uniform(-0.1, 0.5),
                            'Vn': buses[b]['Vn']})
    if not pqs:
        pqs.append({'bus': (slack_bus + 1) % nb, 'u': 1.0, 'p0': 0.2, 'q0': 0.05, 'Vn': buses[(slack_bus + 1) % nb]['Vn']})
    tot = sum(q['p0'] * q['u'] for q in pqs)
    scale = min(1.0, 0.6 / max(tot, 1e-9))      # normal loading: well below the transfer limit of a weak radial path
    for q in pqs:
        q['p0'] *= scale
        q['q0'] *= scale
    tot *= scale
    for b in pv_buses:
        v0 = round(rng.uniform(0.99, 1.04), 3)
        for _ in range(2 if rng.random() < 0.15 else 1):
            pvs.append({'bus': b, 'u': 0.0 if rng.random() < 0.1 else 1.0, 'p0': tot * rng.uniform(0.05, 0.3), 'q0': 0.0,
                        'v0': v0, 'Sn': rng.choice([100.0, 50.0]), 'Vn': buses[b]['Vn']})
    sv0 = round(rng.uniform(0.99, 1.04), 3)
    slacks = [{'bus': slack_bus, 'u': 1.0, 'p0': 0.0, 'q0': 0.0, 'v0': sv0, 'a0': rng.choice([0.0, 0.0, round(rng.uniform(-0.3, 0.3), 3)]),
               'Sn': 100.0, 'Vn': buses[slack_bus]['Vn']}]
    if rng.random() < 0.15:
        pvs.append({'bus': slack_bus, 'u': 1.0, 'p0': tot * 0.1, 'q0': 0.0, 'v0': sv0, 'Sn': 100.0, 'Vn': buses[slack_bus]['Vn']})
    if rng.random() < 0.4:
        for _ in range(rng.choice([1, 2, 3])):
            b = rng.randrange(nb)
            shunts.append({'bus': b, 'u': 0.0 if rng.random() < 0.15 else 1.0, 'g': rng.choice([0.0, 0.01]),
                           'b': round(rng.uniform(-0.1, 0.2), 3), 'Sn': rng.choice([mva, 10.0, 50.0]),
                           'Vn': buses[b]['Vn'] * rng.choice([1.0, 1.1])})
    if rng.random() < 0.12:
        # an isolated bus: only an offline line leads to it
        buses.append({'Vn': levels[0]})
        ln = mk_line(rng.randrange(nb), nb, online=False)
        lines.append(ln)
        if rng.random() < 0.5:
            pqs.append({'bus': nb, 'u': 1.0, 'p0': 0.1, 'q0': 0.02, 'Vn': levels[0]})
    return {'mva': mva, 'flat': rng.choice([0, 1]), 'buses': buses, 'lines': lines, 'pqs': pqs, 'pvs': pvs,
            'slacks': slacks, 'shunts': shunts, 'asym': bool(asym)}


def gen_variant(rng):
    return {'idx': rng.choice(['int', 'str', 'mixed']), 'shuffle': rng.randrange(1, 1 << 30),
            'rebase': rng.choice([0, 0, rng.randrange(1, 1 << 30)])}


BASE_VARIANT = {'idx': 'int', 'shuffle': 0, 'rebase': 0}

# ------------------------------------------------------------------ building the real System


def idx_of(kind, k, style, r):
    s = style if style != 'mixed' else r.choice(['int', 'str'])
    base = {'Bus': 1, 'Line': 1000, 'PQ': 2000, 'PV': 3000, 'Slack': 3500, 'Shunt': 4000}[kind]
    return base + 7 * k if s == 'int' else '%s_%d' % (kind[0] + kind[-1], k)


def build(spec, variant):
    """-> (System after setup, {logical bus number: idx})"""
    import andes
    r = random.Random(variant.get('shuffle', 0) * 31 + 5)
    ss = andes.System(default_config=True, no_output=True)
    ss.config.mva = spec['mva']
    ss.Bus.config.flat_start = spec['flat']
    style = variant.get('idx', 'int')
    bidx = {k: idx_of('Bus', k, style, r) for k in range(len(spec['buses']))}
    rb = random.Random(variant['rebase']) if variant.get('rebase') else None
    items = []
    for k, b in enumerate(spec['buses']):
        items.append(('Bus', {'idx': bidx[k], 'Vn': b['Vn'], 'name': 'bus%d' % k}))
    for k, ln in enumerate(spec['lines']):
        Vb = spec['buses'][ln['bus1']]['Vn']
        Sn, Vn1 = ln['Sn'], ln['Vn1']
        if rb is not None:      # same ohms / siemens on another device base
            Sn, Vn1 = rb.choice([spec['mva'], 75.0, 400.0, 12.5]), Vb * rb.choice([1.0, 1.02, 0.9, 1.2])
        kz = (Vn1 ** 2 / Sn) / (Vb ** 2 / spec['mva'])          # input value = system-base value / coefficient
        p = {'idx': idx_of('Line', k, style, r), 'bus1': bidx[ln['bus1']], 'bus2': bidx[ln['bus2']], 'u': ln['u'],
             'Sn': Sn, 'Vn1': Vn1, 'Vn2': ln['Vn2'], 'tap': ln['tap'], 'phi': ln['phi'],
             'r': ln['r'] / kz, 'x': ln['x'] / kz}
        for f in ('b', 'g', 'b1', 'g1', 'b2', 'g2'):
            p[f] = ln[f] * kz
        items.append(('Line', p))
    for k, q in enumerate(spec['pqs']):
        items.append(('PQ', {'idx': idx_of('PQ', k, style, r), 'bus': bidx[q['bus']], 'u': q['u'], 'p0': q['p0'], 'q0': q['q0'],
                             'Vn': q['Vn']}))
    for k, g in enumerate(spec['pvs']):
        items.append(('PV', {'idx': idx_of('PV', k, style, r), 'bus': bidx[g['bus']], 'u': g['u'], 'p0': g['p0'], 'q0': g['q0'],
                             'v0': g['v0'], 'Sn': g['Sn'], 'Vn': g['Vn']}))
    for k, g in enumerate(spec['slacks']):
        items.append(('Slack', {'idx': idx_of('Slack', k, style, r), 'bus': bidx[g['bus']], 'u': g['u'], 'p0': g['p0'],
                                'q0': g['q0'], 'v0': g['v0'], 'a0': g['a0'], 'Sn': g['Sn'], 'Vn': g['Vn']}))
    for k, s in enumerate(spec['shunts']):
        Vb = spec['buses'][s['bus']]['Vn']
        Sn, Vn = s['Sn'], s['Vn']
        if rb is not None:
            Sn, Vn = rb.choice([spec['mva'], 20.0, 300.0]), Vb * rb.choice([1.0, 0.95, 1.15])
        ky = (Vb ** 2 / spec['mva']) / (Vn ** 2 / Sn)
        items.append(('Shunt', {'idx': idx_of('Shunt', k, style, r), 'bus': bidx[s['bus']], 'u': s['u'], 'Sn': Sn, 'Vn': Vn,
                                'g': s['g'] / ky, 'b': s['b'] / ky}))
    if variant.get('shuffle'):
        r.shuffle(items)
    for m, p in items:
        ss.add(m, dict(p))         # (System.add consumes the dictionary it is given)
    ss.setup()
    ss.verif_items = items
    return ss, bidx


def entered_in_effect(ss):
    """the input data in effect are the data entered: every numeric value handed to System.add (all of them satisfy
    the documented restrictions of their parameters) is the input-base value of that device"""
    bad = []
    for m, p in ss.verif_items:
        mdl = ss.models[m]
        u = mdl.idx2uid(p['idx'])
        for k, v in p.items():
            if k in ('idx', 'name', 'bus', 'bus1', 'bus2') or not isinstance(v, (int, float)):
                continue
            got = float(mdl.params[k].vin[u])
            if got != float(v):
                bad.append(('entered-data-not-in-effect', '%s %r was entered with %s = %r; the input value in effect is %r: the '
                            'power flow is that of another network' % (m, p['idx'], k, v, got)))
                break
    return bad[:3]


PF_MODELS = {'Bus', 'PQ', 'PV', 'Slack', 'Shunt', 'Line'}


def solve(ss, method='NR', lib='klu', linsolve=0):
    from andes.linsolvers.solverbase import Solver
    ss.PFlow.config.method = method
    ss.PFlow.config.linsolve = linsolve
    ss.PFlow.config.sparselib = lib
    ss.PFlow.solver = Solver(sparselib=lib)
    sink = io.StringIO()
    with contextlib.redirect_stdout(sink):
        ok = bool(ss.PFlow.run())
    return ok


def solution(ss):
    return {str(i): (float(v), float(a)) for i, v, a in zip(ss.Bus.idx.v, ss.Bus.v.v, ss.Bus.a.v)}

# ------------------------------------------------------------------ the independent oracle


def physical_balance(ss):
    """complex power balance at every bus from as_dict(vin=True) input data, at the reported voltages.
    -> (mismatch per bus position, allowance per bus, predicted to-side-shunt error per bus, islanded set, info)"""
    import numpy as np
    mva = float(ss.config.mva)
    bus = ss.Bus.as_dict(vin=True)
    pos = {i: k for k, i in enumerate(bus['idx'])}
    nb = len(pos)
    Vn = np.asarray(bus['Vn'], dtype=float)
    V = np.asarray(ss.Bus.v.v, dtype=float) * np.exp(1j * np.asarray(ss.Bus.a.v, dtype=float))
    S = np.zeros(nb, dtype=complex)          # power leaving the bus into devices, minus generation
    allow = np.zeros(nb)
    defect = np.zeros(nb, dtype=complex)
    deg = np.zeros(nb, dtype=int)
    absflow = np.zeros(nb)
    ln = ss.Line.as_dict(vin=True)
    ymax = 0.0
    for k in range(ss.Line.n):
        if ln['u'][k] == 0:
            continue
        if ln['u'][k] != 1:
            raise ValueError('line status is neither 0 nor 1')
        i, j = pos[ln['bus1'][k]], pos[ln['bus2'][k]]
        Zb = Vn[i] ** 2 / mva                      # ohm base of the from bus
        Zn = ln['Vn1'][k] ** 2 / ln['Sn'][k]       # ohm base of the device
        z = (ln['r'][k] + 1j * ln['x'][k]) * Zn / Zb        # ohms / Zb
        y = 1.0 / z
        yh = ((ln['g1'][k] + ln['g'][k] / 2) + 1j * (ln['b1'][k] + ln['b'][k] / 2)) * Zb / Zn
        yk = ((ln['g2'][k] + ln['g'][k] / 2) + 1j * (ln['b2'][k] + ln['b'][k] / 2)) * Zb / Zn
        m = ln['tap'][k] * np.exp(1j * ln['phi'][k])
        V1, V2 = V[i], V[j]
        I1 = ((V1 / m - V2) * y + (V1 / m) * yh) / np.conj(m)
        I2 = (V2 - V1 / m) * y + V2 * yk
        S[i] += V1 * np.conj(I1)
        S[j] += V2 * np.conj(I2)
        absflow[i] += abs(V1 * np.conj(I1))
        absflow[j] += abs(V2 * np.conj(I2))
        deg[i] += 1
        deg[j] += 1
        dy = abs(y) ** 2 * EPS * math.sqrt(2.0)     # |d(1/z)| for the 1e-8 added to r and x by Line.yhk
        dI = dy * abs(V1 / m - V2)
        allow[i] += abs(V1) * dI / abs(m)
        allow[j] += abs(V2) * dI
        defect[j] += abs(V2) ** 2 * np.conj(yh - yk)       # what using y_h for y_k at the to bus would add
        ymax = max(ymax, abs(y))
    pq = ss.PQ.as_dict(vin=True)
    outband = 0
    for k in range(ss.PQ.n):
        if pq['u'][k] == 0:
            continue
        i = pos[pq['bus'][k]]
        v = abs(V[i])
        s = pq['p0'][k] + 1j * pq['q0'][k]
        if v < pq['vmin'][k]:
            s = s * v ** 2 / pq['vmin'][k] ** 2
            outband += 1
        elif v > pq['vmax'][k]:
            s = s * v ** 2 / pq['vmax'][k] ** 2
            outband += 1
        S[i] += s
    sh = ss.Shunt.as_dict(vin=True)
    for k in range(ss.Shunt.n):
        if sh['u'][k] == 0:
            continue
        i = pos[sh['bus'][k]]
        Y = (sh['g'][k] + 1j * sh['b'][k]) * (Vn[i] ** 2 / mva) / (sh['Vn'][k] ** 2 / sh['Sn'][k])
        S[i] += abs(V[i]) ** 2 * np.conj(Y)
    setp = []
    pv = ss.PV.as_dict(vin=True)
    for k in range(ss.PV.n):
        if pv['u'][k] == 0:
            continue
        i = pos[pv['bus'][k]]
        S[i] -= pv['p0'][k] + 1j * float(ss.PV.q.v[k])
        setp.append(('pv', k, abs(V[i]) - pv['v0'][k]))
    sl = ss.Slack.as_dict(vin=True)
    for k in range(ss.Slack.n):
        if sl['u'][k] == 0:
            continue
        i = pos[sl['bus'][k]]
        S[i] -= float(ss.Slack.p.v[k]) + 1j * float(ss.Slack.q.v[k])
        setp.append(('slack-v', k, abs(V[i]) - sl['v0'][k]))
        setp.append(('slack-a', k, float(ss.Bus.a.v[i]) - sl['a0'][k]))
    islanded = {k for k in range(nb) if deg[k] == 0}
    return S, allow, defect, islanded, {'setp': setp, 'outband': outband, 'ymax': ymax, 'absflow': absflow,
                                         'vmin': float(np.min(np.abs(V))), 'vmax': float(np.max(np.abs(V)))}


def oracle(ss, tol=None):
    """-> list of (key, what); the property clauses on a run that reported convergence"""
    import numpy as np
    tol = float(ss.PFlow.config.tol) if tol is None else tol
    S, allow, defect, islanded, info = physical_balance(ss)
    bad = []
    worst = 0.0
    for k in range(len(S)):
        if k in islanded:
            continue
        lim = tol + allow[k] + 1e-12 * (1 + info['absflow'][k])
        mis = max(abs(S[k].real), abs(S[k].imag))
        worst = max(worst, mis - allow[k])
        if mis > lim:
            d = S[k] + defect[k]      # mismatch that remains if the to-side shunt had been the from-side one
            if abs(defect[k]) > 0 and max(abs(d.real), abs(d.imag)) <= lim:
                bad.append(('line-to-side-shunt',
                            'converged power flow violates the complex power balance of the input data at bus %r by '
                            '%.4g p.u. (P %.3g, Q %.3g); the mismatch equals v2^2*conj(y_h - y_k) of the lines ending there: '
                            'the to-side equations use the from-side shunt g1,b1 instead of g2,b2'
                            % (ss.Bus.idx.v[k], mis, S[k].real, S[k].imag)))
            else:
                bad.append(('bus-balance-mismatch',
                            'converged power flow violates the complex power balance of the input data at bus %r: '
                            'P %.3g, Q %.3g p.u. (tolerance %.1e)' % (ss.Bus.idx.v[k], S[k].real, S[k].imag, lim)))
    for kind, k, d in info['setp']:
        if abs(d) > tol:
            key = {'pv': 'pv-setpoint', 'slack-v': 'slack-setpoint', 'slack-a': 'slack-angle'}[kind]
            bad.append((key, '%s %d is off its set-point by %.3g (tolerance %.1e)' % (kind, k, d, tol)))
    # de-duplicate keys (one report per mechanism)
    seen, out = set(), []
    for key, what in bad:
        if key not in seen:
            seen.add(key)
            out.append((key, what))
    info['worst'] = worst
    info['islanded'] = sorted(islanded)
    return out, info

# ------------------------------------------------------------------ model lines


def tok(i):
    if isinstance(i, (int,)) and not isinstance(i, bool):
        return 'n%d' % i
    try:
        import numpy as np
        if isinstance(i, np.integer):
            return 'n%d' % int(i)
    except ImportError:
        pass
    return 's%s' % i


def hx(*xs):
    return ','.join(C.f2h(x) for x in xs)


def flags(d, k):
    return hx(d.zi[k], d.zl[k], d.zu[k])


def model_args(ss, y):
    """the network as the driver reads it: INPUT-base data, bus Vn, limiter flags, islanded positions"""
    bus = ss.Bus.as_dict(vin=True)
    pq, pv, sl, sh, ln = (getattr(ss, m).as_dict(vin=True) for m in ('PQ', 'PV', 'Slack', 'Shunt', 'Line'))
    g = lambda lst: ';'.join(lst) if lst else '-'
    buses = ['%s,%s' % (tok(i), hx(v)) for i, v in zip(bus['idx'], bus['Vn'])]
    pqs = ['%s,%s,%s' % (tok(pq['bus'][k]), hx(pq['u'][k], pq['p0'][k], pq['q0'][k], pq['vmin'][k], pq['vmax'][k]),
                         flags(ss.PQ.vcmp, k)) for k in range(ss.PQ.n)]

    def gen(d, mdl, k, zp):
        return '%s,%s,%s,%s' % (tok(d['bus'][k]), hx(d['u'][k], d['p0'][k], d['q0'][k], d['v0'][k], d['a0'][k] if 'a0' in d else 0.0,
                                                     d['pmin'][k], d['pmax'][k], d['qmin'][k], d['qmax'][k]),
                                flags(mdl.qlim, k), zp)
    pvs = [gen(pv, ss.PV, k, hx(1.0, 0.0, 0.0)) for k in range(ss.PV.n)]
    sls = [gen(sl, ss.Slack, k, flags(ss.Slack.plim, k)) for k in range(ss.Slack.n)]
    shs = ['%s,%s' % (tok(sh['bus'][k]), hx(sh['Sn'][k], sh['Vn'][k], sh['u'][k], sh['g'][k], sh['b'][k])) for k in range(ss.Shunt.n)]
    lns = ['%s,%s,%s' % (tok(ln['bus1'][k]), tok(ln['bus2'][k]),
                         hx(*[ln[f][k] for f in ('Sn', 'Vn1', 'u', 'r', 'x', 'g', 'b', 'g1', 'b1', 'g2', 'b2', 'tap', 'phi')]))
           for k in range(ss.Line.n)]
    isl = ','.join(str(int(b)) for b in ss.Bus.islanded_buses) or '-'
    return ' '.join([hx(float(ss.config.mva)), hx(*y) if len(y) else '-', isl, g(buses), g(pqs), g(pvs), g(sls), g(shs), g(lns)])


def impl_pu(ss):
    a = ';'.join(hx(*[getattr(ss.Line, f).v[k] for f in ('r', 'x', 'g', 'b', 'g1', 'b1', 'g2', 'b2')]) for k in range(ss.Line.n))
    b = ';'.join(hx(ss.Shunt.g.v[k], ss.Shunt.b.v[k]) for k in range(ss.Shunt.n))
    c = ';'.join(','.join(str(int(getattr(ss.Line, v).a[k])) for v in ('a1', 'v1', 'a2', 'v2')) for k in range(ss.Line.n))
    return '|'.join([a, b, c])


def real_g(ss, y):
    """dae.g after the real PFlow.fg_update() with dae.y := y"""
    ss.dae.y[:] = y
    ss.vars_to_models()
    ss.PFlow.fg_update()
    return [float(x) for x in ss.dae.g]

# ------------------------------------------------------------------ one job (runs in a forked worker)


VARIANT_SOLVERS = [('dishonest', 'klu', 0), ('NR', 'umfpack', 0), ('NR', 'spsolve', 0), ('NR', 'klu', 1), ('dishonest', 'umfpack', 0)]


def job(arg):
    spec, variant, seed, extra = arg
    import numpy as np
    r = random.Random(seed)
    out = {'lines': [], 'expect': [], 'oracle': [], 'counts': {}, 'info': {}}

    def cnt(k, n=1):
        out['counts'][k] = out['counts'].get(k, 0) + n
    try:
        ss, bidx = build(spec, BASE_VARIANT)
        if set(ss.PFlow.models) - PF_MODELS if ss.PFlow.models else False:
            raise RuntimeError('unexpected power-flow models')
        conv = solve(ss)
        if float(ss.dae.t) >= 0:
            out['oracle'].append(('pflow-at-nonnegative-time', 'PFlow ran with dae.t = %r >= 0' % float(ss.dae.t)))
        cnt('converged' if conv else 'not-converged')
        cnt('niter:%d' % (ss.PFlow.niter + 1))
        base_sol = None
        normal = False
        out['oracle'] += entered_in_effect(ss)
        if conv:
            bad, info = oracle(ss)
            out['oracle'] += bad
            out['info'] = {k: info[k] for k in ('worst', 'vmin', 'vmax', 'outband', 'islanded')}
            base_sol = {k: solution(ss)[str(bidx[k])] for k in bidx}
            normal = info['outband'] == 0 and 0.8 <= info['vmin'] and info['vmax'] <= 1.2
            cnt('normal-loading' if normal else 'converged-outside-voltage-band')
        ysol = ss.dae.y.copy()
        # correspondence: g at the solution and at a random point; per-unit data
        nb = ss.Bus.n
        yr = ysol.copy()
        yr[:nb] = [r.uniform(-0.6, 0.6) for _ in range(nb)]
        yr[nb:2 * nb] = [r.uniform(0.75, 1.25) for _ in range(nb)]
        yr[2 * nb:] = [r.uniform(-1, 1) for _ in range(len(yr) - 2 * nb)]
        for y in (ysol, yr):
            g = real_g(ss, y)
            out['lines'].append('pfg ' + model_args(ss, y))
            out['expect'].append(('g', g, 1e-9 * (1 + 1.0 / min([0.02] + [abs(complex(a, b)) for a, b in zip(ss.Line.r.v, ss.Line.x.v)]))))
        out['lines'].append('pfu ' + model_args(ss, ysol))
        out['expect'].append(('pu', impl_pu(ss), 0))
        ss.dae.y[:] = ysol
        ss.vars_to_models()
        # Newton variants / sparse solvers on the same system
        if conv:
            for (meth, lib, lin) in (VARIANT_SOLVERS if extra else [VARIANT_SOLVERS[seed % len(VARIANT_SOLVERS)]]):
                ok = solve(ss, meth, lib, lin)
                tag = '%s/%s%s' % (meth, lib, '/linsolve' if lin else '')
                cnt('variant:' + tag)
                if not ok:
                    cnt('variant-not-converged:' + tag)
                    continue
                bad, _ = oracle(ss)
                out['oracle'] += [(k, '[%s] %s' % (tag, w)) for k, w in bad]
                sol = solution(ss)
                dmax = max(max(abs(sol[str(bidx[k])][0] - base_sol[k][0]), abs(sol[str(bidx[k])][1] - base_sol[k][1])) for k in bidx)
                if normal and dmax > 1e-5:
                    out['oracle'].append(('solver-variant-changes-solution', '%s gives bus voltages differing by %.3g from NR/klu' % (tag, dmax)))
            solve(ss)
            # the same System after reset(): the input data are the ones entered, so the solution is the first one
            ss.reset()
            okr = solve(ss)
            cnt('reset-then-solve')
            if not okr:
                out['oracle'].append(('reset-then-solve-fails', 'after System.reset() the power flow of the same data does not converge'))
            else:
                sol = solution(ss)
                dmax = max(max(abs(sol[str(bidx[k])][0] - base_sol[k][0]), abs(sol[str(bidx[k])][1] - base_sol[k][1])) for k in bidx)
                if normal and dmax > 1e-6:
                    out['oracle'].append(('reset-changes-solution', 'System.reset() followed by a second power flow gives bus voltages differing by '
                                          '%.3g from the first solution of the same input data' % dmax))
            # the same System once more with loads far beyond the transfer capability: whatever the routine then
            # reports, a reported convergence must again come with the balance of the data now in effect
            if okr and ss.PQ.n > 0:
                for i, p0, q0 in zip(list(ss.PQ.idx.v), list(ss.PQ.p0.vin), list(ss.PQ.q0.vin)):
                    ss.PQ.alter('p0', i, 25.0 * float(p0) + 5.0)
                    ss.PQ.alter('q0', i, 25.0 * float(q0) + 2.0)
                oko = solve(ss)
                cnt('overload-resolve:' + ('reports-convergence' if oko else 'reports-failure'))
                if oko:
                    bad, _ = oracle(ss)
                    out['oracle'] += [(k, '[re-solve after overloading] ' + w) for k, w in bad]
        # metamorphic variant: insertion order, idx type, device base
        if conv and variant is not None:
            s2, bidx2 = build(spec, variant)
            ok2 = solve(s2)
            cnt('variant-idx:' + variant['idx'])
            cnt('variant-rebase' if variant['rebase'] else 'variant-order')
            if not ok2:
                out['oracle'].append(('variant-does-not-converge', 'the same network entered in another order / index type / '
                                      'device base does not converge'))
            else:
                bad, _ = oracle(s2)
                out['oracle'] += [(k, '[variant] ' + w) for k, w in bad]
                sol2 = solution(s2)
                dmax = max(max(abs(sol2[str(bidx2[k])][0] - base_sol[k][0]), abs(sol2[str(bidx2[k])][1] - base_sol[k][1])) for k in bidx)
                key = 'solution-depends-on-device-base' if variant['rebase'] else 'solution-depends-on-order-or-idx-type'
                if normal and dmax > 1e-5:
                    out['oracle'].append((key, 'bus voltages differ by %.3g between two entries of the same physical network (%r)'
                                          % (dmax, variant)))
                y2 = s2.dae.y.copy()
                g2 = real_g(s2, y2)
                out['lines'].append('pfg ' + model_args(s2, y2))
                out['expect'].append(('g', g2, 1e-9 * 51))
                out['lines'].append('pfu ' + model_args(s2, y2))
                out['expect'].append(('pu', impl_pu(s2), 0))
        out['conv'] = conv
        out['size'] = (ss.Bus.n, ss.Line.n, ss.PQ.n, ss.PV.n, ss.Shunt.n)
    except Exception as e:      # noqa
        import traceback
        out['error'] = traceback.format_exc()[-1500:]
    return out


def stock_job(path):
    import andes
    out = {'path': path, 'oracle': [], 'skip': None}
    try:
        sink = io.StringIO()
        with contextlib.redirect_stdout(sink):
            ss = andes.load(andes.get_case(path), no_output=True, default_config=True, setup=True)
        if ss is None:
            out['skip'] = 'not loaded'
            return out
        extra = set(m for m, v in ss.find_models('pflow').items()
                    if v.n > 0 and (v.algebs or v.algebs_ext or v.states or v.states_ext)) - PF_MODELS
        if extra:
            out['skip'] = 'other power-flow models: %s' % sorted(extra)
            return out
        ok = solve(ss)
        out['conv'] = ok
        if ok:
            bad, info = oracle(ss)
            out['oracle'] = bad
            out['worst'] = info['worst']
    except Exception:     # noqa
        import traceback
        out['error'] = traceback.format_exc()[-800:]
    return out


# ------------------------------------------------------------------ the same networks written as a case FILE

def to_file_spec(spec):
    """the part of a generated network a MATPOWER file can carry: system base 100 MVA, line charging only (no line
    conductance, no end shunts), loads and shunts summed per bus, generators not on the slack bus, no isolated bus"""
    import copy
    sp = copy.deepcopy(spec)
    sp['mva'] = 100.0
    nb = len(sp['buses'])
    used = {l['bus1'] for l in sp['lines'] if l['u']} | {l['bus2'] for l in sp['lines'] if l['u']}
    if len(used) != nb:
        return None
    for ln in sp['lines']:
        for f in ('g', 'b1', 'g1', 'b2', 'g2'):
            ln[f] = 0.0
        ln['Sn'], ln['Vn1'], ln['Vn2'] = 100.0, sp['buses'][ln['bus1']]['Vn'], sp['buses'][ln['bus2']]['Vn']
    sb = sp['slacks'][0]['bus']
    sp['pvs'] = [g for g in sp['pvs'] if g['bus'] != sb]
    for g in sp['pvs'] + sp['slacks']:
        g['Sn'] = 100.0
    pq, sh = {}, {}
    for q in sp['pqs']:
        if q['u']:
            a = pq.setdefault(q['bus'], [0.0, 0.0])
            a[0] += q['p0']
            a[1] += q['q0']
    for x in sp['shunts']:
        if x['u']:
            Vb = sp['buses'][x['bus']]['Vn']
            ky = 1.0     # generated values are system-base values
            a = sh.setdefault(x['bus'], [0.0, 0.0])
            a[0] += x['g'] * ky
            a[1] += x['b'] * ky
    sp['pqs'] = [{'bus': b, 'u': 1.0, 'p0': v[0], 'q0': v[1], 'Vn': sp['buses'][b]['Vn']} for b, v in sorted(pq.items())
                 if v[0] != 0 or v[1] != 0]
    sp['shunts'] = [{'bus': b, 'u': 1.0, 'g': v[0], 'b': v[1], 'Sn': 100.0, 'Vn': sp['buses'][b]['Vn']}
                    for b, v in sorted(sh.items()) if v[0] or v[1]]
    return sp


def matpower_text(sp, ratio_style):
    """MATPOWER case text of a file spec, written by the harness (MW / MVAr / degrees, as the format defines them)"""
    nb = len(sp['buses'])
    sb = sp['slacks'][0]['bus']
    pvb = {g['bus'] for g in sp['pvs']}
    pq = {q['bus']: q for q in sp['pqs']}
    sh = {x['bus']: x for x in sp['shunts']}
    L = ['function mpc = gen_case', "mpc.version = '2';", 'mpc.baseMVA = 100;', 'mpc.bus = [']
    for k, b in enumerate(sp['buses']):
        ty = 3 if k == sb else (2 if k in pvb else 1)
        q, x = pq.get(k), sh.get(k)
        L.append('\t%d\t%d\t%r\t%r\t%r\t%r\t1\t1\t0\t%r\t1\t1.1\t0.9;' % (
            k + 1, ty, (q['p0'] * 100.0) if q else 0, (q['q0'] * 100.0) if q else 0,
            (x['g'] * 100.0) if x else 0, (x['b'] * 100.0) if x else 0, b['Vn']))
    L += ['];', 'mpc.gen = [']
    for g in sp['pvs'] + sp['slacks']:
        L.append('\t%d\t%r\t0\t9900\t-9900\t%r\t100\t%d\t9900\t-9900\t0\t0\t0\t0\t0\t0\t0\t0\t0\t0\t0;' % (
            g['bus'] + 1, g['p0'] * 100.0, g['v0'], int(g['u'])))
    L += ['];', 'mpc.branch = [']
    for ln in sp['lines']:
        ratio = ln['tap']
        if ratio == 1.0 and ratio_style == 'zero':
            ratio = 0          # MATPOWER: 0 stands for the nominal ratio 1
        L.append('\t%d\t%d\t%r\t%r\t%r\t0\t0\t0\t%r\t%r\t%d\t-360\t360;' % (
            ln['bus1'] + 1, ln['bus2'] + 1, ln['r'], ln['x'], ln['b'], ratio, math.degrees(ln['phi']), int(ln['u'])))
    L += ['];', '']
    return '\n'.join(L)


def file_job(arg):
    """a generated network written as a MATPOWER file, read and solved by the real code; the balance is then
    evaluated on the data of the SPEC (a reference System built through System.add and never solved) at the voltages
    and generator outputs the file-based run reports"""
    spec, seed = arg
    import numpy as np
    import andes
    out = {'oracle': [], 'skip': None, 'info': {}}
    r = random.Random(seed)
    try:
        sp = to_file_spec(spec)
        if sp is None:
            out['skip'] = 'isolated bus'
            return out
        sp['slacks'][0]['a0'] = 0.0       # the reader takes the slack angle from the bus row (written as 0)
        style = r.choice(['one', 'zero'])
        if style == 'zero' and any(l['tap'] == 1.0 and l['phi'] != 0.0 for l in sp['lines']):
            out['info']['zero_ratio_with_shift'] = True
        d = tempfile.mkdtemp(prefix='c01m-', dir=C.WORK)
        try:
            path = os.path.join(d, 'gen_case.m')
            with open(path, 'w') as f:
                f.write(matpower_text(sp, style))
            sink = io.StringIO()
            with contextlib.redirect_stdout(sink):
                sm = andes.load(path, no_output=True, default_config=True)
                sm.Bus.config.flat_start = spec['flat']
                ok = bool(sm.PFlow.run())
        finally:
            import shutil
            shutil.rmtree(d, ignore_errors=True)
        out['conv'] = ok
        if not ok:
            return out
        ref, bidx = build(sp, BASE_VARIANT)
        pos_m = {int(i): k for k, i in enumerate(sm.Bus.idx.v)}
        for k in range(len(sp['buses'])):
            u = ref.Bus.idx2uid(bidx[k])
            ref.Bus.v.v[u] = sm.Bus.v.v[pos_m[k + 1]]
            ref.Bus.a.v[u] = sm.Bus.a.v[pos_m[k + 1]]
        if sm.PV.n != len(sp['pvs']) or sm.Slack.n != 1 or [int(b) - 1 for b in sm.PV.bus.v] != [g['bus'] for g in sp['pvs']]:
            out['oracle'].append(('file-generators-differ', 'generators read from the file are not those written: PV buses %r, written %r'
                                  % (list(sm.PV.bus.v), [g['bus'] + 1 for g in sp['pvs']])))
            return out
        ref.PV.q.v[:] = sm.PV.q.v
        ref.Slack.p.v[:] = sm.Slack.p.v
        ref.Slack.q.v[:] = sm.Slack.q.v
        bad, info = oracle(ref, tol=float(sm.PFlow.config.tol))
        out['info'].update({'worst': info['worst'], 'style': style,
                            'phase_shifters': sum(1 for l in sp['lines'] if l['phi'] != 0.0 and l['u']),
                            'unity_phase_shifters': sum(1 for l in sp['lines'] if l['phi'] != 0.0 and l['tap'] == 1.0 and l['u'])})
        out['oracle'] = [('file:' + k, 'network written as a MATPOWER file (%s): %s' % (style, w)) for k, w in bad]
    except Exception:     # noqa
        import traceback
        out['error'] = traceback.format_exc()[-800:]
    return out


def run_files(ctx, specs):
    import multiprocessing as mp
    jobs = [(sp, ctx.rng.randrange(1 << 30)) for sp in specs]
    with mp.get_context('fork').Pool(min(8, max(1, len(jobs)))) as pool:
        res = pool.map(file_job, jobs, chunksize=1)
    for (spec, seed), r in zip(jobs, res):
        case = {'spec': spec, 'seed': seed, 'stream': 'matpower-file'}
        if r.get('error'):
            ctx.oracle_fail('file-exception:' + r['error'].strip().split('\n')[-1][:60],
                            'reading / solving a generated MATPOWER file raised: ' + r['error'][-400:], case)
            continue
        if r['skip']:
            ctx.count('file-skipped:' + r['skip'])
            continue
        ctx.case(json.dumps(case, sort_keys=True), {'stream': 'matpower-file', 'info': r['info']})
        ctx.count('file-networks')
        ctx.count('file-converged' if r.get('conv') else 'file-not-converged')
        ctx.count('file-phase-shifters', r['info'].get('phase_shifters', 0))
        ctx.count('file-unity-ratio-phase-shifters', r['info'].get('unity_phase_shifters', 0))
        if 'worst' in r['info']:
            ctx.cov['max_file_mismatch'] = max(ctx.cov.get('max_file_mismatch', 0.0), r['info']['worst'])
        for key, what in r['oracle']:
            ctx.oracle_fail(key, what, case)


STOCK_QUICK = ['ieee14/ieee14.raw', 'matpower/case14.m', 'kundur/kundur_full.xlsx', 'ieee14/ieee14.json']
STOCK_THOROUGH = STOCK_QUICK + ['matpower/case118.m', 'ieee39/ieee39.xlsx', 'npcc/npcc.xlsx', 'matpower/case5.m',
                                'matpower/case300.m', 'wecc/wecc.xlsx', 'ieee14/ieee14_pvd1.xlsx', 'GBnetwork/GBnetwork.m']

# ------------------------------------------------------------------ check


def generate(ctx):
    from translator import pfloweqs
    info = pfloweqs.generate(C.LEAN)
    ctx.cov['generated_defs'] = len(info['defs'])
    ctx.cov['services_not_used_by_any_residual'] = info['unused_services']
    ctx.cov['ext_table'] = ['%s.%s->%s.%s[%s]' % t for t in info['ext_table']]
    return {'modules': ['Andes.Gen.PFlowEqs'], 'theorems': []}


def corpus_cases():
    return [json.load(open(f)) for f in sorted(glob.glob(os.path.join(CORPUS, '*.json')))]


def run_jobs(ctx, jobs, stream='assemble'):
    import multiprocessing as mp
    if not jobs:
        return []
    with mp.get_context('fork').Pool(min(8, len(jobs))) as pool:
        res = pool.map(job, jobs, chunksize=1)
    lines = [l for r in res for l in r.get('lines', [])]
    outs = ctx.driver.ask(lines)
    p = 0
    for (spec, variant, seed, extra), r in zip(jobs, res):
        case = {'spec': spec, 'variant': variant, 'seed': seed}
        if 'error' in r:
            ctx.count('impl_exception')
            ctx.oracle_fail('exception:' + r['error'].strip().split('\n')[-1][:60],
                            'building / solving a generated network raised: ' + r['error'][-400:], case)
            continue
        nb = len(spec['buses'])
        nontriv = nb >= 2 and any(q['u'] for q in spec['pqs']) and any(l['u'] for l in spec['lines'])
        ctx.case(json.dumps(case, sort_keys=True) if nontriv else None,
                 {'buses': nb, 'lines': len(spec['lines']), 'variant': variant, 'info': r.get('info')})
        ctx.count('buses:%s' % ('2-3' if nb <= 3 else '4-8' if nb <= 8 else '9-16' if nb <= 16 else '17-31'))
        ctx.count('asymmetric-shunt-network' if spec.get('asym') else 'symmetric-shunt-network')
        for k, n in r['counts'].items():
            ctx.count(k, n)
        if r.get('info', {}).get('islanded'):
            ctx.count('with-islanded-bus')
        if r.get('info'):
            ctx.cov['max_balance_mismatch_excl_known'] = max(ctx.cov.get('max_balance_mismatch_excl_known', 0.0),
                                                             0.0 if any(k == 'line-to-side-shunt' for k, _ in r['oracle']) else r['info']['worst'])
        for key, what in r['oracle']:
            ctx.oracle_fail(key, what, case)
        for ln, (kind, exp, tol) in zip(r['lines'], r['expect']):
            got = outs[p]
            p += 1
            ctx.traces += 1
            if kind == 'pu':
                ctx.count('per-unit-comparisons')
                if got != exp:
                    ctx.disagree('per-unit', case, exp[:1500], got[:1500])
            else:
                ctx.count('g-vector-comparisons')
                try:
                    gm = [C.h2f(h) for h in got.split(',')] if got != '-' else []
                except ValueError:
                    gm = None
                if gm is None or len(gm) != len(exp) or any(not (abs(a - b) <= tol) for a, b in zip(exp, gm)):
                    worst = max((abs(a - b) for a, b in zip(exp, gm)), default=float('nan')) if gm and len(gm) == len(exp) else 'shape'
                    ctx.disagree(stream, case, {'g': exp[:40], 'worst': worst}, got[:1500])
                else:
                    ctx.cov['max_g_model_diff'] = max(ctx.cov.get('max_g_model_diff', 0.0), max((abs(a - b) for a, b in zip(exp, gm)), default=0.0))
    return res


def run_stock(ctx, paths):
    import multiprocessing as mp
    with mp.get_context('fork').Pool(min(6, len(paths))) as pool:
        res = pool.map(stock_job, paths, chunksize=1)
    for r in res:
        fmt = r['path'].rsplit('.', 1)[-1]
        ctx.case('stock:' + r['path'], None)
        if r.get('error'):
            ctx.count('stock-load-error')
            ctx.notes.append('stock case %s: %s' % (r['path'], r['error'].strip().split('\n')[-1][:120]))
            continue
        if r['skip']:
            ctx.count('stock-skipped')
            continue
        ctx.count('stock-format:' + fmt)
        if not r.get('conv'):
            ctx.oracle_fail('stock-case-does-not-converge', 'stock case %s does not converge from its stored start' % r['path'], {'stock': r['path']})
        for key, what in r['oracle']:
            ctx.oracle_fail(key, '[%s] %s' % (r['path'], what), {'stock': r['path']})
        ctx.cov['max_stock_mismatch'] = max(ctx.cov.get('max_stock_mismatch', 0.0), r.get('worst', 0.0))


def run(ctx):
    import andes
    andes.config_logger(stream_level=50)
    rng = ctx.rng
    jobs = []
    for c in corpus_cases():
        jobs.append((c['spec'], c.get('variant'), c.get('seed', 1), False))
    ctx.count('corpus', len(jobs))
    n = ctx.n(28, 280)
    nmax = ctx.n(14, 30)
    for k in range(n):
        spec = gen_spec(rng, nmax if k % 7 else 30, asym=True if k == 1 else (False if k == 0 else None))
        jobs.append((spec, gen_variant(rng), rng.randrange(1 << 30), ctx.thorough or k % 6 == 0))
    res = run_jobs(ctx, jobs)
    fspecs = []
    while len(fspecs) < ctx.n(16, 120):
        sp = gen_spec(rng, 10, asym=False)
        if len(fspecs) % 2 == 0:
            # a pure phase shifter at nominal ratio on an online branch
            on = [l for l in sp['lines'] if l['u']]
            ln = rng.choice(on)
            ln['tap'], ln['phi'] = 1.0, round(rng.choice([-1, 1]) * rng.uniform(0.03, 0.12), 4)
        fspecs.append(sp)
    run_files(ctx, fspecs)
    conv = sum(1 for r in res if r.get('conv'))
    ctx.cov['flat_start_convergence'] = '%d of %d generated networks converged' % (conv, len(res))
    if len(res) >= 10 and conv < 0.8 * len(res):
        ctx.oracle_fail('generated-networks-do-not-converge', 'only %d of %d well-posed generated networks converge' % (conv, len(res)),
                        {'note': 'rate'})
    run_stock(ctx, STOCK_THOROUGH if ctx.thorough else STOCK_QUICK)
    ctx.cov['source_hashes'] = {
        'PFlow.nr_step': C.hash_source(C.REPO + '/andes/routines/pflow.py', 'PFlow.nr_step'),
        'PFlow.fg_update': C.hash_source(C.REPO + '/andes/routines/pflow.py', 'PFlow.fg_update'),
        'System._e_to_dae': C.hash_source(C.REPO + '/andes/system.py', 'System._e_to_dae'),
        'System.calc_pu_coeff': C.hash_source(C.REPO + '/andes/system.py', 'System.calc_pu_coeff'),
        'System.g_islands': C.hash_source(C.REPO + '/andes/system.py', 'System.g_islands'),
    }


def search(ctx):
    """something broke: more networks, all variants, through the oracle only"""
    rng = random.Random(ctx.seed * 7919 + 101)
    jobs = [(gen_spec(rng, 30), gen_variant(rng), rng.randrange(1 << 30), True) for _ in range(ctx.n(60, 300))]
    run_jobs(ctx, jobs, stream='assemble-search')


def replay(ctx, rep):
    import andes
    andes.config_logger(stream_level=50)
    case = rep.get('case') or {}
    if 'stock' in case:
        r = stock_job(case['stock'])
        print(r)
        return not r.get('oracle') and not r.get('error') and (r.get('skip') or r.get('conv'))
    if 'spec' not in case:
        print('replay: nothing to re-run for', json.dumps(case)[:200])
        return True
    r = job((case['spec'], case.get('variant'), case.get('seed', 1), True))
    if 'error' in r:
        print(r['error'])
        return False
    for key, what in r['oracle']:
        print('  ', key, ':', what)
    print('   converged:', r.get('conv'), r.get('info'))
    return not r['oracle']
