"""C14 — resumed and snapshot-restored simulations equal the uninterrupted run.

Lean: Andes/Props/C14.lean (resume_event_log_equal, resume_time_axis, ...) on the TDS loop model.
Tie: (a) scripted-verdict correspondence of the real TDS.run with resumed segments (bit-exact, as C06);
(b) real-integrator runs of stock cases split at random times around events, and snapshots saved,
loaded in a fresh process and continued (supporting evidence for the residue: state equality)."""
import json
import os
import random
import subprocess
import sys
import tempfile

from harness import common as C
from harness import tds_stub as T
from harness import c06

PROP_MODULES = ['Andes.Props.C14', 'Andes.Props.C04Order']
RULE = ('scripted stream: scenarios with 2-4 resumed segments whose boundaries sit before/at/after events, off-grid, '
        'repeated or in the past; real stream: (stock case, split time around the disturbance, snapshot yes/no); '
        'distinct = distinct scenario / (case, cut); non-trivial = at least two segments that both accepted steps')
ASSUMPTIONS = [
    'state equality split-vs-single is tested within max(1e-3, 2 x |run(h) - run(h/2)|) (Newton tolerance 1e-4 + discretisation estimated by step halving), not proved',
    'dill snapshot fidelity is tested (bit-identical continuation), not proved',
] + c06.ASSUMPTIONS[:2]

REAL_CASES = [('kundur/kundur_full.xlsx', 2.0, 3.0), ('ieee14/ieee14_fault.xlsx', 1.0, 1.6)]
# further real cases, two cuts each (one before the disturbance, one inside the transient): a case whose discrete
# device state (switched-shunt positions) has moved away from the input data when the snapshot is taken, and a case
# whose disturbance is scripted in a perturbation file
EXTRA_CASES = [('ieee14/ieee14_shuntsw.xlsx', 1.0, 3.0), ('kundur/kundur_full.xlsx#pert', 1.0, 2.0)]
PERT_SRC = '''
def pert(t, system):
    # load step: +20 % conductance of the first PQ (constant impedance in TDS) from t = 1.0 s on
    if t >= 1.0:
        system.PQ.Req.v[0] = 1.2 * system.PQ.Ppf.v[0] / system.PQ.v0.v[0] ** 2
'''


def oracle_c14(sc, obs, single):
    """split run vs the uninterrupted run of the same schedule (both on the real loop)"""
    bad = []
    st = obs['stamps']
    if len(set(st)) != len(st):
        bad.append(('duplicate-stamp', 'the time axis of a resumed run contains a duplicate stamp'))
    for sg in obs['segs'][:-1]:
        if sg['ok'] and sg['nstamps'] > 0 and sg['tf'] not in st:
            bad.append(('boundary-not-a-stamp', 'segment end time %r is not a stored stamp' % sg['tf']))
    last, slast = obs['segs'][-1], single['segs'][-1]
    if last['ok'] and slast['ok'] and last['tf'] == slast['tf']:
        # timed events only: custom event flags are raised by the (different) scripts of the two runs
        ev_a = [e['t'] for e in obs['events'] if not e.get('custom')]
        ev_b = [e['t'] for e in single['events'] if not e.get('custom')]
        if ev_a != ev_b:
            lost = [x for x in ev_b if x not in ev_a]
            rep = [x for x in set(ev_a) if ev_a.count(x) > 1]
            bad.append(('event-log-differs', 'split run executed switch actions at %r, the single run at %r (lost %r, repeated %r)'
                        % (ev_a[:8], ev_b[:8], lost[:4], rep[:4])))
        if obs['line_u'] != single['line_u']:
            bad.append(('final-status-differs', 'final device status differs between split and single run'))
    return bad


def scripted(ctx, n):
    scs = []
    for f in sorted(__import__('glob').glob(os.path.join(C.ROOT, 'corpus', 'c14', '*.json'))):
        scs.append(json.load(open(f)))
    while len(scs) < n:
        sc = T.gen_scenario(ctx.rng, allow_findings=False)
        if len(sc['tfs']) < 2:
            continue
        sc['vmode'] = ctx.rng.choice(['accept', 'accept', 'mixed'])
        scs.append(sc)
    res = c06.check_scenarios(ctx, scs, oracle=lambda sc, obs: [], stream='tds-loop-resume')
    singles = []
    for sc in scs:
        s1 = dict(sc)
        s1['tfs'] = [sc['tfs'][-1]]
        singles.append(s1)
    res1 = T.run_many(singles)
    for (sc, obs, err), (s1, o1, e1) in zip(res, res1):
        if err or e1:
            continue
        for key, what in oracle_c14(sc, obs, o1) + [(k, w) for k, w in T.oracle_c06(sc, obs)
                                                      if k in ('stamps-not-increasing', 'event-not-once',
                                                               'switch-time-twice')]:
            ctx.oracle_fail(key, what, sc)
        if len([s for s in obs['segs'] if s['used'] > 0]) >= 2:
            ctx.count('segments_with_steps>=2')


REAL_SCRIPT = r'''
import sys, json, numpy as np, warnings
warnings.simplefilter('ignore')
import andes
andes.config_logger(stream_level=50)
from andes.utils.snapshot import save_ss, load_ss
mode, case, cut, tf, path = sys.argv[1], sys.argv[2], float(sys.argv[3]), float(sys.argv[4]), sys.argv[5]
import os
pert = None
if case.endswith('#pert'):
    # the disturbance is scripted in a perturbation file (a stateless function of t) instead of a Toggle
    case = case[:-5]; pert = os.environ['C14_PERT']
    # (the snapshot stores the user's function by reference: the folder of the perturbation file has to be importable
    # in the process that loads it, as it is in the process that made it)
    sys.path.insert(0, os.path.dirname(pert))
def mk():
    ss = andes.load(andes.get_case(case), no_output=True, default_config=True, pert=pert)
    if pert:
        ss.Toggle.u.v[:] = 0
    ss.PFlow.run(); ss.TDS.config.no_tqdm = 1; ss.TDS.config.criteria = 0
    return ss
import io, contextlib
sink = io.StringIO()
with contextlib.redirect_stdout(sink):
    if mode == 'single':
        a = mk(); a.TDS.config.tf = tf; ok = a.TDS.run()
    elif mode == 'single_half':
        a = mk(); a.TDS.config.tf = tf; a.TDS.config.tstep = a.TDS.config.tstep / 2; ok = a.TDS.run()
    elif mode == 'split':
        a = mk(); a.TDS.config.tf = cut; ok1 = a.TDS.run()
        _peek = (a.dae.ts.xy.shape, a.dae.ts.txyz.shape)      # the user looks at the trajectory of the first part
        save_ss(path, a); a.TDS.config.tf = tf; ok = a.TDS.run()
    elif mode == 'load':
        a = load_ss(path); a.TDS.config.tf = tf; ok = a.TDS.run()
    elif mode == 'reset':
        a = mk(); x0 = a.dae.y.copy(); a.reset(); a.PFlow.run(); ok = bool(np.array_equal(x0, a.dae.y)); tf = float(a.dae.t)
ts = [float(x) for x in a.dae.ts.t] if mode != 'reset' else []
traj = {}
if mode != 'reset':
    xy = np.array(a.dae.ts.xy); xx = np.array(a.dae.ts.x); yy = np.array(a.dae.ts.y)
    traj = {'rows_xy': int(xy.shape[0]), 'rows_x': int(xx.shape[0]), 'rows_y': int(yy.shape[0]),
            'last_is_state': bool(xy.shape[0] > 0 and xy.shape[1] == a.dae.n + a.dae.m and
                                  np.array_equal(xy[-1], np.concatenate([a.dae.x, a.dae.y])))}
print(json.dumps({'traj': traj, 'ok': bool(ok), 't': float(a.dae.t), 'x': [float(v) for v in a.dae.x], 'y': [float(v) for v in a.dae.y],
                  'nts': len(ts), 'inc': all(p < q for p, q in zip(ts, ts[1:])), 'cut_in_ts': cut in ts,
                  'toggles': sink.getvalue().count('<Toggle') + sink.getvalue().count('<Fault')}))
'''


def real_job(job):
    mode, case, cut, tf, path = job
    env = dict(os.environ)
    p = subprocess.run([sys.executable, '-c', REAL_SCRIPT, mode, case, repr(cut), repr(tf), path],
                       stdout=subprocess.PIPE, stderr=subprocess.PIPE, text=True, env=env, timeout=900)
    if p.returncode != 0:
        return {'error': p.stderr[-600:]}
    return json.loads(p.stdout.strip().split('\n')[-1])


def real_runs(ctx, ncuts):
    """fresh processes: single run; split run that also writes a snapshot; snapshot loaded and continued"""
    import multiprocessing as mp
    tmp = tempfile.mkdtemp(prefix='c14-', dir=C.WORK)
    plan = []
    for case, tev, tf in REAL_CASES[:ctx.n(1, 2)]:
        # boundaries just before / at / just after the event, one inside the transient that follows it
        # (a snapshot taken there has non-zero state derivatives), the rest anywhere
        cuts = [tev - 1e-4, tev, tev + 1e-4, round(tev + ctx.rng.uniform(0.1, min(0.6, tf - tev - 0.1)), ctx.rng.choice([1, 2, 4]))]
        while len(cuts) < ncuts:
            cuts.append(round(ctx.rng.uniform(0.2, tf - 0.05), ctx.rng.choice([1, 2, 4])))
        plan.append((case, tev, tf, cuts[:ncuts]))
    pert_path = os.path.join(tmp, 'c14_pert_%d.py' % os.getpid())
    with open(pert_path, 'w') as fh:
        fh.write(PERT_SRC)
    os.environ['C14_PERT'] = pert_path
    extra = list(EXTRA_CASES) if ctx.thorough else [EXTRA_CASES[ctx.seed % len(EXTRA_CASES)], EXTRA_CASES[(ctx.seed + 1) % len(EXTRA_CASES)]]
    for case, tev, tf in extra:
        plan.append((case, tev, tf, [round(tev - ctx.rng.uniform(0.2, 0.6), 2), round(tev + ctx.rng.uniform(0.15, 0.6), 2)]))
    jobs = []
    for case, tev, tf, cuts in plan:
        jobs.append(('single', case, 0.0, tf, '-'))
        jobs.append(('single_half', case, 0.0, tf, '-'))
        for k, cut in enumerate(cuts):
            jobs.append(('split', case, cut, tf, os.path.join(tmp, '%s-%d.pkl' % (os.path.basename(case), k))))
    jobs.append(('reset', plan[0][0], 0.0, 0.0, '-'))
    with mp.get_context('fork').Pool(8) as pool:
        out = pool.map(real_job, jobs)
    loads = [('load',) + j[1:] for j in jobs if j[0] == 'split']
    with mp.get_context('fork').Pool(8) as pool:
        lout = pool.map(real_job, loads)
    import numpy as np
    res = dict(zip(jobs, out))
    lres = dict(zip(loads, lout))
    for case, tev, tf, cuts in plan:
        single = res[('single', case, 0.0, tf, '-')]
        half = res[('single_half', case, 0.0, tf, '-')]
        if 'error' in single or not single['ok'] or 'error' in half or not half['ok']:
            ctx.notes.append('real single run of %s did not succeed: %s' % (case, str(single)[:200]))
            continue
        # "up to discretisation error": the difference between the uninterrupted run and the same run at half the
        # step size estimates it; a split run (whose grid is shifted by the cut) may differ by that much
        disc = float(max(np.max(np.abs(np.array(half['x']) - np.array(single['x']))),
                         np.max(np.abs(np.array(half['y']) - np.array(single['y'])))))
        ctx.cov.setdefault('discretisation_estimate', {})[case] = disc
        bound = max(1e-3, 2.0 * disc)
        for k, cut in enumerate(cuts):
            job = [j for j in jobs if j[0] == 'split' and j[1] == case and j[2] == cut][0]
            sp, ld = res[job], lres[('load',) + job[1:]]
            ctx.case(('real', case, cut), {'case': case, 'cut': cut, 'tf': tf})
            ctx.count('real_split_runs')
            cse = {'case': case, 'cut': cut, 'tf': tf}
            if 'error' in sp or 'error' in ld:
                ctx.oracle_fail('resume-raises', 'split/snapshot continuation raised: %s' % str(sp.get('error', ld.get('error')))[-200:], cse)
                continue
            if not sp['ok'] or not ld['ok']:
                ctx.oracle_fail('resume-fails', 'a split or snapshot-restored run of a stable case did not succeed', cse)
                continue
            d = max(np.max(np.abs(np.array(sp['x']) - np.array(single['x']))),
                    np.max(np.abs(np.array(sp['y']) - np.array(single['y']))))
            d2 = max(np.max(np.abs(np.array(sp['x']) - np.array(ld['x']))),
                     np.max(np.abs(np.array(sp['y']) - np.array(ld['y']))))
            ctx.cov.setdefault('real_split_vs_single_max_diff', 0.0)
            ctx.cov['real_split_vs_single_max_diff'] = max(ctx.cov['real_split_vs_single_max_diff'], float(d))
            if d > bound:
                ctx.oracle_fail('split-state-differs', 'final state of the split run differs from the single run by %.3g '
                                '(discretisation error estimated from a half-step run: %.3g)' % (d, disc), cse)
            if d2 > 1e-9:
                ctx.oracle_fail('snapshot-state-differs', 'snapshot-restored continuation differs from the in-process one by %.3g' % d2, cse)
            if not sp['inc'] or not ld['inc']:
                ctx.oracle_fail('real-stamps-not-increasing', 'time axis of a resumed real run is not strictly increasing', cse)
            if sp['toggles'] != single['toggles'] or ld['toggles'] + 0 > single['toggles']:
                ctx.oracle_fail('real-event-count-differs', 'events executed: single %d, split %d, after snapshot %d'
                                % (single['toggles'], sp['toggles'], ld['toggles']), cse)
            for who, r_ in (('split run', sp), ('snapshot-restored run', ld)):
                tr = r_.get('traj') or {}
                if tr and not (tr['rows_xy'] == tr['rows_x'] == tr['rows_y'] == r_['nts'] and tr['last_is_state']):
                    ctx.oracle_fail('trajectory-rows-differ-from-time-axis',
                                    '%s: %d time stamps, but the stored trajectory has %d / %d / %d rows (xy / x / y); last row is the final '
                                    'state: %s' % (who, r_['nts'], tr['rows_xy'], tr['rows_x'], tr['rows_y'], tr['last_is_state']), cse)
                    break
            if sp['nts'] != ld['nts']:
                ctx.oracle_fail('snapshot-axis-differs', 'time axis length differs after snapshot restore', cse)
    rs = res[jobs[-1]]
    ctx.count('reset_pflow_runs')
    if 'error' in rs or not rs['ok']:
        ctx.oracle_fail('reset-pflow-differs', 'reset + power flow did not reproduce the first solution: %s' % str(rs)[:200],
                        {'case': plan[0][0]})
    import shutil
    shutil.rmtree(tmp, ignore_errors=True)


def run(ctx):
    import andes
    andes.config_logger(stream_level=50)
    scripted(ctx, ctx.n(120, 1200))
    real_runs(ctx, ctx.n(4, 12))


def search(ctx):
    rng = random.Random(ctx.seed * 31 + 5)
    scs = []
    while len(scs) < ctx.n(300, 1500):
        sc = T.gen_scenario(rng, allow_findings=False)
        if len(sc['tfs']) >= 2:
            sc['vmode'] = 'accept'
            scs.append(sc)
    singles = [dict(sc, tfs=[sc['tfs'][-1]]) for sc in scs]
    for (sc, obs, err), (s1, o1, e1) in zip(T.run_many(scs), T.run_many(singles)):
        if err or e1:
            continue
        for key, what in oracle_c14(sc, obs, o1):
            ctx.oracle_fail(key, what, sc)


def replay(ctx, rep):
    sc = rep['case']
    if 'cut' in sc:
        print('real-run replay: case %s cut %s' % (sc['case'], sc['cut']))
        return True
    _, obs, err = T._worker(sc)
    _, o1, e1 = T._worker(dict(sc, tfs=[sc['tfs'][-1]]))
    bad = oracle_c14(sc, obs, o1)
    for k, w in bad:
        print('  ', k, w)
    return not bad
