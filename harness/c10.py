"""C10 — variable addressing is a bijection and external links follow device indices.

Lean: Andes/Props/C10.lean (model Andes/Model/Address.lean).
Tie: random systems are built through the REAL andes.System (models from the real model list with their real
variables and external links, random device counts / insertion orders / index styles / collate flags, models
with zero devices), addressed by the real setup() and by the addressing statements of TDS.init(); every `.a`,
every RHS address, all slot names, Output sub-indices and sampled Model.get / Group.get calls are compared
exactly with the Lean model run on the structure of the same system.
Oracle (independent of the model): every slot of dae.x / dae.y is owned by exactly one (model, variable,
device), every internal variable of every addressed device owns one, the slot's name is the owner's, the second
phase keeps old addresses and fills exactly [n_old, n_new), every ExtVar / ExtParam entry equals the source of
the device named by its index field (found by scanning idx lists), values read through model / group / dae agree."""
import glob
import json
import os
import random

from harness import common as C
from harness import addr_real as R

PROP_MODULES = ['Andes.Props.C10']
RULE = ('case = (multiset of real models with device counts incl. 0, per-group index style auto/int/string/'
        'model-named/mixed, random insertion order, random collate flags, Output rows, sampled get calls); '
        'distinct = distinct generated case; non-trivial = at least 2 addressed models, at least one external '
        'link resolved and dynamic models added in the second phase (n or m grows)')
ASSUMPTIONS = [
    'the registry (System.add / get_next_idx / uid dict) is taken as input: uid = position in the idx list (C19 covers it); '
    'the correspondence checks the consequence on every link',
    'theorems are about the x / y address arrays, names and links; numpy view semantics (v_inplace slices) are exercised '
    'by the value oracle only',
    'generator stays inside compatible model combinations; an ExtVar whose target device has no such variable '
    '(e.g. REECA1 on a REGCV1) is counted as incompatible input, not as a violation',
    'TypeError / NotImplementedError branches of link_external (kind mismatch, allow_none on a model) are outside the model',
]
CORPUS = os.path.join(C.ROOT, 'corpus', 'c10')
PROCS = 12


def corpus_cases():
    out = []
    for f in sorted(glob.glob(os.path.join(CORPUS, '*.json'))):
        d = json.load(open(f))
        out.append(d['case'] if 'case' in d and 'adds' not in d else d)
    return out


def check_cases(ctx, cases, compare=True):
    res = R.run_many(cases, procs=PROCS)
    lines, idx = [], []
    for i, (case, r, err) in enumerate(res):
        if err is not None:
            ctx.count('impl_exception')
            last = err.strip().split('\n')[-1]
            ctx.oracle_fail('exception:' + last.split(':')[0][:40], 'the real addressing code raised: ' + last[:300], case)
            ctx.case(None)
            continue
        for key, what in r['oracle']:
            ctx.oracle_fail(key, what, case)
            ctx.count('oracle:' + key)
        if r['line'] is None:
            ctx.count('setup_refused' if not r['oracle'] else 'setup_raised')
            ctx.case(None)
            continue
        lines.append(r['line'])
        idx.append(i)
    outs = ctx.driver.ask(lines) if compare else [None] * len(lines)
    for k, i in enumerate(idx):
        case, r, _ = res[i]
        st = r['stats']
        ctx.traces += 1
        nontrivial = st['models'] >= 2 and (st['group_links'] + st['model_links']) > 0 and \
            (st['n'] > st['nA'] or st['m'] > st['mA'])
        ctx.case(json.dumps(case, sort_keys=True) if nontrivial else None,
                 {'stats': st, 'adds': case['adds'][:6], 'collate': case['collate'], 'outputs': case['outputs']})
        ctx.count('size:' + case.get('size', '?'))
        for key in ('models', 'devices', 'n', 'm', 'ext', 'group_links', 'model_links', 'collated', 'idx_int',
                    'idx_str', 'gets', 'incompatible_links', 'zero_models_with_vars'):
            ctx.count('sum_' + key, st[key])
        ctx.count('second_phase_grows' if (st['n'] > st['nA'] or st['m'] > st['mA']) else 'second_phase_empty')
        ctx.count('has_collated' if st['collated'] else 'no_collated')
        ctx.count('idx_mixed_types' if st['idx_int'] and st['idx_str'] else
                  ('idx_int_only' if st['idx_int'] else 'idx_str_only'))
        if compare and outs[k] != r['impl']:
            a, b = outs[k].split(' '), r['impl'].split(' ')
            where = next((j for j, (x, y) in enumerate(zip(a, b)) if x != y), min(len(a), len(b)))
            ctx.disagree('set_address', case, 'token %d: %s' % (where, ' '.join(b[max(0, where - 2):where + 3])[:600]),
                         'token %d: %s' % (where, ' '.join(a[max(0, where - 2):where + 3])[:600]))
    return res


def check_request_address(ctx, n):
    """DAE.request_address alone against `requestAddress` (counts incl. 0, both layouts)"""
    from andes.variables.dae import DAE
    import andes
    ss = andes.System(no_output=True, default_config=True, no_undill=True)
    lines, exp = [], []
    for _ in range(n):
        b = ctx.rng.choice([0, 0, 1, 7, 100, 12345])
        nd = ctx.rng.choice([0, 1, 2, 3, 5, 17])
        nv = ctx.rng.choice([0, 1, 2, 3, 4, 9])
        col = ctx.rng.random() < 0.5
        d = DAE(ss)
        d.n = b
        got = d.request_address('x', ndevice=nd, nvar=nv, collate=col)
        lines.append('req %d %d %d %d' % (b, nd, nv, 1 if col else 0))
        exp.append(';'.join(R.nats(a) for a in got) + ' %d' % d.n)
        ctx.count('request_address:' + ('collate' if col else 'contiguous'))
        flat = sorted(int(x) for a in got for x in a)
        if flat != list(range(b, b + nd * nv)) or any(len(a) != nd for a in got) or len(got) != nv:
            ctx.oracle_fail('request-address-not-a-block', 'request_address(%d,%d,%d,%s) does not partition its block'
                            % (b, nd, nv, col), [b, nd, nv, col])
    outs = ctx.driver.ask(lines)
    for ln, e, o in zip(lines, exp, outs):
        ctx.evaluations += 1
        if e != o:
            ctx.disagree('request_address', ln, e, o)


def _rand_idx(rng):
    r = rng.random()
    if r < 0.4:
        return rng.randrange(0, 12)
    if r < 0.6:
        return str(rng.randrange(0, 12))            # a digit string
    return rng.choice(['GENROU_1', 'B2', 'x.y', 'G_%d' % rng.randrange(9), 'dev'])


def check_borrowed_idx(ctx, n):
    """Group.get on an idx-valued parameter (how ExtParam borrows `syn` of an exciter through the group) and
    DataSelect on index fields, against `groupGetIdxVals` / `dataSelect`.  The oracle: the borrowed list must BE
    the list of index fields of the named devices (same values, same types)."""
    import numpy as np
    from andes.core.service import DataSelect
    ss = R.new_system()
    rng = ctx.rng
    vals = {}
    for k in range(40):
        v = _rand_idx(rng)
        idx = ss.add('EXDC2', {'syn': v})
        vals[idx] = v
    keys = list(vals)
    lines, exp = [], []
    for _ in range(n):
        pick = [rng.choice(keys) for _ in range(rng.choice([1, 2, 2, 3, 4]))]
        want = [vals[i] for i in pick]
        try:
            got = ss.Exciter.get('syn', pick, 'v')
            got = [g.item() if isinstance(g, np.generic) else g for g in got]
            out = ','.join(R.enc_idx(g) for g in got)
            same = len(got) == len(want) and all(type(a) is type(b) and a == b or
                                                 (not isinstance(a, str) and not isinstance(b, str) and a == b)
                                                 for a, b in zip(got, want))
            if not same:
                ctx.oracle_fail('group-get-coerces-numeric-string',
                                'Group.get(%r) returned %r for the index fields %r: a digit-string index became a number '
                                '(container typed by the first value) and now names another device' % ('syn', got, want),
                                {'borrow': want})
        except ValueError as e:
            out = 'E'
            ctx.oracle_fail('group-get-mixed-idx-types', 'Group.get raised %r for the index fields %r '
                            '(container typed by the first, numeric, value)' % (e, want), {'borrow': want})
        lines.append('gval ' + ','.join(R.enc_idx(v) for v in want))
        exp.append(out)
        ctx.count('borrow:' + ('error' if out == 'E' else 'ok'))
    for _ in range(n):
        k = rng.choice([1, 2, 3])
        opt = [None if rng.random() < 0.5 else _rand_idx(rng) for _ in range(k)]
        fb = [_rand_idx(rng) for _ in range(k)]

        class P:
            pass
        o, f = P(), P()
        o.v, f.v = opt, fb
        try:
            got = DataSelect(o, f).v
            out = ','.join(R.enc_idx(g) for g in got)
            if any(g != (a if a is not None else b) for g, a, b in zip(got, opt, fb)):
                ctx.oracle_fail('dataselect-wrong', 'DataSelect%r -> %r' % ((opt, fb), got), {'dataselect': [opt, fb]})
        except TypeError as e:
            out = 'E'
            ctx.oracle_fail('dataselect-string-idx', 'DataSelect raised %s for the optional index fields %r: np.isnan '
                            'is applied to a string index' % (repr(e)[:60], opt), {'dataselect': [opt, fb]})
        lines.append('dsel %s %s' % (','.join(R.enc_idx(v) for v in opt), ','.join(R.enc_idx(v) for v in fb)))
        exp.append(out)
        ctx.count('dataselect:' + ('error' if out == 'E' else 'ok'))
    outs = ctx.driver.ask(lines)
    for ln, e, o in zip(lines, exp, outs):
        ctx.evaluations += 1
        if e != o:
            ctx.disagree('borrowed-idx', ln, e, o)


def run(ctx):
    import andes
    andes.config_logger(stream_level=50)
    cases = corpus_cases()
    ctx.count('corpus', len(cases))
    n = ctx.n(60, 600)
    cases += [R.finder_case(ctx.rng) for _ in range(ctx.n(10, 60))]
    cases += [R.select_case(ctx.rng) for _ in range(ctx.n(8, 40))]
    cases += [R.gen_case(ctx.rng) for _ in range(n)]
    check_cases(ctx, cases)
    check_request_address(ctx, ctx.n(200, 2000))
    check_borrowed_idx(ctx, ctx.n(150, 1500))
    ctx.cov['source_hashes'] = {
        'System.set_address': C.hash_source(C.REPO + '/andes/system.py', 'System.set_address'),
        'System.set_dae_names': C.hash_source(C.REPO + '/andes/system.py', 'System.set_dae_names'),
        '_set_xy_name': C.hash_source(C.REPO + '/andes/system.py', '_set_xy_name'),
        '_append_model_name': C.hash_source(C.REPO + '/andes/system.py', '_append_model_name'),
        'System.set_output_subidx': C.hash_source(C.REPO + '/andes/system.py', 'System.set_output_subidx'),
        'DAE.request_address': C.hash_source(C.REPO + '/andes/variables/dae.py', 'DAE.request_address'),
        'ExtVar.link_external': C.hash_source(C.REPO + '/andes/core/var.py', 'ExtVar.link_external'),
        'ExtParam.link_external': C.hash_source(C.REPO + '/andes/core/param.py', 'ExtParam.link_external'),
        'Group.get': C.hash_source(C.REPO + '/andes/models/group.py', 'GroupBase.get'),
        'Model.get': C.hash_source(C.REPO + '/andes/core/model/model.py', 'Model.get'),
        'Model.idx2uid': C.hash_source(C.REPO + '/andes/core/model/model.py', 'Model.idx2uid'),
    }


def search(ctx):
    """something broke: look harder for an input on which the property fails on the real code"""
    rng = random.Random(ctx.seed * 7919 + 23)
    cases = [d['case'] for d in ctx.disagreements[:30] if isinstance(d['case'], dict) and 'adds' in d['case']]
    cases += [R.finder_case(rng) for _ in range(40)]
    cases += [R.select_case(rng) for _ in range(30)]
    cases += [R.gen_case(rng) for _ in range(ctx.n(150, 1000))]
    for case, r, err in R.run_many(cases, procs=PROCS):
        if err is not None:
            last = err.strip().split('\n')[-1]
            ctx.oracle_fail('exception:' + last.split(':')[0][:40], 'the real addressing code raised: ' + last[:300], case)
            continue
        for key, what in r['oracle']:
            ctx.oracle_fail(key, what, case)


def replay(ctx, rep):
    import andes
    andes.config_logger(stream_level=50)
    case = rep['case']
    if isinstance(case, dict) and ('borrow' in case or 'dataselect' in case):
        return replay_small(case)
    if isinstance(case, list):      # a request_address tuple
        from andes.variables.dae import DAE
        ss = andes.System(no_output=True, default_config=True, no_undill=True)
        b, nd, nv, col = case
        d = DAE(ss)
        d.n = b
        got = d.request_address('x', ndevice=nd, nvar=nv, collate=col)
        return sorted(int(x) for a in got for x in a) == list(range(b, b + nd * nv))
    _, r, err = R.worker(case)
    if err:
        print(err)
        return False
    for key, what in r['oracle']:
        print('  ', key, what)
    return not r['oracle']


def replay_small(case):
    import numpy as np
    from andes.core.service import DataSelect
    if 'borrow' in case:
        ss = R.new_system()
        want = case['borrow']
        pick = [ss.add('EXDC2', {'syn': v}) for v in want]
        try:
            got = ss.Exciter.get('syn', pick, 'v')
        except ValueError as e:
            print('  Group.get raised', repr(e))
            return False
        got = [g.item() if isinstance(g, np.generic) else g for g in got]
        print('  index fields', want, '-> borrowed', got)
        return all(type(a) is type(b) and a == b for a, b in zip(got, want))
    opt, fb = case['dataselect']

    class P:
        pass
    o, f = P(), P()
    o.v, f.v = opt, fb
    try:
        got = DataSelect(o, f).v
    except TypeError as e:
        print('  DataSelect raised', repr(e)[:100])
        return False
    return all(g == (a if a is not None else b) for g, a, b in zip(got, opt, fb))
