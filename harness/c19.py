"""C19 — cross-references between devices are resolved completely or rejected.

Lean: Andes/Props/C19.lean (model Andes/Model/Registry.lean).
Tie: random add / lookup / reference scenarios are run through a REAL `andes.System()` (System.add on
real models of real groups: Collection(Area), ACTopology(Bus), StaticGen(PV, Slack), StaticLoad(PQ),
SynGen(GENCLS, GENROU), FreqMeasurement(BusFreq, BusROCOF), DynLoad(FLoad), Calculation(ACEc),
TurbineGov(TGOV1)), then `collect_ref()` and `setup()`; assigned idx, uid maps, find_idx answers,
BackRef lists, DeviceFinder results, link results and variable addresses are compared exactly with the
Lean model run by the driver on the same scenario.  The property oracle recomputes every expected answer
from the harness' own record of what was added (no model involved)."""
import glob
import json
import math
import os
import random
import traceback

from harness import common as C

PROP_MODULES = ['Andes.Props.C19']
RULE = ('scenario = one System: 0-3 Areas, 1-6 Buses (area refs incl. None/dangling), 0-7 PV/Slack, 0-3 PQ, '
        '0-5 GENCLS/GENROU referrers, 0-3 explicit BusFreq/BusROCOF, 0-4 FLoad or ACEc with optional busf '
        '(valid / invalid / None; DeviceFinder on a model or on the group), idx requests: None, NaN, small ints, '
        'int-valued floats, strings, duplicates, strings squatting future auto names; 8-16 lookups per group '
        '(idx2uid, idx2model, Model/Group.find_idx with 1-3 keys, all flag combinations, missing values, '
        'non-None default); distinct = distinct scenario; non-trivial = at least 3 devices in one group and '
        '(an idx collision or an auto idx or a reference)')
ASSUMPTIONS = [
    'idx values are integers or strings (Python 1 == 1.0 == np.int64(1) canonicalised to one number by the harness); '
    'non-integer floats, bools and other hashables are not generated',
    'an exception inside System.add (missing mandatory / duplicate unique parameter) is treated as the end of the data '
    'set (the loaders abort); the partially appended parameter lists left behind are reported as a count only',
    'group find_idx theorems with allow_all are _partial: they assume at most one model of the group matches '
    '(Lean counterexample group_find_all_omits_other_models)',
    'ExtVar on a group with allow_none maps a None idx to address 0 by design (optional reference, e.g. IEEEG1.syn2=None '
    'gives tm2.a=0, the equation is masked by zsyn2); it is modelled (extAddr) and characterised by theorems '
    '(ext_addr_resolved_or_rejected, none_idx_gets_address_zero) and was probed by hand, it is not part of the random '
    'correspondence and is not treated as a violation of the clause about REQUIRED references',
]
CORPUS = os.path.join(C.ROOT, 'corpus', 'c19')

GROUPS = {
    'Collection': (['Area'], ['name']),
    'ACTopology': (['Bus'], ['name', 'area', 'Vn']),
    'StaticGen': (['PV', 'Slack'], ['name', 'bus', 'Vn']),
    'FreqMeasurement': (['BusFreq', 'BusROCOF'], ['name', 'bus']),
}


# ------------------------------------------------------------------ values

def dec(v):
    """scenario value -> python value"""
    if isinstance(v, dict):
        if 'nan' in v:
            return float('nan')
        return float(v['f'])
    return v


def canon(v):
    """python value -> driver token"""
    import numpy as np
    if v is None:
        return '-'
    if isinstance(v, (bool, np.bool_)):
        return 'b%d' % int(v)
    if isinstance(v, (int, np.integer)):
        return 'n%d' % int(v)
    if isinstance(v, (float, np.floating)):
        if math.isnan(v):
            return '-'
        if float(v).is_integer():
            return 'n%d' % int(v)
        return 'x' + repr(float(v))
    if isinstance(v, str):
        return 's' + str(v).encode('utf-8').hex()
    return 'x' + repr(v)


def canon_in(v):
    """scenario value -> driver token (NaN idx means None)"""
    return canon(dec(v))


def lst(items, sep):
    items = list(items)
    return sep.join(items) if items else '_'


# ------------------------------------------------------------------ generation

def gen_idx(rng, model, n_hint, pool):
    r = rng.random()
    if r < 0.32:
        return None
    if r < 0.36:
        return {'nan': 1}
    if r < 0.56:
        return rng.randint(0, 6)
    if r < 0.62:
        return {'f': float(rng.randint(1, 5))}
    if r < 0.74 and pool:
        return rng.choice(pool)                      # collision with an idx already requested
    if r < 0.92:
        # squat a name that get_next_idx will want to generate soon (forces the collision loop)
        other = model if rng.random() < 0.7 else rng.choice(['PV', 'Slack', 'Bus', 'BusFreq', 'BusROCOF', 'Area'])
        k = rng.choice([n_hint + 2, n_hint + 2, n_hint + 2, n_hint + 3, n_hint + 3, n_hint + 1, n_hint + 4, 1, 2])
        return '%s_%s' % (other, rng.choice(['%d', '%d', '%d', '%d', '0%d']) % k)
    return rng.choice(['g1', 'g2', 'a', 'B', '1', '2', 'Büs', 'x y', '-', 'n1', ''])


def pick_ref(rng, pool, dangling_p, none_p=0.0):
    r = rng.random()
    if r < none_p:
        return None
    if r < none_p + dangling_p or not pool:
        return rng.choice([99, 'nope', 'Bus_1', '1', 0, 7])
    v = rng.choice(pool)
    if isinstance(v, int) and rng.random() < 0.1:
        return {'f': float(v)}
    return v


def explicit(reqs):
    """values usable as references: the explicitly requested idx (first request of each value keeps it)"""
    out = []
    for q in reqs:
        v = dec(q)
        if v is None or (isinstance(v, float) and math.isnan(v)):
            continue
        if isinstance(v, float):
            v = int(v)
        if v not in out:
            out.append(v)
    return out


def gen_scenario(rng):
    dang = rng.random() < 0.22          # scenario with dangling mandatory references
    dp = 0.25 if dang else 0.0
    sc = {'areas': [], 'buses': [], 'gens': [], 'pqs': [], 'syns': [], 'fm': [], 'users': [], 'queries': {}}
    pool = []
    for k in range(rng.choice([0, 1, 2, 3])):
        i = gen_idx(rng, 'Area', k, pool)
        pool.append(i)
        sc['areas'].append({'idx': i})
    apool = explicit(a['idx'] for a in sc['areas']) + ['Area_1', 'Area_2']
    pool = []
    for k in range(rng.choice([1, 2, 3, 4, 5, 6])):
        i = gen_idx(rng, 'Bus', k, pool) if rng.random() < 0.6 else k + 1
        pool.append(i)
        sc['buses'].append({'idx': i, 'area': pick_ref(rng, apool, 0.15, 0.25),
                            'Vn': rng.choice([110, 110, 220, 345]),
                            'name': rng.choice([None, None, 'nm', 'b%d' % (k % 2)])})
    bpool = explicit(b['idx'] for b in sc['buses'])
    if not bpool:
        bpool = ['Bus_1']
    pool = []
    for k in range(rng.choice([0, 1, 2, 3, 4, 5, 6, 7])):
        m = rng.choice(['PV', 'PV', 'Slack'])
        i = gen_idx(rng, m, k, pool)
        pool.append(i)
        sc['gens'].append({'m': m, 'idx': i, 'bus': pick_ref(rng, bpool[:3], dp * 0.5),
                           'Vn': rng.choice([110, 110, 220]),
                           'name': rng.choice([None, None, None, 'G', 'g1', 'PV_2'])})
    gpool = explicit(g['idx'] for g in sc['gens']) + (['PV_1', 'Slack_2', 'PV_2'] if rng.random() < 0.25 else [])
    for k in range(rng.choice([0, 0, 1, 2, 3])):
        sc['pqs'].append({'idx': 'pq%d' % k, 'bus': pick_ref(rng, bpool, dp * 0.3)})
    for k in range(rng.choice([0, 0, 1, 2, 3, 4, 5]) if gpool else 0):
        m = rng.choice(['GENCLS', 'GENROU'])
        sc['syns'].append({'m': m, 'idx': rng.choice([None, None, 'syn%d' % k, k]),
                           'bus': pick_ref(rng, bpool, dp * 0.3),
                           'gen': pick_ref(rng, gpool, dp)})
    pool = []
    for k in range(rng.choice([0, 0, 1, 2, 3])):
        m = rng.choice(['BusFreq', 'BusROCOF'])
        i = gen_idx(rng, m, k, pool)
        pool.append(i)
        sc['fm'].append({'m': m, 'idx': i, 'bus': pick_ref(rng, bpool, dp * 0.3),
                         'name': rng.choice([None, None, 'F'])})
    fpool = explicit(f['idx'] for f in sc['fm']) + ['BusFreq_1', 'BusFreq_2', 'BusROCOF_1']
    kind = rng.choice(['FLoad', 'FLoad', 'ACEc'])
    if kind == 'FLoad' and not sc['pqs']:
        kind = 'ACEc'
    sc['user'] = kind
    sc['fmode'] = rng.choice(['model', 'group']) if kind == 'FLoad' else 'model'
    sc['auto_find'], sc['auto_add'] = rng.choice([(1, 1), (1, 1), (1, 1), (0, 1), (1, 0), (0, 0)])
    for k in range(rng.choice([0, 1, 2, 3, 4])):
        busf = pick_ref(rng, fpool, 0.2, 0.5)
        if kind == 'FLoad':
            sc['users'].append({'pq': pick_ref(rng, ['pq%d' % j for j in range(len(sc['pqs']))], dp * 0.3),
                                'busf': busf})
        else:
            sc['users'].append({'bus': pick_ref(rng, bpool, dp * 0.3), 'busf': busf})
    # lookups
    for grp, rows, extra in (('ACTopology', sc['buses'], apool), ('StaticGen', sc['gens'], bpool),
                             ('FreqMeasurement', sc['fm'], bpool), ('Collection', sc['areas'], [])):
        models, fields = GROUPS[grp]
        idxs = explicit(r['idx'] for r in rows) + ['%s_%d' % (m, k) for m in models for k in (1, 2, 3)]
        vals = {0: idxs + [99, 'zz'], 1: idxs + ['nm', 'b0', 'b1', 'G', 'g1', 'PV_2', 'F', None]}
        for j, f in enumerate(fields[1:], 2):
            vals[j] = [r.get(f) for r in rows if f in r] + list(extra[:2]) + [99, None] + ([110, 220] if f == 'Vn' else [])
        qs = []
        for _ in range(rng.choice([8, 12, 16]) if rows else 3):
            r = rng.random()
            if r < 0.15:
                qs.append(['u', rng.choice(idxs + [99, 'zz'])])
            elif r < 0.27:
                qs.append(['m', rng.choice(idxs + [99, 'zz'])])
            elif r < 0.37:
                qs.append(['w', rng.randrange(len(models)), rng.choice(idxs + [99])])
            else:
                nk = rng.choice([1, 1, 1, 2, 2, 3])
                keys = rng.sample(range(0, len(fields) + 1), min(nk, len(fields) + 1))
                if rng.random() < 0.5 and len(fields) >= 2 and 2 not in keys:
                    keys[0] = 2
                nq = rng.choice([1, 1, 2, 3])
                tuples = []
                for _q in range(nq):
                    if rows and rng.random() < 0.6:
                        # the values of an existing request (after defaults the name may differ: fine)
                        row = rng.choice(rows)
                        t = []
                        for kk in keys:
                            if kk == 0:
                                t.append(rng.choice(idxs))
                            else:
                                t.append(row.get(fields[kk - 1]))
                        tuples.append(t)
                    else:
                        tuples.append([rng.choice(vals[kk]) for kk in keys])
                scope = 'g' if rng.random() < 0.6 else rng.randrange(len(models))
                dflt = None if rng.random() < 0.85 else rng.choice(idxs + [0, 'dflt'])
                qs.append(['f', scope, keys, rng.choice([0, 1, 1]), rng.choice([0, 1]), dflt, tuples,
                           rng.choice([0, 1])])
        sc['queries'][grp] = qs
    # unique parameter stream (TGOV1.syn on a separate System)
    sc['uniq'] = [rng.choice([1, 2, 3, 'a', None, {'f': 2.0}, 'a', 1]) for _ in range(rng.choice([0, 0, 0, 2, 4, 6]))]
    return sc


# ------------------------------------------------------------------ the real code

def _exc(e):
    return type(e).__name__


def _safe(fn):
    try:
        return fn()
    except (IndexError, KeyError) as e:
        return 'E'
    except Exception as e:
        return 'X:' + _exc(e)


def fmt_ans(r, allow_all):
    if isinstance(r, str):
        return r
    if not allow_all:
        r = [[x] for x in r]
    return lst((lst((canon(x) for x in item), ',') for item in r), '/')


def run_queries(ss, grp, qs):
    models, fields = GROUPS[grp]
    names = ['idx'] + fields
    G = ss.groups[grp]
    out = []
    for q in qs:
        if q[0] == 'u':
            i = dec(q[1])
            r = _safe(lambda: G.idx2uid(i))
            out.append('E' if r is None else (r if isinstance(r, str) else str(r)))
        elif q[0] == 'm':
            r = _safe(lambda: G.idx2model(dec(q[1])))
            out.append(r if isinstance(r, str) else str(models.index(r.class_name)))
        elif q[0] == 'w':
            mdl = ss.models[models[q[1]]]
            r = _safe(lambda: mdl.idx2uid(dec(q[2])))
            out.append('E' if r is None else (r if isinstance(r, str) else str(r)))
        else:
            _, scope, keys, an, aa, dflt, tuples, strform = q
            obj = G if scope == 'g' else ss.models[models[scope]]
            kn = [names[k] for k in keys]
            values = [[dec(t[j]) for t in tuples] for j in range(len(keys))]
            if strform and len(keys) == 1:
                kn, values = kn[0], values[0]
            r = _safe(lambda: obj.find_idx(kn, values, allow_none=bool(an), default=dec(dflt), allow_all=bool(aa)))
            out.append(fmt_ans(r, aa))
    return out


def run_case(sc):
    """drive the real code; returns the observation dict"""
    ss = _PRISTINE[0]          # this process is a throw-away fork: the pristine System may be mutated
    obs = {'add_err': [], 'assigned': {}, 'groups_ok': True}
    rec = {g: [] for g in GROUPS}       # harness' own record: (model, assigned idx, request)

    def add(model, grp, d, row):
        d = {k: dec(v) for k, v in d.items() if not (v is None and k != 'idx')}
        try:
            i = ss.add(model, d)
        except Exception as e:
            obs['add_err'].append([model, _exc(e)])
            return None
        if grp:
            rec[grp].append((model, i, row))
        return i

    for g, (models, _) in GROUPS.items():
        if list(ss.groups[g].models) != models:
            obs['groups_ok'] = False
    for a in sc['areas']:
        add('Area', 'Collection', {'idx': a['idx']}, a)
    for b in sc['buses']:
        add('Bus', 'ACTopology', b, b)
    for g in sc['gens']:
        add(g['m'], 'StaticGen', {k: v for k, v in g.items() if k != 'm'}, g)
    for p in sc['pqs']:
        add('PQ', None, p, p)
    syn_idx = []
    for s in sc['syns']:
        syn_idx.append(add(s['m'], None, {k: v for k, v in s.items() if k != 'm'}, s))
    for f in sc['fm']:
        add(f['m'], 'FreqMeasurement', {k: v for k, v in f.items() if k != 'm'}, f)
    user = ss.models[sc['user']]
    user_idx = []
    for u in sc['users']:
        user_idx.append(add(sc['user'], None, u, u))
    if sc['user'] == 'FLoad' and sc['fmode'] == 'group':
        user.busf.model = 'FreqMeasurement'
        user.busfreq.model = 'FreqMeasurement'
    user.busfreq.auto_find = bool(sc['auto_find'])
    user.busfreq.auto_add = bool(sc['auto_add'])

    # registry state
    for g, (models, fields) in GROUPS.items():
        G = ss.groups[g]
        rows = []
        for (m, i, row) in rec[g]:
            mdl = ss.models[m]
            rows.append('%s:%s:%s:%s' % (canon(i), G.uid.get(i, 'E'), mdl.uid.get(i, 'E'),
                                         canon(mdl.name.v[mdl.uid[i]]) if i in mdl.uid else 'E'))
        obs['assigned'][g] = lst(rows, ',')
        obs['n_' + g] = [G.n] + [ss.models[m].n for m in models]
        obs['keys_' + g] = [canon(k) for k in G._idx2model.keys()]
    obs['rec'] = {g: [[m, canon(i)] for (m, i, _) in rec[g]] for g in rec}
    obs['q_pre'] = {g: run_queries(ss, g, sc['queries'].get(g, [])) for g in GROUPS}

    # back references
    try:
        ss.collect_ref()
        obs['bref_area'] = [[[canon(x) for x in l] for l in ss.Area.Bus.v],
                            [[canon(x) for x in l] for l in ss.Area.ACTopology.v]]
        obs['bref_sg'] = [[[canon(x) for x in l] for l in ss.StaticGen.SynGen.v],
                          [[canon(x) for x in l] for l in ss.PV.SynGen.v],
                          [[canon(x) for x in l] for l in ss.Slack.SynGen.v]]
        obs['bus_idx'] = [canon(x) for x in ss.Bus.idx.v]
        obs['syn_idx'] = [canon(x) for x in syn_idx]
    except Exception as e:
        obs['bref_err'] = _exc(e) + ': ' + str(e)[:100]

    # setup (link_ext_param, find_devices, set_address)
    try:
        ok = ss.setup()
        obs['setup'] = 'ok' if ok else 'false'
    except Exception as e:
        obs['setup'] = 'raise:' + _exc(e)
    obs['extparam_idx'] = {m: sorted({p.indexer.name for p in ss.models[m].params_ext.values() if p.indexer is not None})
                           for m in ('GENCLS', 'GENROU', 'BusFreq', 'BusROCOF', 'FLoad', 'ACEc', 'PV', 'Slack', 'PQ')}
    obs['finder_v'] = [canon(x) for x in (user.busfreq.v or [])]
    obs['user_link'] = [canon(x) for x in list(user.bus.v)]
    G = ss.FreqMeasurement
    new = []
    for i in list(G._idx2model.keys())[len(rec['FreqMeasurement']):]:
        mdl = G._idx2model[i]
        u = mdl.uid[i]
        new.append('%d:%s:%s,%s:%s:%s' % (GROUPS['FreqMeasurement'][0].index(mdl.class_name), canon(i),
                                         canon(mdl.name.v[u]), canon(mdl.bus.v[u]), G.uid[i], u))
    obs['finder_new'] = lst(new, ',')
    if obs['setup'] == 'ok':
        # (the finder may have extended FreqMeasurement: its lookups are repeated only if it did not)
        obs['q_post'] = {g: run_queries(ss, g, sc['queries'].get(g, [])) for g in GROUPS
                         if not (g == 'FreqMeasurement' and new)}
        bus_a = [int(a) for a in ss.Bus.a.a]
        obs['bus_a'] = bus_a
        for m in ('PV', 'Slack', 'PQ'):
            obs['a_' + m] = [int(a) for a in ss.models[m].a.a]
        try:
            ss.set_address(ss.exist.tds)
            fa = []
            for i in G._idx2model.keys():
                mdl = G._idx2model[i]
                fa.append(int(mdl.f.a[mdl.uid[i]]))
            obs['fm_f_a'] = fa
            obs['user_f_a'] = [int(a) for a in user.f.a]
            if sc['user'] == 'ACEc':
                obs['user_area'] = [canon(x) for x in user.area.v]
        except Exception as e:
            obs['tds_addr_err'] = _exc(e) + ': ' + str(e)[:100]
        # a second set-up of the same data (System.reset) must leave every back-reference list as it was
        if 'bref_err' not in obs:
            try:
                ss.reset()
                obs['bref_area2'] = [[[canon(x) for x in l] for l in ss.Area.Bus.v],
                                     [[canon(x) for x in l] for l in ss.Area.ACTopology.v]]
                obs['bref_sg2'] = [[[canon(x) for x in l] for l in ss.StaticGen.SynGen.v],
                                   [[canon(x) for x in l] for l in ss.PV.SynGen.v],
                                   [[canon(x) for x in l] for l in ss.Slack.SynGen.v]]
            except Exception as e:
                obs['reset_err'] = _exc(e) + ': ' + str(e)[:100]
    return obs


def run_uniq(sc):
    """unique + mandatory IdxParam (TGOV1.syn) on a pristine System"""
    obs = {}
    if sc.get('uniq'):
        s2 = _PRISTINE[0]
        res = []
        for v in sc['uniq']:
            try:
                s2.add('TGOV1', {'syn': dec(v)})
                res.append('ok')
            except IndexError:
                res.append('E')
            except ValueError:
                res.append('M')
            except Exception as e:
                res.append('X:' + _exc(e))
        obs['uniq'] = res
        obs['uniq_n'] = [s2.TGOV1.n, len(s2.TGOV1.syn.v), s2.TurbineGov.n]
    return obs


_PRISTINE = [None]


def pristine():
    """one untouched System per harness process; every case runs in a fork of it (System() costs 0.35 s)"""
    if _PRISTINE[0] is None:
        import andes
        andes.config_logger(stream_level=50)
        # warm-up: a full set-up in this process so that every lazy import (pandas, scipy, ...) is done
        # before forking (otherwise each fork pays for them again)
        try:
            w = andes.System(default_config=True, no_output=True)
            w.add('Bus', {'idx': 1})
            w.add('PV', {'bus': 1})
            w.add('PQ', {'bus': 1, 'idx': 'p'})
            w.add('GENROU', {'bus': 1, 'gen': 'PV_1'})
            w.add('FLoad', {'pq': 'p'})
            w.add('ACEc', {'bus': 1})
            w.setup()
            w.set_address(w.exist.tds)
        except Exception:
            pass        # a broken tree must show up in the cases, not kill the harness
        _PRISTINE[0] = andes.System(default_config=True, no_output=True)
    return _PRISTINE[0]


def _forked(fn, sc):
    import pickle
    r, w = os.pipe()
    pid = os.fork()
    if pid == 0:
        code = 0
        try:
            os.close(r)
            try:
                out = (fn(sc), None)
            except Exception:
                out = (None, traceback.format_exc()[-1500:])
            with os.fdopen(w, 'wb') as fh:
                pickle.dump(out, fh)
        except BaseException:
            code = 3
        finally:
            os._exit(code)
    os.close(w)
    with os.fdopen(r, 'rb') as fh:
        data = fh.read()
    os.waitpid(pid, 0)
    if not data:
        return None, 'child died without an answer'
    return pickle.loads(data)


def _worker(sc):
    pristine()
    obs, err = _forked(run_case, sc)
    if err is None and sc.get('uniq'):
        o2, err = _forked(run_uniq, sc)
        if err is None:
            obs.update(o2)
    return sc, obs, err


def run_many(scs, procs=12):
    import multiprocessing as mp
    pristine()
    if len(scs) < 4:
        return [_worker(s) for s in scs]
    with mp.get_context('fork').Pool(procs) as pool:
        return pool.map(_worker, scs, chunksize=max(1, len(scs) // (procs * 8)))


# ------------------------------------------------------------------ model lines

def q_tokens(qs):
    out = []
    for q in qs:
        if q[0] in 'um':
            out.append('%s|%s' % (q[0], canon_in(q[1])))
        elif q[0] == 'w':
            out.append('w|%d|%s' % (q[1], canon_in(q[2])))
        else:
            _, scope, keys, an, aa, dflt, tuples, _s = q
            out.append('f|%s|%s|%d|%d|%s|%s' % (scope, ','.join(map(str, keys)), an, aa, canon_in(dflt),
                                               lst((lst((canon_in(v) for v in t), ',') for t in tuples), '/')))
    return out


def none_idx(v):
    v = dec(v)
    return v is None or (isinstance(v, float) and math.isnan(v))


def add_tokens(grp, rows):
    models, fields = GROUPS[grp]
    out = []
    for r in rows:
        m = models.index(r['m']) if 'm' in r else 0
        out.append('%d|%s|%s' % (m, canon_in(r.get('idx')), ','.join(canon_in(r.get(f)) for f in fields)))
    return out


def link_of_users(sc):
    """(link values, all resolvable?) of the DeviceFinder users, from the scenario only"""
    links, ok = [], True
    if sc['user'] == 'FLoad':
        pqbus = {p['idx']: p['bus'] for p in sc['pqs']}
        for u in sc['users']:
            if dec(u['pq']) in pqbus:
                links.append(pqbus[dec(u['pq'])])
            else:
                ok = False
    else:
        links = [u['bus'] for u in sc['users']]
    return links, ok


def model_lines(sc, obs):
    """driver lines of one scenario: dict stream -> (line, meta)"""
    lines = {}
    # Collection: back references from Bus.area
    refs = []
    for bi, b in zip(obs.get('bus_idx', []), sc['buses']):
        refs.append('%s>%s' % (bi, canon_in(b['area'])))
    ops = q_tokens(sc['queries'].get('Collection', []))
    nq = {'Collection': len(ops)}
    if 'bus_idx' in obs and len(obs['bus_idx']) == len(sc['buses']):
        ops.append('b|' + lst(refs, ','))
    lines['Collection'] = 'reg Area %s %s' % (lst(add_tokens('Collection', sc['areas']), ';'), lst(ops, ';'))
    # ACTopology: lookups + mandatory bus references of PV, Slack, PQ
    ops = q_tokens(sc['queries'].get('ACTopology', []))
    nq['ACTopology'] = len(ops)
    for m in ('PV', 'Slack'):
        ops.append('l|' + lst((canon_in(g['bus']) for g in sc['gens'] if g['m'] == m), ','))
    ops.append('l|' + lst((canon_in(p['bus']) for p in sc['pqs']), ','))
    ops.append('l|' + lst((canon_in(s['bus']) for s in sc['syns']), ','))
    ops.append('l|' + lst((canon_in(f['bus']) for f in sc['fm']), ','))
    if sc['user'] == 'ACEc':
        ops.append('l|' + lst((canon_in(u['bus']) for u in sc['users']), ','))
    lines['ACTopology'] = 'reg Bus %s %s' % (lst(add_tokens('ACTopology', sc['buses']), ';'), lst(ops, ';'))
    # StaticGen: lookups + back references from SynGen.gen + mandatory gen references
    ops = q_tokens(sc['queries'].get('StaticGen', []))
    nq['StaticGen'] = len(ops)
    if 'syn_idx' in obs and all(x != '-' for x in obs['syn_idx']):
        order = [j for j, s in enumerate(sc['syns']) if s['m'] == 'GENCLS'] + \
                [j for j, s in enumerate(sc['syns']) if s['m'] == 'GENROU']
        ops.append('b|' + lst(('%s>%s' % (obs['syn_idx'][j], canon_in(sc['syns'][j]['gen'])) for j in order), ','))
    ops.append('l|' + lst((canon_in(s['gen']) for s in sc['syns']), ','))
    lines['StaticGen'] = 'reg PV,Slack %s %s' % (lst(add_tokens('StaticGen', sc['gens']), ';'), lst(ops, ';'))
    # FreqMeasurement: lookups + DeviceFinder
    ops = q_tokens(sc['queries'].get('FreqMeasurement', []))
    nq['FreqMeasurement'] = len(ops)
    links, ok = link_of_users(sc)
    lines['finder_cmp'] = ok
    if ok:
        is_model = sc['fmode'] == 'model'
        ents = lst(('%s>%s' % (canon_in(u['busf']), canon_in(l)) for u, l in zip(sc['users'], links)), ',')
        ops.append('d|%d|0|0|2|2|%d|%d|%s' % (1 if is_model else 0, sc['auto_find'], sc['auto_add'], ents))
    lines['FreqMeasurement'] = 'reg BusFreq,BusROCOF %s %s' % (lst(add_tokens('FreqMeasurement', sc['fm']), ';'),
                                                              lst(ops, ';'))
    lines['nq'] = nq
    return lines


# ------------------------------------------------------------------ property oracle (no model involved)

def oracle_reset(sc, obs):
    bad = []
    for a, b, nm in ((obs.get('bref_area'), obs.get('bref_area2'), 'Area'), (obs.get('bref_sg'), obs.get('bref_sg2'), 'StaticGen/PV/Slack.SynGen')):
        if a is not None and b is not None and a != b:
            bad.append(('backref-changes-after-reset', 'back-reference lists of %s after System.reset() (second set-up of the same data) '
                        'are %r, after the first set-up they were %r' % (nm, str(b)[:160], str(a)[:160])))
    return bad


def oracle(sc, obs):
    """the statement of C19 evaluated on what the real code did, from the harness' own bookkeeping"""
    bad = []
    if obs['add_err']:
        bad.append(('add-raised', 'System.add raised on well-formed data: %r' % obs['add_err'][:3]))
        return bad
    reg = {}
    for g, (models, fields) in GROUPS.items():
        rows = [r.split(':') for r in obs['assigned'][g].split(',')] if obs['assigned'][g] != '_' else []
        reqs = {'Collection': sc['areas'], 'ACTopology': sc['buses'], 'StaticGen': sc['gens'],
                'FreqMeasurement': sc['fm']}[g]
        seen = []
        cnt = {}
        devs = []
        for k, (r, q) in enumerate(zip(rows, reqs)):
            i, gu, mu, nm = r
            m = q.get('m', models[0])
            if i in seen:
                bad.append(('idx-not-unique', 'group %s: idx %s assigned twice' % (g, i)))
            want = canon_in(q.get('idx'))
            if want != '-' and want not in seen and i != want:
                bad.append(('explicit-idx-not-kept', 'group %s: free idx %s requested, %s assigned' % (g, want, i)))
            seen.append(i)
            if gu != str(k):
                bad.append(('group-uid-not-position', 'group %s: device %d has uid %s' % (g, k, gu)))
            if mu != str(cnt.get(m, 0)):
                bad.append(('model-uid-not-position', '%s: device %d has uid %s' % (m, cnt.get(m, 0), mu)))
            cnt[m] = cnt.get(m, 0) + 1
            name = canon_in(q.get('name'))
            vals = {0: i, 1: (i if name == '-' else name)}
            for j, f in enumerate(fields[1:], 2):
                vals[j] = canon_in(q.get(f))
            devs.append((m, vals))
        if obs['n_' + g][0] != len(rows) or obs['keys_' + g] != seen:
            bad.append(('registry-size', 'group %s registry does not list the added devices in order' % g))
        reg[g] = devs
        # lookups
        for phase in ('q_pre', 'q_post'):
            if phase not in obs or g not in obs[phase]:
                continue
            for q, got in zip(sc['queries'].get(g, []), obs[phase][g]):
                bad += oracle_query(g, models, devs, q, got, phase)
    # back references: exactly the referrers, once each
    if 'bref_err' in obs:
        bad.append(('collect-ref-raised', obs['bref_err']))
    else:
        tg = [v[0] for _, v in reg['Collection']]
        exp = [[] for _ in tg]
        for bi, b in zip(obs['bus_idx'], sc['buses']):
            a = canon_in(b['area'])
            if a in tg:
                exp[tg.index(a)].append(bi)
        for nm, got in zip(('Area.Bus', 'Area.ACTopology'), obs['bref_area']):
            if got != exp:
                bad.append(('backref-wrong', '%s = %r, devices pointing there: %r' % (nm, got, exp)))
        tg = [v[0] for _, v in reg['StaticGen']]
        exp = [[] for _ in tg]
        order = [j for j, s in enumerate(sc['syns']) if s['m'] == 'GENCLS'] + \
                [j for j, s in enumerate(sc['syns']) if s['m'] == 'GENROU']
        for j in order:
            t = canon_in(sc['syns'][j]['gen'])
            if t in tg:
                exp[tg.index(t)].append(obs['syn_idx'][j])
        if obs['bref_sg'][0] != exp:
            bad.append(('backref-wrong', 'StaticGen.SynGen = %r, devices pointing there: %r' % (obs['bref_sg'][0], exp)))
        for mi, m in enumerate(('PV', 'Slack')):
            e = [exp[k] for k, (mm, _) in enumerate(reg['StaticGen']) if mm == m]
            if obs['bref_sg'][1 + mi] != e:
                bad.append(('backref-wrong', '%s.SynGen = %r, devices pointing there: %r' % (m, obs['bref_sg'][1 + mi], e)))
    # mandatory references: dangling => set-up fails or raises; otherwise resolved to the named device
    buses = [v[0] for _, v in reg['ACTopology']]
    gens = [v[0] for _, v in reg['StaticGen']]
    pqs = [canon(p['idx']) for p in sc['pqs']]
    dangling = []
    for g in sc['gens']:
        if canon_in(g['bus']) not in buses:
            dangling.append('%s.bus=%s' % (g['m'], canon_in(g['bus'])))
    for p in sc['pqs']:
        if canon_in(p['bus']) not in buses:
            dangling.append('PQ.bus')
    for s in sc['syns']:
        if canon_in(s['bus']) not in buses:
            dangling.append(s['m'] + '.bus')
        if canon_in(s['gen']) not in gens:
            dangling.append(s['m'] + '.gen')
    for f in sc['fm']:
        if canon_in(f['bus']) not in buses:
            dangling.append(f['m'] + '.bus')
    for u in sc['users']:
        if sc['user'] == 'FLoad' and canon_in(u['pq']) not in pqs:
            dangling.append('FLoad.pq')
        if sc['user'] == 'ACEc' and canon_in(u['bus']) not in buses:
            dangling.append('ACEc.bus')
    obs['dangling'] = dangling
    if dangling and obs['setup'] == 'ok':
        # TDS-only models are linked at TDS.init: accepted here only if that later step reports it
        if 'tds_addr_err' not in obs and not all(d.split('.')[0] in ('GENCLS', 'GENROU', 'BusFreq', 'BusROCOF', 'FLoad', 'ACEc')
                                                  and d.endswith('.bus') for d in dangling):
            bad.append(('dangling-accepted', 'set-up succeeded with dangling mandatory references %r' % dangling[:4]))
        elif 'tds_addr_err' not in obs:
            bad.append(('dangling-accepted-tds', 'set-up and TDS address assignment succeeded with dangling %r' % dangling[:4]))
    if obs['setup'] == 'ok':
        for d in dangling:
            m, f = d.split('=')[0].split('.')
            if f in obs.get('extparam_idx', {}).get(m, []):
                bad.append(('dangling-accepted-by-setup', 'setup() returned True although the external parameters of %s '
                            'could not be linked through the dangling %s' % (m, d)))
                break
    if not dangling and obs['setup'] != 'ok':
        bad.append(('valid-data-rejected', 'set-up %s although every mandatory reference exists' % obs['setup']))
    if obs['setup'] == 'ok':
        for m in ('PV', 'Slack', 'PQ'):
            rows = [g for g in sc['gens'] if g['m'] == m] if m != 'PQ' else sc['pqs']
            for r, a in zip(rows, obs['a_' + m]):
                b = canon_in(r['bus'])
                if b in buses and obs['bus_a'][buses.index(b)] != a:
                    bad.append(('resolved-to-other-device', '%s on bus %s got the address of another bus' % (m, b)))
    # device finder
    links, ok = link_of_users(sc)
    if ok and obs['setup'] != 'raise:KeyError' and sc['users'] and 'finder_v' in obs and not dangling:
        fm0 = reg['FreqMeasurement']
        new = parse_new(obs['finder_new'])
        scope_models = ['BusFreq'] if sc['fmode'] == 'model' else ['BusFreq', 'BusROCOF']
        alldev = [(m, v[0], v[2]) for m, v in fm0] + [(GROUPS['FreqMeasurement'][0][n[0]], n[1], n[3]) for n in new]
        if len(obs['finder_v']) != len(sc['users']):
            bad.append(('finder-length', 'DeviceFinder.v has %d entries for %d devices' % (len(obs['finder_v']), len(sc['users']))))
        for u, l, v in zip(sc['users'], links, obs['finder_v']):
            want = canon_in(u['busf'])
            hit = [d for d in alldev if d[1] == v and d[0] in scope_models]
            # valid = names a device of the scope that existed when the entry was processed: an explicit one, or
            # one created earlier in this run (then the answer keeps it)
            given_valid = want != '-' and (any(d[1] == want and d[0] in scope_models for d in alldev[:len(fm0)]) or
                                           (v == want and any(d[1] == want and d[0] in scope_models for d in alldev)))
            if given_valid:
                if v != want:
                    bad.append(('finder-overrides-valid-idx', 'valid busf %s replaced by %s' % (want, v)))
                continue
            if sc['auto_add'] and not hit:
                bad.append(('finder-unresolved', 'DeviceFinder left %s which is not a device' % v))
            if hit and hit[0][2] != canon_in(l):
                bad.append(('finder-wrong-target', 'found/created device %s measures %s, wanted %s' % (v, hit[0][2], canon_in(l))))
        seenl = []
        for n in new:
            if sc['auto_find'] and any(d[2] == n[3] and d[0] in scope_models for d in [(m, v[0], v[2]) for m, v in fm0]):
                bad.append(('finder-duplicate', 'a device for %s was created although one existed' % n[3]))
            if sc['auto_find'] and n[3] in seenl:
                bad.append(('finder-duplicate', 'two devices were created for %s' % n[3]))
            seenl.append(n[3])
        if 'user_f_a' in obs and 'fm_f_a' in obs:
            ids = [d[1] for d in alldev]
            for v, a in zip(obs['finder_v'], obs['user_f_a']):
                if v in ids and obs['fm_f_a'][ids.index(v)] != a:
                    bad.append(('resolved-to-other-device', 'frequency input of the user is not the variable of %s' % v))
    # unique parameter
    if 'uniq' in obs:
        seen = []
        for v, r in zip(sc['uniq'], obs['uniq']):
            c = canon_in(v)
            if c == '-':
                if r != 'M':
                    bad.append(('mandatory-missing-accepted', 'TGOV1 without syn: %s' % r))
                continue
            if (c in seen) != (r == 'E'):
                bad.append(('unique-param', 'TGOV1.syn=%s with %r present: %s' % (c, seen, r)))
            if r == 'ok':
                seen.append(c)
    return bad


def parse_new(s):
    out = []
    if s == '_' or not s:
        return out
    # items are `m:idx:name,bus:guid:muid`; split on ',' only between items (every item has 2 commas-free parts)
    parts = s.split(',')
    for j in range(0, len(parts), 2):
        a, b = parts[j], parts[j + 1]
        m, i, nm = a.split(':')
        bus, gu, mu = b.split(':')
        out.append((int(m), i, nm, bus, int(gu), int(mu)))
    return out


def oracle_query(g, models, devs, q, got, phase):
    bad = _oracle_query(g, models, devs, q, got, phase)
    hit_is_default = False
    if bad and q[0] == 'f' and q[1] == 'g' and q[5] is not None:
        d = canon_in(q[5])
        for t in q[6]:
            tt = [canon_in(v) for v in t]
            for m in models:
                if [v[0] for mm, v in devs if mm == m and all(v[k] == x for k, x in zip(q[2], tt))] == [d]:
                    hit_is_default = True
    if hit_is_default:
        # the caller's `default` is the idx of a device: Group.find_idx uses `[default]` as its "missing" marker
        bad = [('group-find-default-sentinel', 'Group.find_idx treats a match equal to [default] as missing: ' + w)
               for _, w in bad]
    return bad


def _oracle_query(g, models, devs, q, got, phase):
    bad = []
    tag = '%s %s' % (g, phase)
    idxs = [v[0] for _, v in devs]
    if q[0] == 'u':
        i = canon_in(q[1])
        want = str(idxs.index(i)) if i in idxs else 'E'
        if got != want:
            bad.append(('idx2uid-wrong', '%s idx2uid(%s) = %s, expected %s' % (tag, i, got, want)))
    elif q[0] == 'm':
        i = canon_in(q[1])
        want = str(models.index(devs[idxs.index(i)][0])) if i in idxs else 'E'
        if got != want:
            bad.append(('idx2model-wrong', '%s idx2model(%s) = %s, expected %s' % (tag, i, got, want)))
    elif q[0] == 'w':
        m = models[q[1]]
        mi = [v[0] for mm, v in devs if mm == m]
        i = canon_in(q[2])
        want = str(mi.index(i)) if i in mi else 'E'
        if got != want:
            bad.append(('model-idx2uid-wrong', '%s %s.idx2uid(%s) = %s, expected %s' % (tag, m, i, got, want)))
    else:
        _, scope, keys, an, aa, dflt, tuples, _s = q
        rows = devs if scope == 'g' else [d for d in devs if d[0] == models[scope]]
        if scope == 'g':
            rows = [d for m in models for d in devs if d[0] == m]     # group order of models
        exp = []
        for t in tuples:
            tt = [canon_in(v) for v in t]
            exp.append([v[0] for _, v in rows if all(v[k] == x for k, x in zip(keys, tt))])
        if got.startswith('X:'):
            return [('find-raised', '%s find_idx raised %s' % (tag, got))]
        missing = any(not e for e in exp)
        if got == 'E':
            if not missing or an:
                bad.append(('find-raised-although-present', '%s find_idx%r raised although %s' %
                            (tag, (keys, tuples), 'allow_none' if an else 'every tuple matches')))
            return bad
        if missing and not an:
            bad.append(('find-missing-not-reported', '%s find_idx%r returned %s for a missing tuple' % (tag, (keys, tuples), got)))
            return bad
        ans = [a.split(',') for a in got.split('/')] if got != '_' else []
        d = canon_in(dflt)
        for e, a, t in zip(exp, ans, tuples):
            if not e:
                if a != [d]:
                    bad.append(('find-wrong', '%s find_idx %r: nothing matches %r, answer %r' % (tag, keys, t, a)))
                continue
            if aa:
                if a != e:
                    if scope == 'g' and set(a) < set(e) and all(x in e for x in a):
                        bad.append(('group-find-all-first-model-only',
                                    '%s.find_idx(%r, %r, allow_all=True) returned %r but the devices with these values '
                                    'are %r (only the first model with a match is reported)' % (g, keys, t, a, e)))
                    else:
                        bad.append(('find-wrong', '%s find_idx %r %r allow_all: %r, expected %r' % (tag, keys, t, a, e)))
            else:
                if len(a) != 1 or a[0] not in e:
                    bad.append(('find-wrong', '%s find_idx %r %r: %r is not a device with these values (%r)' % (tag, keys, t, a, e)))
                elif scope != 'g' and a[0] != e[0]:
                    bad.append(('find-not-first', '%s find_idx %r %r: %r is not the first match %r' % (tag, keys, t, a, e[0])))
    return bad


# ------------------------------------------------------------------ check

def nontrivial(sc):
    big = max(len(sc['buses']), len(sc['gens']), len(sc['fm'])) >= 3
    refs = bool(sc['syns']) or bool(sc['users']) or any(b['area'] is not None for b in sc['buses'])
    auto = any(none_idx(r.get('idx')) for r in sc['gens'] + sc['buses'] + sc['fm'])
    return big and (refs or auto)


def check_scenarios(ctx, scs, stream_prefix=''):
    res = run_many(scs)
    lines, meta = [], []
    for k, (sc, obs, err) in enumerate(res):
        if err is not None:
            ctx.count('harness_exception')
            ctx.oracle_fail('harness-exception', 'the real code raised outside the guarded calls: ' +
                            err.strip().split('\n')[-1][:200], sc)
            continue
        ml = model_lines(sc, obs)
        for g in GROUPS:
            lines.append(ml[g])
            meta.append((k, g, ml))
    outs = ctx.driver.ask(lines)
    per = {}
    for (k, g, ml), o in zip(meta, outs):
        per.setdefault(k, {})[g] = (o.split(';'), ml)
    for k, (sc, obs, err) in enumerate(res):
        if err is not None:
            continue
        ctx.traces += 1
        ctx.case(json.dumps(sc, sort_keys=True) if nontrivial(sc) else None,
                 {'scenario': {kk: sc[kk] for kk in ('buses', 'gens', 'syns', 'fm', 'users')},
                  'assigned': obs['assigned'], 'setup': obs['setup']})
        verdicts = oracle(sc, obs) + oracle_reset(sc, obs)          # (also records obs['dangling'], used by compare)
        compare(ctx, sc, obs, per[k])
        for key, what in verdicts:
            ctx.oracle_fail(key, what, sc)
        ctx.count('setup:' + obs['setup'].split(':')[0])
        ctx.count('dangling_scenarios', 1 if obs.get('dangling') else 0)
        ctx.count('devices', sum(len(sc[x]) for x in ('areas', 'buses', 'gens', 'pqs', 'syns', 'fm', 'users')))
        ctx.count('finder:%s/%s find=%d add=%d' % (sc['user'], sc['fmode'], sc['auto_find'], sc['auto_add']))
        ctx.count('finder_created', len(parse_new(obs['finder_new'])))
        for g in GROUPS:
            ctx.count('size_%s:%d' % (g, len(obs['rec'][g])))
            for q in sc['queries'].get(g, []):
                ctx.count('op:' + (q[0] if q[0] != 'f' else 'find_%s%s%s' % ('group' if q[1] == 'g' else 'model',
                                                                          '_none' if q[3] else '', '_all' if q[4] else '')))
    return res


def compare(ctx, sc, obs, per):
    def dis(stream, impl, model):
        ctx.disagree(stream, sc, impl, model)

    def refs(ls):
        return lst((lst(l, ',') for l in ls), '/')
    if not obs['groups_ok']:
        dis('group-models', 'group membership changed', '')
    for g in GROUPS:
        out, ml = per[g]
        nq = ml['nq'][g]
        if out[0] != obs['assigned'][g]:
            dis('registry:' + g, obs['assigned'][g], out[0])
        mq = out[1:1 + nq]
        if mq != obs['q_pre'][g]:
            j = [a != b for a, b in zip(mq, obs['q_pre'][g])].index(True) if len(mq) == len(obs['q_pre'][g]) else -1
            dis('lookup:' + g, '%r -> %s' % (sc['queries'][g][j], obs['q_pre'][g][j]), mq[j])
        if 'q_post' in obs and g in obs['q_post'] and mq != obs['q_post'][g]:
            j = [a != b for a, b in zip(mq, obs['q_post'][g])].index(True)
            dis('lookup-after-setup:' + g, '%r -> %s' % (sc['queries'][g][j], obs['q_post'][g][j]), mq[j])
        ctx.count('lookups_compared', nq * (2 if g in obs.get('q_post', {}) else 1))
        rest = out[1 + nq:]
        if g == 'Collection' and rest:
            impl = refs(obs['bref_area'][0]) + '#' + refs(obs['bref_area'][1])
            # model prints group lists # model-0 lists: Area.ACTopology / Area.Bus are both model-level lists
            m = rest[0].split('#')
            if impl != m[1] + '#' + m[1] or m[0] != m[1]:
                dis('backref:Area', impl, rest[0])
            ctx.count('backref_lists', len(obs['bref_area'][0]))
        if g == 'StaticGen':
            if len(rest) == 2:
                impl = '#'.join(refs(x) for x in obs['bref_sg'])
                if impl != rest[0]:
                    dis('backref:StaticGen', impl, rest[0])
                ctx.count('backref_lists', len(obs['bref_sg'][0]))
        if g == 'ACTopology':
            # mandatory bus references: model verdict per referring model; real: set-up outcome + addresses
            if obs['setup'] == 'ok':
                for m, r in zip(('PV', 'Slack', 'PQ'), rest[:3]):
                    impl = ','.join(str(obs['bus_a'].index(a)) for a in obs['a_' + m]) or '-'
                    if impl != r:
                        dis('link:' + m + '.bus', impl, r)
                    ctx.count('links_compared', len(obs['a_' + m]))
        if g == 'FreqMeasurement' and ml['finder_cmp'] and obs['setup'] in ('ok', 'false') and rest:
            impl = lst(obs['finder_v'], ',') + '#' + obs['finder_new']
            # the finder only runs over link.v, which is complete when the links resolved
            if len(obs['user_link']) == len(sc['users']):
                if impl != rest[0]:
                    dis('finder', impl, rest[0])
                ctx.count('finder_compared', len(sc['users']))
    # set-up verdict: the model rejects iff one of the mandatory link operations fails
    m_rej = any(r == 'E' for g in ('ACTopology', 'StaticGen') for r in per[g][0][1 + per[g][1]['nq'][g]:]
                if '#' not in r)
    pq_dang = any(d == 'FLoad.pq' for d in obs.get('dangling', []))
    real_rej = obs['setup'] != 'ok' or 'tds_addr_err' in obs
    if (m_rej or pq_dang) != real_rej:
        dis('setup-verdict', obs['setup'] + ' ' + obs.get('tds_addr_err', ''), 'reject' if m_rej else 'accept')


def check_unique(ctx, res):
    lines, exp = [], []
    for sc, obs, err in res:
        if err is None and 'uniq' in obs:
            lines.append('uniq ' + lst((canon_in(v) for v in sc['uniq']), ','))
            exp.append((sc, ','.join(obs['uniq'])))
    outs = ctx.driver.ask(lines)
    for (sc, e), o in zip(exp, outs):
        ctx.count('unique_param_sequences')
        if e != o:
            ctx.disagree('unique-param', sc['uniq'], e, o)


def corpus_scenarios():
    return [json.load(open(f)) for f in sorted(glob.glob(os.path.join(CORPUS, '*.json')))]


# ------------------------------------------------------------------ optional references into a group (real code only)

OPT_SCRIPT = r"""
import sys, json, logging, warnings
warnings.simplefilter('ignore')
import andes
andes.config_logger(stream_level=50)
spec = json.loads(sys.argv[1])
class Catch(logging.Handler):
    def __init__(self):
        super().__init__(level=logging.ERROR); self.n = 0
    def emit(self, rec):
        self.n += 1
c = Catch(); logging.getLogger('andes').addHandler(c); logging.getLogger().addHandler(c)
ss = andes.load(andes.get_case('kundur/kundur_ieeeg1.json'), setup=False, no_output=True, default_config=True)
gens = list(ss.SynGen.get_all_idxes())
own = ss.IEEEG1.syn.v[0]
val = {'none': None, 'valid': [g for g in gens if g != own][spec['k'] % (len(gens) - 1)],
       'dangling-str': 'GENROU_99', 'dangling-int': 9999}[spec['variant']]
ss.IEEEG1.syn2.v[0] = val
out = {'variant': spec['variant'], 'value': val}
try:
    out['setup'] = bool(ss.setup())
except Exception as e:
    out['setup'] = 'raise:' + type(e).__name__
out['errors_logged'] = c.n
if out['setup'] is True:
    ss.PFlow.run(); ss.TDS.config.no_tqdm = 1
    try:
        ss.TDS.init()
        m = ss.IEEEG1
        out['Sg2'] = float(m.Sg2.v[0]); out['zsyn2'] = float(m.zsyn2.v[0]) if hasattr(m, 'zsyn2') else None
        if val is not None and val in gens:
            out['Sn_target'] = float(ss.SynGen.get('Sn', val, 'v'))
            out['tm2_a'] = int(m.tm2.a[0]); out['tm_target_a'] = int(ss.SynGen.get('tm', val, 'a'))
    except Exception as e:
        out['tds'] = 'raise:' + type(e).__name__
try:
    ss.SynGen.get('Sn', [val, None], allow_none=True, default=0.0)
    out['group_get'] = 'ok'
except Exception as e:
    out['group_get'] = 'raise:' + type(e).__name__
print(json.dumps(out))
"""


def optional_ref_stream(ctx):
    """an OPTIONAL reference into a group (IEEEG1.syn2 -> SynGen): None is a blank, a valid index is resolved to the
    device it names, a non-None index that names no device is REPORTED (never treated as a blank)"""
    import subprocess
    import sys
    for k, variant in enumerate(['none', 'valid', 'dangling-str', 'dangling-int', 'valid']):
        spec = {'variant': variant, 'k': ctx.rng.randrange(100) + k}
        p = subprocess.run([sys.executable, '-c', OPT_SCRIPT, json.dumps(spec)], stdout=subprocess.PIPE, stderr=subprocess.PIPE,
                           text=True, timeout=900)
        case = {'stream': 'optional-reference', 'variant': variant, 'k': spec['k']}
        ctx.case(json.dumps(case, sort_keys=True), case)
        ctx.count('optional_reference:' + variant)
        if p.returncode != 0:
            ctx.oracle_fail('optional-reference-run-raises', 'the optional-reference scenario crashed: ' + p.stderr[-200:], case)
            continue
        r = json.loads(p.stdout.strip().split('\n')[-1])
        if variant.startswith('dangling'):
            reported = r['setup'] is not True or r['errors_logged'] > 0
            if not reported:
                ctx.oracle_fail('dangling-optional-reference-accepted', 'IEEEG1.syn2 = %r names no device of SynGen, yet set-up succeeded '
                                'without any error (Sg2 = %r): the index was treated like a blank' % (r['value'], r.get('Sg2')), case)
            if r['group_get'] == 'ok':
                ctx.oracle_fail('dangling-optional-reference-accepted', 'SynGen.get(Sn, [%r, None], allow_none=True) returned a value for an '
                                'index that names no device' % (r['value'],), case)
        elif variant == 'none':
            if r['setup'] is not True or r['errors_logged'] or r.get('tds'):
                ctx.oracle_fail('blank-optional-reference-rejected', 'a blank optional reference made set-up fail: %r' % r, case)
        else:
            if r['setup'] is not True or r.get('tds'):
                ctx.oracle_fail('valid-optional-reference-rejected', 'a valid optional reference made set-up fail: %r' % r, case)
            elif r.get('Sg2') != r.get('Sn_target') or r.get('tm2_a') != r.get('tm_target_a'):
                ctx.oracle_fail('optional-reference-wrong-device', 'IEEEG1.syn2 = %r: Sg2 = %r (target Sn %r), tm2 at %r (target tm at %r)'
                                % (r['value'], r.get('Sg2'), r.get('Sn_target'), r.get('tm2_a'), r.get('tm_target_a')), case)


def requery_stream(ctx, n):
    """the same look-up by field values asked again AFTER the field was changed through a member model (or the group):
    every answer is the set of devices that have the values NOW (reference: a scan of the field arrays)"""
    import andes
    import numpy as np
    cases = ['kundur/kundur_full.xlsx', 'ieee14/ieee14_full.xlsx']
    for k in range(n):
        case = ctx.rng.choice(cases)
        ss = andes.load(andes.get_case(case), no_output=True, default_config=True, setup=bool(ctx.rng.random() < 0.7))
        gname = ctx.rng.choice(['StaticGen', 'StaticLoad', 'SynGen', 'Exciter', 'TurbineGov'])
        G = ss.groups[gname]
        mdls = [m for m in G.models.values() if m.n > 0]
        if not mdls:
            continue
        field = ctx.rng.choice(['u', 'Sn', 'bus'] if gname in ('StaticGen', 'StaticLoad', 'SynGen') else ['u'])
        if not all(field in m.params for m in mdls):
            continue

        def scan(value):
            return [i for m in G.models.values() for i, v in zip(m.idx.v, m.__dict__[field].v) if v == value]

        def ask(value):
            try:
                r = G.find_idx(field, [value], allow_none=True, default=None, allow_all=True)[0]
                return [x for x in r if x is not None]
            except Exception as e:      # noqa
                return 'ERR:' + type(e).__name__
        m0 = ctx.rng.choice(mdls)
        uid = ctx.rng.randrange(m0.n)
        old = m0.__dict__[field].v[uid]
        old = old.item() if hasattr(old, 'item') else old
        others = [v for m in mdls for v in m.__dict__[field].v if v != old]
        new = (0 if old else 1) if field == 'u' else (ctx.rng.choice(others) if others and ctx.rng.random() < 0.7 else
                                                      (old * 2 + 1 if field == 'Sn' else ss.Bus.idx.v[0]))
        new = new.item() if hasattr(new, 'item') else new
        spec = {'stream': 'requery', 'case': case, 'group': gname, 'field': field, 'model': m0.class_name, 'uid': uid,
                'old': old, 'new': new}
        ctx.case(json.dumps(spec, sort_keys=True, default=str), spec)
        ctx.count('requery_cases')
        bad = None
        for phase in ('before', 'after-model-edit', 'after-group-edit'):
            if phase == 'after-model-edit':
                via = ctx.rng.choice(['alter', 'set'])
                if via == 'alter':
                    m0.alter(field, m0.idx.v[uid], new)
                else:
                    m0.set(field, m0.idx.v[uid], 'v', new)
            elif phase == 'after-group-edit':
                G.set(field, m0.idx.v[uid], 'v', old)
            for value in (old, new):
                got, want = ask(value), scan(value)
                if got != want and bad is None:
                    bad = (phase, value, got, want)
        if bad:
            ctx.oracle_fail('find-stale-after-edit', '%s.find_idx(%r, [%r], allow_all=True) %s returns %r; the devices that have the '
                            'value now are %r' % (gname, field, bad[1], bad[0], bad[2], bad[3]), spec)


REMOTE_SCRIPT = r'''
import sys, json, warnings
warnings.simplefilter('ignore')
import andes
andes.config_logger(stream_level=50)
spec = json.loads(sys.argv[1])
ss = andes.load(andes.get_case('kundur/kundur_ieeest.xlsx'), setup=False, no_output=True, default_config=True)
b0 = ss.Bus.idx.v[0]
new = spec['newbus']                      # idx of an extra bus (0 is a valid numeric idx), tied to the network by a line
ss.add('Bus', dict(idx=new, name='RB', Vn=ss.Bus.Vn.v[0], v0=1.0, a0=0.0))
ss.add('Line', dict(bus1=b0, bus2=new, r=0.001, x=0.02, b=0.0, Vn1=ss.Bus.Vn.v[0], Vn2=ss.Bus.Vn.v[0]))
ss.add('PQ', dict(bus=new, p0=0.05, q0=0.01, Vn=ss.Bus.Vn.v[0]))
own = ss.IEEEST.bus.v[0] if len(ss.IEEEST.bus.v) and ss.IEEEST.bus.v[0] is not None else None
ss.IEEEST.busr.v[0] = {'none': None, 'new': new, 'other': ss.Bus.idx.v[3]}[spec['busr']]
ok = ss.setup()
ss.PFlow.run(); ss.TDS.config.no_tqdm = 1
import io, contextlib
with contextlib.redirect_stdout(io.StringIO()):
    ss.TDS.init()
own = ss.Bus.idx.v[int(ss.Bus.idx2uid(ss.SynGen.get('bus', ss.Exciter.get('syn', ss.IEEEST.avr.v[0], 'v'), 'v')))]
want = own if spec['busr'] == 'none' else ss.IEEEST.busr.v[0]
uid = int(ss.Bus.idx2uid(want))
fi = ss.IEEEST.busfreq.v[0]
print(json.dumps({'setup': bool(ok), 'want': want, 'buss': ss.IEEEST.buss.v[0], 'v_a': int(ss.IEEEST.v.a[0]), 'want_v_a': int(ss.Bus.v.a[uid]),
                  'busf_bus': ss.BusFreq.get('bus', fi, 'v'), 'n_busfreq_on_want': sum(1 for b in ss.BusFreq.bus.v if b == want)}, default=str))
'''


def _same_idx(a, b):
    """1 and 1.0 name the same device; a string never equals a number"""
    na, nb = isinstance(a, (int, float)), isinstance(b, (int, float))
    return (float(a) == float(b)) if (na and nb) else (a == b and na == nb)


def remote_bus_stream(ctx):
    """an OPTIONAL remote-bus reference read through DataSelect (IEEEST.busr): blank -> the device's own bus; a valid
    idx (numeric ZERO included) -> that bus, for the voltage input AND for the frequency helper found or created"""
    import subprocess
    import sys
    for busr, newbus in (('none', 0), ('new', 0), ('new', ctx.rng.choice([77, 123])), ('other', 0)):
        spec = {'busr': busr, 'newbus': newbus}
        p = subprocess.run([sys.executable, '-c', REMOTE_SCRIPT, json.dumps(spec)], stdout=subprocess.PIPE, stderr=subprocess.PIPE,
                           text=True, timeout=900)
        case = dict(spec, stream='remote-bus')
        ctx.case(json.dumps(case, sort_keys=True), case)
        ctx.count('remote_bus:%s:%s' % (busr, newbus))
        if p.returncode != 0:
            last = p.stderr.strip().split('\n')[-1]
            ctx.oracle_fail('remote-bus-run-raises', 'the remote-bus scenario crashed: ' + last[:200], case)
            continue
        r = json.loads(p.stdout.strip().split('\n')[-1])
        if not r['setup']:
            ctx.oracle_fail('valid-optional-reference-rejected', 'a valid (or blank) remote-bus reference made set-up fail: %r' % r, case)
        elif not _same_idx(r['buss'], r['want']) or r['v_a'] != r['want_v_a'] or not _same_idx(r['busf_bus'], r['want']):
            ctx.oracle_fail('optional-reference-wrong-device', 'IEEEST.busr = %r (own bus otherwise): selected bus %r, voltage input at address '
                            '%r (bus %r sits at %r), frequency helper on bus %r' % (None if busr == 'none' else r['want'], r['buss'], r['v_a'],
                                                                                 r['want'], r['want_v_a'], r['busf_bus']), case)


def run(ctx):
    import andes
    andes.config_logger(stream_level=50)
    requery_stream(ctx, ctx.n(12, 80))
    remote_bus_stream(ctx)
    scs = corpus_scenarios()
    ctx.count('corpus', len(scs))
    scs += [gen_scenario(ctx.rng) for _ in range(ctx.n(100, 1500))]
    res = check_scenarios(ctx, scs)
    check_unique(ctx, res)
    optional_ref_stream(ctx)
    files = {'GroupBase.add': 'andes/models/group.py', 'GroupBase.get_next_idx': 'andes/models/group.py',
             'GroupBase.find_idx': 'andes/models/group.py', 'GroupBase.set_backref': 'andes/models/group.py',
             'GroupBase.idx2uid': 'andes/models/group.py', 'GroupBase.idx2model': 'andes/models/group.py',
             'System.add': 'andes/system.py', 'System.collect_ref': 'andes/system.py',
             'System.find_devices': 'andes/system.py', 'System.link_ext_param': 'andes/system.py',
             'ModelData.add': 'andes/core/model/modeldata.py', 'ModelData.find_idx': 'andes/core/model/modeldata.py',
             'Model.set_backref': 'andes/core/model/model.py', 'IdxParam.add': 'andes/core/param.py',
             'DeviceFinder.find_or_add': 'andes/core/service.py'}
    ctx.cov['source_hashes'] = {k: C.hash_source(os.path.join(C.REPO, f), k) for k, f in files.items()}


def search(ctx):
    rng = random.Random(ctx.seed * 7919 + 19)
    scs = [d['case'] for d in ctx.disagreements[:40] if isinstance(d['case'], dict) and 'gens' in d['case']]
    scs += [gen_scenario(rng) for _ in range(ctx.n(600, 3000))]
    for sc, obs, err in run_many(scs):
        if err is None:
            for key, what in oracle(sc, obs) + oracle_reset(sc, obs):
                ctx.oracle_fail(key, what, sc)


def replay(ctx, rep):
    sc = rep.get('case', rep)          # a replay file, or a bare corpus scenario
    sc2, obs, err = _worker(sc)
    if err:
        print(err)
        return False
    bad = oracle(sc, obs) + oracle_reset(sc, obs)
    for key, what in bad:
        print('  ', key, what)
    return not bad
