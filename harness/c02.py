"""C02 — generated numerical code computes exactly the declared model equations.

Lean: lean/Andes/Gen/M_<Model>.lean is REGENERATED on every run by translator/models.py from the model
declarations of /repo's working tree and from the pycode that System.prepare() generates from them now:
one theorem per scalar output `evalR ρ generated = evalR ρ declared` (deep embedding Andes.Expr, real
semantics, proved by the fixed tactic portfolio `andes_equiv`).  Obligations outside the portfolio's
fragment are listed (name + text hash) in translator/baseline_unproved.json and covered numerically only.
Correspondence / oracle on the real code: (a) every LOADED generated function of every model is called
with structured random arguments and compared with `evalF` of the declared string, evaluated by the Lean
driver (the independent evaluator); (b) on stock cases the real Model.f_update / g_update deliver each
value to the variable it was declared for; (c) regenerating code from the unchanged tree is byte-identical;
(d) pycode whose md5 no longer matches the model is regenerated before use."""
import glob
import hashlib
import json
import math
import os
import shutil
import subprocess
import sys

from harness import common as C

PROP_MODULES = ['Andes.Props.C02']
RULE = ('obligation = one scalar output of one generated function of one model (f/g residuals, explicit and iterative '
        'initialisers, services); numeric case = (model, function, argument environment) with flags in {0,1}, dae_t on '
        'both sides of 0, values on both sides of every piecewise breakpoint where random sampling reaches them; '
        'distinct = distinct (model, function, output, environment); non-trivial = finite value on both sides')
ASSUMPTIONS = [
    'real-number semantics: x/0 = 0, sqrt/log of non-positive arguments are Lean junk values; obligations are unconditional identities of that semantics',
    'complex-valued services are expanded into real and imaginary parts by the translator (same rules on both sides)',
    'obligations listed in translator/baseline_unproved.json (true identities outside the tactic portfolio) are covered by the numerical correspondence only',
    'SymPy itself is not trusted: its output is what is checked',
]
CLEAN_REBUILD = False
LEANCHECKER = False


def pycode_dir():
    return os.path.join(os.environ['HOME'], '.andes', 'pycode')


def generate(ctx):
    from translator import models
    C.ensure_pycode()
    s = models.generate(C.LEAN, C.WORK, pycode_dir(), kinds=('M',))
    ctx.cov['models'] = s['models']
    ctx.cov['generated_functions'] = s['functions']
    ctx.cov['generated_functions_covered'] = s['functions_covered']
    ctx.cov['outside_fragment'] = s['value_excluded']
    ctx.cov['hand_written_numeric_callbacks'] = s['hand_written']
    ctx.cov['untranslated'] = [list(x) for x in s['skipped'][:40]]
    for name, why in s['skipped']:
        ctx.broken.append('translator: %s: %s' % (name, why))
    if s['functions'] != s['functions_covered']:
        ctx.broken.append('coverage: %d generated functions, %d matched to declarations' % (s['functions'], s['functions_covered']))
    ctx._gen = s
    return {'modules': s['m_modules'], 'theorems': s['m_names']}


# ---------------------------------------------------------------- numeric correspondence

def gen_env(rng, sym, complex_names):
    env = [0.0] * len(sym)
    for name, i in sym.items():
        base = name.split('.')[0]
        r = rng.random()
        if name in ('dae_t',):
            v = rng.choice([-1.0, 0.0, 0.7, 3.0])
        elif base.endswith(('_zi', '_zl', '_zu', '_z0', '_z1', '_s0', '_s1', '_s2', '_s3', '_s4', '_s5')) or base in ('u', 'ue', 'zf'):
            v = float(rng.choice([0, 1]))
        elif r < 0.07:
            v = 0.0          # exact zeros: the zero-divisor branch of safe_div, indicator terms at their edge
        elif r < 0.75:
            v = rng.uniform(0.2, 2.0)
        elif r < 0.9:
            v = rng.uniform(-2.0, -0.2)
        else:
            v = rng.choice([0.433, 0.75, 1.0, 0.5, 0.9, 1.1, 60.0, 1e-3])
        env[i] = v
    return env


def zero_divisors(mdl):
    """names that occur as the divisor of a safe_div(.., name) in a declared string of the model"""
    import re
    out = []
    strs = []
    for coll in (mdl.states, mdl.algebs, mdl.services, mdl.states_ext, mdl.algebs_ext):
        for it in coll.values():
            strs += [getattr(it, a, None) for a in ('e_str', 'v_str')]
    for blk in mdl.blocks.values():
        for it in getattr(blk, 'vars', {}).values():
            strs += [getattr(it, a, None) for a in ('e_str', 'v_str')]
    for t in strs:
        if isinstance(t, str) and 'safe_div' in t:
            out += re.findall(r'safe_div\([^,()]*(?:\([^()]*\))?[^,()]*,\s*([A-Za-z_][A-Za-z_0-9]*)\s*\)', t)
    return sorted(set(out))


def call_loaded(func, args, env, sym, complex_names):
    import numpy as np
    vals = []
    for a in args:
        if a == '__zeros':
            vals.append(0.0)
        elif a == '__ones':
            vals.append(1.0)
        elif a == '__falses':
            vals.append(False)
        elif a == '__trues':
            vals.append(True)
        elif a in complex_names:
            vals.append(complex(env[sym[a + '.re']] if a + '.re' in sym else 0.0, env[sym[a + '.im']] if a + '.im' in sym else 0.0))
        else:
            vals.append(np.float64(env[sym[a]] if a in sym else 0.0))   # NumPy semantics (x/0 = inf), as in the real calls
    # released small blocks are handed out again by NumPy's allocator cache: fill some with a sentinel first, so that a
    # function which returns memory it never wrote (np.empty where np.zeros is meant) shows it
    junk = [np.full(1, 1002.5) for _ in range(48)] + [np.array(1002.5) for _ in range(16)]
    del junk
    with np.errstate(all='ignore'):
        return func(*vals)


def flatten(ret):
    import numpy as np
    if isinstance(ret, tuple):
        return [np.asarray(r).ravel()[0] if np.size(r) else float('nan') for r in ret]
    a = np.asarray(ret)
    return [x for x in a.ravel()]


def numeric_stream(ctx, nenv):
    import numpy as np
    import andes
    ss = andes.System(default_config=True)
    lines, meta = [], []
    for f in sorted(glob.glob(os.path.join(C.WORK, 'gen', '*.json'))):
        if os.path.basename(f).startswith('_'):
            continue
        g = json.load(open(f))
        name = g['model']
        m = ss.models.get(name)
        if m is None:
            continue
        sym, cx = g['sym'], set(g['complex'])
        envs = [gen_env(ctx.rng, sym, cx) for _ in range(nenv)]
        # the zero-divisor branch of safe_div: one more point per divisor, with that divisor exactly zero
        for zn in zero_divisors(m):
            if zn in sym:
                e = gen_env(ctx.rng, sym, cx)
                e[sym[zn]] = 0.0
                envs.append(e)
        env_txt = ' ; '.join(','.join(C.f2h(v) for v in e) if e else '-' for e in envs)
        for fn in g['functions']:
            func = loaded_function(m, fn['fn'])
            if func is None:
                if fn['fn'].endswith('_svc') and getattr(m.services.get(fn['fn'][:-4]), 'v_str', 1) is None:
                    ctx.count('constant_zero_service_not_loaded')     # declared without v_str: value stays 0, by design
                    continue
                if fn['fn'].endswith(('_ii', '_ij')):
                    ctx.oracle_fail('iterative-initialiser-generated-but-never-loaded:%s' % name,
                                    '%s.%s: the declared iterative initialiser (v_iter of a single variable) is generated into pycode but '
                                    'System._expand_pycode loads *_ii/*_ij only for variable GROUPS, so Model.init silently skips it'
                                    % (name, fn['fn']), {'model': name, 'fn': fn['fn']})
                    continue
                ctx.oracle_fail('generated-function-not-loaded:%s.%s' % (name, fn['fn']),
                                'loaded function %s.%s is missing although a pycode definition exists' % (name, fn['fn']), {'model': name, 'fn': fn['fn']})
                continue
            try:
                rets = [flatten(call_loaded(func, fn['args'], e, sym, cx)) for e in envs]
            except Exception as ex:
                ctx.oracle_fail('loaded-function-raises', 'loaded %s.%s raised %s' % (name, fn['fn'], repr(ex)[:120]), {'model': name, 'fn': fn['fn']})
                continue
            for k, out in enumerate(fn['outs']):
                if out is None:
                    continue
                for part, sexp in enumerate(out):
                    vals = []
                    for r in rets:
                        v = r[k] if k < len(r) else float('nan')
                        vals.append((v.real if part == 0 else v.imag) if isinstance(v, complex) or np.iscomplexobj(v) else
                                    (float(v) if part == 0 else 0.0))
                    lines.append('ev %s | %s' % (sexp, env_txt))
                    meta.append((name, fn['fn'], k, part, vals, envs))
    outs = ctx.driver.ask(lines)
    nfinite = 0
    for (name, fn, k, part, vals, envs), o in zip(meta, outs):
        if o in ('bad-expr',):
            ctx.broken.append('driver cannot parse the declared expression of %s.%s[%d]' % (name, fn, k))
            continue
        mv = [C.h2f(x) if len(x) == 16 else float('nan') for x in o.split(',')]
        for j, (a, b) in enumerate(zip(vals, mv)):
            ctx.evaluations += 1
            a = float(a)
            if not (math.isfinite(a) and math.isfinite(b)):
                ctx.count('non_finite_skipped')
                continue
            nfinite += 1
            if len(ctx.sigs) < 200000:
                ctx.sigs.add((name, fn, k, part, j))
            if abs(a - b) > 1e-8 * (1 + abs(a) + abs(b)):
                ctx.oracle_fail('generated-differs-from-declared:%s.%s[%d]' % (name, fn, k),
                                '%s.%s output %d: loaded generated code returns %r, the declared equation evaluates to %r'
                                % (name, fn, k, a, b),
                                {'model': name, 'fn': fn, 'output': k, 'part': part,
                                 'env': dict((n, envs[j][i]) for n, i in json.load(open(os.path.join(C.WORK, 'gen', name + '.json')))['sym'].items())})
    ctx.count('numeric_points_finite', nfinite)
    if len(ctx.samples) < 3 and meta:
        name, fn, k, part, vals, envs = meta[len(meta) // 2]
        ctx.samples.append({'model': name, 'function': fn, 'output': k, 'loaded_values': [float(v) for v in vals[:3]]})


def loaded_function(m, fn):
    c = m.calls
    if fn == 'f_update':
        return c.f
    if fn == 'g_update':
        return c.g
    if fn == 'sns_update':
        return c.sns
    if fn.endswith('_svc'):
        return c.s.get(fn[:-4])
    if fn.endswith('_ia'):
        return c.ia.get(fn[:-3])
    if fn.endswith('_ii'):
        return c.ii.get(fn[:-3])
    if fn.endswith('_ij'):
        return c.ij.get(fn[:-3])
    if fn.endswith('_update'):
        return c.j.get(fn[:-7])
    return None


# ---------------------------------------------------------------- delivery on live systems

def delivery_stream(ctx):
    """each residual value must land in the `e` array of the variable it was declared for"""
    import numpy as np
    import andes
    cases = ['kundur/kundur_full.xlsx', 'ieee14/ieee14_full.xlsx']
    if ctx.thorough:
        cases += ['ieee39/ieee39_full.xlsx', 'wecc/wecc_full.xlsx', 'ieee14/ieee14_pvd1.xlsx']
    lines, meta = [], []
    for case in cases:
        ss = andes.load(andes.get_case(case), no_output=True, default_config=True)
        ss.PFlow.run()
        ss.TDS.config.no_tqdm = 1
        ss.TDS.init()
        ss.dae.t = np.array(0.5)
        for name, m in ss.exist.pflow_tds.items():
            gp = os.path.join(C.WORK, 'gen', name + '.json')
            if m.n == 0 or not os.path.exists(gp):
                continue
            g = json.load(open(gp))
            sym = g['sym']
            m.get_inputs(refresh=True)
            inputs = m._input
            env = [0.0] * len(sym)
            ok = True
            for nm, i in sym.items():
                base, _, part = nm.partition('.')
                if base == 'dae_t':
                    env[i] = float(ss.dae.t)
                    continue
                v = inputs.get(base)
                if v is None:
                    v = getattr(ss.config, base, None) if base in ('sys_f', 'sys_mva') else None
                    if base == 'sys_f':
                        v = ss.config.freq
                    if base == 'sys_mva':
                        v = ss.config.mva
                if v is None:
                    ok = False
                    break
                x = np.ravel(v)[0] if np.size(v) else 0.0
                env[i] = float(np.real(x) if part != 'im' else np.imag(x))
            if not ok:
                ctx.count('delivery_skipped_model')
                continue
            for fname, vlist, upd in (('f_update', m.cache.states_and_ext, m.f_update), ('g_update', m.cache.algebs_and_ext, m.g_update)):
                fn = [f for f in g['functions'] if f['fn'] == fname]
                if not fn:
                    continue
                for var in vlist.values():
                    var.e[:] = 0.0
                upd()
                for k, ((vn, var), out) in enumerate(zip(vlist.items(), fn[0]['outs'])):
                    if out is None or np.size(var.e) == 0:
                        continue
                    lines.append('ev %s | %s' % (out[0], ','.join(C.f2h(v) for v in env)))
                    meta.append((case, name, fname, vn, float(np.ravel(var.e)[0])))
    outs = ctx.driver.ask(lines)
    for (case, name, fname, vn, got), o in zip(meta, outs):
        exp = C.h2f(o) if len(o) == 16 else float('nan')
        ctx.evaluations += 1
        if not (math.isfinite(exp) and math.isfinite(got)):
            continue
        ctx.count('delivered_values_checked')
        ctx.sigs.add(('deliver', case, name, vn))
        if abs(exp - got) > 1e-8 * (1 + abs(exp) + abs(got)):
            ctx.oracle_fail('value-delivered-to-wrong-equation:%s.%s' % (name, vn),
                            '%s in %s: after %s the equation array of %s holds %r, its declared equation evaluates to %r'
                            % (name, case, fname, vn, got, exp), {'case': case, 'model': name, 'var': vn})


# ---------------------------------------------------------------- regeneration identity / staleness

REGEN = r'''
import sys, os, json, warnings
warnings.simplefilter('ignore')
import andes
andes.config_logger(stream_level=50)
mode = sys.argv[1]
if mode == 'prepare':
    ss = andes.System(no_undill=True); ss.prepare(quick=False, incremental=False)
elif mode == 'stale':
    ss = andes.load(andes.get_case('5bus/pjm5bus.xlsx'), no_output=True, default_config=True)
    print('PFLOW', ss.PFlow.run())
elif mode == 'prepare_one':
    ss = andes.System(); ss.prepare(quick=True, models=[sys.argv[2]], nomp=True)
elif mode == 'extedit':
    # the source of a model is edited (emulated by patching its constructor): the equation of an EXTERNAL
    # variable changes; the code on disk was generated before the edit
    import numpy as np
    from andes.models.shunt import shunt as sh
    orig = sh.ShuntModel.__init__
    def patched(self, system=None, config=None):
        orig(self, system, config)
        self.v.e_str = '3 * (' + self.v.e_str + ')'
    sh.ShuntModel.__init__ = patched
    ss = andes.System(default_config=True)
    m = ss.Shunt
    args = [1.0 + 0.1 * k for k in range(len(m.calls.g_args))]
    ret = m.calls.g(*args)
    sh.ShuntModel.__init__ = orig
    s0 = andes.System(default_config=True, no_undill=True)
    print('EXTEDIT', json.dumps({'args': m.calls.g_args, 'ret': [float(np.ravel(r)[0]) for r in ret]}))
elif mode == 'instedit':
    # an equation is edited on a LIVE System (whose code has been loaded and whose checksums may have been computed),
    # then the documented incremental regeneration is asked for: the functions in use afterwards must be those of the
    # edited declaration
    import numpy as np
    ss = andes.System(default_config=True)
    m = ss.Shunt
    m.get_md5()
    m.v.e_str = '5 * (' + m.v.e_str + ')'
    ss.prepare(quick=True, incremental=True, nomp=True)
    args = [1.0 + 0.1 * k for k in range(len(m.calls.g_args))]
    ret = m.calls.g(*args)
    print('INSTEDIT', json.dumps({'args': m.calls.g_args, 'ret': [float(np.ravel(r)[0]) for r in ret]}))
elif mode == 'fresh':
    # a later session with the pristine model: whatever an earlier session left on disk, the functions loaded now must be
    # those of the pristine declaration
    import numpy as np
    ss = andes.System(default_config=True)
    m = ss.Shunt
    args = [1.0 + 0.1 * k for k in range(len(m.calls.g_args))]
    ret = m.calls.g(*args)
    print('FRESH', json.dumps({'args': m.calls.g_args, 'ret': [float(np.ravel(r)[0]) for r in ret]}))
'''


def file_hashes(d):
    out = {}
    for f in sorted(glob.glob(os.path.join(d, '*.py'))):
        data = open(f, 'rb').read()
        if os.path.basename(f) == '__init__.py':
            # the package file starts with `__version__ = '<andes.__version__>'`, which versioneer derives from
            # `git describe --dirty` at import time: a stamp of the checkout, not code generated from the models
            data = b'\n'.join(ln for ln in data.split(b'\n') if not ln.startswith(b'__version__'))
        out[os.path.basename(f)] = hashlib.sha1(data).hexdigest()
    return out


def regen_stream(ctx):
    home2 = os.path.join(C.WORK, 'home-regen')
    shutil.rmtree(home2, ignore_errors=True)
    os.makedirs(home2)
    env = dict(os.environ, HOME=home2)
    p = subprocess.run([sys.executable, '-c', REGEN, 'prepare'], env=env, cwd=home2, stdout=subprocess.PIPE, stderr=subprocess.PIPE, text=True, timeout=1800)
    a, b = file_hashes(pycode_dir()), file_hashes(os.path.join(home2, '.andes', 'pycode'))
    ctx.evaluations += 1
    ctx.count('regenerated_files', len(b))
    if p.returncode != 0 or not b:
        ctx.oracle_fail('regeneration-fails', 'System.prepare() failed in a fresh home: ' + p.stderr[-300:], {})
    else:
        diff = sorted(k for k in set(a) | set(b) if a.get(k) != b.get(k))
        if diff:
            ctx.oracle_fail('regeneration-not-identical', 'regenerating code from the unchanged model gives different files: %s' % diff[:6], {'files': diff[:20]})
    # staleness: a pycode file whose md5 does not match the model must not be used silently
    pq = os.path.join(home2, '.andes', 'pycode', 'PQ.py')
    if os.path.exists(pq):
        src = open(pq).read()
        tampered = src.replace('md5 = "', 'md5 = "00', 1).replace('p0*vcmp_zi', '7*p0*vcmp_zi')
        open(pq, 'w').write(tampered)
        p = subprocess.run([sys.executable, '-c', REGEN, 'stale'], env=env, cwd=home2, stdout=subprocess.PIPE, stderr=subprocess.PIPE, text=True, timeout=1800)
        ctx.evaluations += 1
        now = open(pq).read()
        if '7*p0*vcmp_zi' in now or p.returncode != 0:
            ctx.oracle_fail('stale-code-used', 'pycode/PQ.py with a non-matching md5 (and an altered equation) was used without regeneration', {})
        else:
            ctx.count('stale_file_regenerated')
    # (b) a file whose md5 line matches the model but whose BODY differs: regenerating code for the unchanged model
    #     must restore the generated body
    sh = os.path.join(home2, '.andes', 'pycode', 'Shunt.py')
    if os.path.exists(sh):
        good = open(sh).read()
        open(sh, 'w').write(good + '\n\ndef g_update(*args):\n    return tuple(7.0 for _ in range(2))\n')
        p = subprocess.run([sys.executable, '-c', REGEN, 'prepare_one', 'Shunt'], env=env, cwd=home2, stdout=subprocess.PIPE, stderr=subprocess.PIPE, text=True, timeout=1800)
        ctx.evaluations += 1
        if p.returncode != 0:
            ctx.oracle_fail('regeneration-fails', 'prepare(models=[Shunt]) failed: ' + p.stderr[-300:], {})
        elif open(sh).read() != good:
            ctx.oracle_fail('regeneration-keeps-foreign-body', 'pycode/Shunt.py with the right md5 line but an altered body is kept by an explicit '
                            'regeneration of the unchanged model (the altered code would be loaded)', {})
        else:
            ctx.count('altered_body_restored')
        open(sh, 'w').write(good)
    # (c) the equation of an EXTERNAL variable is edited after the code was generated: the edit must be noticed
    p = subprocess.run([sys.executable, '-c', REGEN, 'extedit'], env=env, cwd=home2, stdout=subprocess.PIPE, stderr=subprocess.PIPE, text=True, timeout=1800)
    ctx.evaluations += 1
    line = [l for l in p.stdout.split('\n') if l.startswith('EXTEDIT')]
    if p.returncode != 0 or not line:
        ctx.oracle_fail('stale-check-raises', 'loading a system after a model edit raised: ' + p.stderr[-300:], {})
    else:
        r = json.loads(line[0][8:])
        a = dict(zip(r['args'], [1.0 + 0.1 * k for k in range(len(r['args']))]))
        # declared (edited) equation of Shunt.v:  3 * (-u * v**2 * b)
        exp = 3 * (-a['u'] * a['v'] ** 2 * a['b'])
        got = r['ret'][1]
        if abs(got - exp) > 1e-9 * (1 + abs(exp)):
            ctx.oracle_fail('stale-code-used-after-ext-edit', 'after editing the equation of the external variable Shunt.v the loaded g_update returns '
                            '%r, the edited declaration gives %r: code that no longer matches the model was used silently' % (got, exp), {})
        else:
            ctx.count('ext_edit_noticed')
    # (d) an equation edited on a live System + incremental regeneration, then (e) a fresh session with the pristine model
    for mode, tag, fac, key in (('instedit', 'INSTEDIT', 5, 'stale-code-used-after-instance-edit'),
                                ('fresh', 'FRESH', 1, 'stale-code-loaded-by-later-session')):
        p = subprocess.run([sys.executable, '-c', REGEN, mode], env=env, cwd=home2, stdout=subprocess.PIPE, stderr=subprocess.PIPE, text=True, timeout=1800)
        ctx.evaluations += 1
        line = [l for l in p.stdout.split('\n') if l.startswith(tag)]
        if p.returncode != 0 or not line:
            ctx.oracle_fail('stale-check-raises', '%s: regenerating / loading after an edit on a live System raised: %s' % (mode, p.stderr[-300:]), {})
            continue
        r = json.loads(line[0][len(tag) + 1:])
        a = dict(zip(r['args'], [1.0 + 0.1 * k for k in range(len(r['args']))]))
        exp = fac * (-a['u'] * a['v'] ** 2 * a['b'])
        got = r['ret'][1]
        if abs(got - exp) > 1e-9 * (1 + abs(exp)):
            ctx.oracle_fail(key, '%s: the loaded Shunt g_update returns %r for the reactive injection, the declaration in force gives %r: code that '
                            'does not match the model is used silently' % (mode, got, exp), {'mode': mode})
        else:
            ctx.count('instance_edit_regenerated' if mode == 'instedit' else 'fresh_session_loads_pristine_code')
    shutil.rmtree(home2, ignore_errors=True)


def run(ctx):
    import andes
    andes.config_logger(stream_level=50)
    numeric_stream(ctx, ctx.n(3, 12))
    delivery_stream(ctx)
    regen_stream(ctx)


def search(ctx):
    numeric_stream(ctx, 25)


def replay(ctx, rep):
    print('replay: numeric comparison for', json.dumps(rep.get('case'))[:400])
    return True
