"""C15 — stored and exported results are the simulated values, complete and labelled.

Lean: Andes/Props/C15.lean (model Andes/Model/Store.lean).
Tie: the REAL TDS.run() is driven with scripted integrator verdicts (harness/tds_stub.Script); the stub writes
recognisable values into dae.x / dae.y at every accepted step and records (t, x, y).  Output files are
enabled in a scratch directory; after every (resumed) run the real in-memory dicts, idx_ptr, _write_append,
kcount and the npz file are rendered and compared bit-for-bit with the Lean model run on the same accepted
steps and settings.  Further streams: System.set_output_subidx, write_lst labels, Output.to_output_addr /
DAETimeSeries.get_data / TDSData._process_yidx, TDSData.find, csv replay (TDS.run(from_csv=...)).
An oracle that does not use the model evaluates the property on everything read back (memory, npz, lst,
TDSData file/memory mode, export_csv, queries, replay)."""
import glob
import json
import os
import random
import shutil
import tempfile

from harness import common as C
from harness import tds_stub as T
from harness.common import f2h

PROP_MODULES = ['Andes.Props.C15']
RULE = ('scenario = (case, 1-3 resumed segments, step size / fixed or variable, 0-2 Toggle events, scripted integrator '
        'verdicts, save_every in {0,1,2,3,5,7}, limit_store, max_store in {1,2,3,5,8,900}, output files on/off, '
        'save_mode auto/manual (+ final save_output), 0-3 Output rows incl. whole model / one variable / one device / '
        'external (non-monotone) variables / invalid rows, 0-4 queries by variable and device subset, name patterns); '
        'csv scenario = (selection, time column incl. t0 != 0, repeated times, 1-2 rows, storage settings); '
        'distinct = distinct scenario; non-trivial = at least 3 accepted steps and (thinning or off-loading or a '
        'selection or a resumed segment), resp. a csv with at least 3 rows')
ASSUMPTIONS = [
    'the accepted steps (t_k, x_k, y_k) are an arbitrary input of the model (integrator and time grid: C04/C06)',
    'npz / csv encoders (np.savez_compressed, np.savetxt, pandas.read_csv) and the regular-expression engine are '
    'exercised by the read-back oracle, not modelled',
    'Nodup hypothesis: the stamps of the kept steps are pairwise distinct (Lean witness same_stamp_collapses)',
    'store_z/store_f/store_h/store_i = 0 (defaults); z columns are outside the model',
]
CORPUS = os.path.join(C.ROOT, 'corpus', 'c15')
TMP = os.path.join(C.WORK, 'c15-tmp-%d' % os.getpid())

# (model, varname, dev position or None); model names that do not exist in a case are "invalid rows" there
OUT_ROWS = [
    [('GENCLS', 'omega', None), ('GENCLS', None, None), ('Bus', 'v', None), ('Bus', 'v', 2), ('Bus', None, 3),
     ('Bus', 'a', 3), ('Line', 'a2', None), ('Line', 'v1', None), ('PQ', 'v', None), ('GENCLS', 'v', None),
     ('GENCLS', 'delta', 1), ('Nope', None, None), ('Bus', 'zz', None), ('Bus', 'v', 'bogus'), ('Toggle', None, None),
     ('PV', None, None), ('GENCLS', 'omega', 0)],
    [('GENROU', 'omega', None), ('GENROU', 'delta', 2), ('Bus', 'v', None), ('Bus', 'a', 5), ('Line', 'a1', None),
     ('TGOV1', None, None), ('ESST3A', 'vf', None), ('GENROU', 'v', None), ('Nope', None, None), ('Bus', 'v', 'bogus'),
     ('EXDC2', None, 0), ('PQ', 'a', None)],
]
QUERIES = [
    [('GENCLS', 'omega'), ('GENCLS', 'delta'), ('Bus', 'v'), ('Bus', 'a'), ('Line', 'a2'), ('Line', 'v1'), ('PQ', 'v'),
     ('GENCLS', 'v'), ('GENCLS', 'Pe')],
    [('GENROU', 'omega'), ('GENROU', 'delta'), ('Bus', 'v'), ('Bus', 'a'), ('Line', 'a1'), ('TGOV1', 'pout'),
     ('GENROU', 'v'), ('PQ', 'a')],
]
PATTERNS = ['omega', 'Bus', 'v Bus', 'GENCLS 2', 'delta', 'a Bus 3', 'GENROU', 'Time', 'xyzzy', 'Pe', 'vf']


# ------------------------------------------------------------------ scenario generation

def gen_scenario(rng):
    sc = {}
    sc['case'] = 0 if rng.random() < 0.88 else 1
    sc['sysfreq'] = 60
    sc['t0'] = 0.0
    tf = rng.choice([0.1, 0.2, 0.3, 0.5, 0.7, 1.0, 1.0])
    sc['fixt'] = 1 if rng.random() < 0.8 else 0
    sc['tstep'] = rng.choice([1 / 30, 1 / 30, 0.05, 0.1, 0.02]) if sc['fixt'] else 1 / 30
    if not sc['fixt']:
        tf = min(tf, 0.3)
    sc['shrinkt'] = 1
    ev = []
    for _ in range(rng.choice([0, 0, 1, 1, 2])):
        ev.append({'t': float(round(rng.uniform(0.01, tf), rng.choice([1, 2, 3]))), 'u': 1, 'line': rng.randrange(5)})
    sc['events'] = ev
    nseg = rng.choice([1, 1, 1, 2, 2, 3])
    cuts = set()
    for _ in range(nseg - 1):
        r = rng.random()
        if r < 0.3 and ev:
            cuts.add(ev[rng.randrange(len(ev))]['t'] + rng.choice([0.0, -1e-4, 1e-4]))
        elif r < 0.4:
            cuts.add(tf)
        else:
            cuts.add(round(rng.uniform(0.0, tf), rng.choice([1, 2, 3])))
    tfs = sorted(c for c in cuts if c > 0) + [tf]
    if nseg > 1 and rng.random() < 0.08:
        tfs.append(tfs[0])
    sc['tfs'] = [float(x) for x in tfs]
    sc['vmode'] = rng.choice(['accept', 'accept', 'accept', 'mixed', 'mixed', 'bursts', 'nan', 'crit'])
    sc['vseed'] = rng.randrange(1 << 30)
    sc['save_every'] = rng.choice([1, 1, 1, 1, 2, 2, 3, 5, 7, 0])
    sc['limit_store'] = 1 if rng.random() < 0.55 else 0
    sc['max_store'] = rng.choice([1, 2, 3, 3, 5, 8, 900])
    sc['output'] = 1 if rng.random() < 0.88 else 0
    sc['save_mode'] = 'auto' if rng.random() < 0.85 else 'manual'
    sc['final_save'] = 1 if (sc['save_mode'] == 'manual' and sc['output'] and rng.random() < 0.75) else 0
    rows = []
    if rng.random() < 0.6:
        for _ in range(rng.choice([1, 1, 2, 3])):
            rows.append(list(rng.choice(OUT_ROWS[sc['case']])))
    sc['out_rows'] = rows
    qs = []
    for _ in range(rng.choice([0, 1, 2, 4])):
        m, v = rng.choice(QUERIES[sc['case']])
        r = rng.random()
        sub = None if r < 0.45 else [rng.randrange(4) for _ in range(rng.choice([1, 1, 2]))]
        qs.append([m, v, sub])
    sc['queries'] = qs
    sc['patterns'] = [rng.choice(PATTERNS) for _ in range(rng.choice([1, 2]))]
    return sc


def nontrivial(sc, obs):
    return len(obs['rec']) >= 3 and (sc['save_every'] > 1 or sc['limit_store'] or obs['sel'] is not None
                                     or len(sc['tfs']) > 1)


# ------------------------------------------------------------------ running the real code

def _dev_of(mdl, pos):
    if pos is None:
        return None
    if isinstance(pos, int):
        return mdl.idx.v[pos % mdl.n] if mdl is not None and mdl.n else pos
    return pos


def _snapshot(ss, npz, nsteps):
    """what the real objects hold right now (without touching the lazily unpacked attributes)"""
    import numpy as np
    dae = ss.dae
    ts = dae.ts
    keys = list(ts._ys.keys())
    mem = [(float(k), [float(v) for v in ts._xs[k]] + [float(v) for v in ts._ys[k]]) for k in keys]
    frows = None
    if npz and os.path.exists(npz):
        d = np.load(npz)['data']
        frows = [(float(r[0]), [float(v) for v in r[1:]]) for r in d]
    return {'mem': mem, 'file': frows, 'ptr': int(ts.idx_ptr), 'app': bool(dae._write_append),
            'k': int(dae.kcount), 'nsteps': nsteps, 'keys_x_eq_y': list(ts._xs.keys()) == keys}


def run_case(sc):
    """the real TDS.run on the scenario; returns JSON-able observations"""
    import io
    import contextlib
    import numpy as np
    import andes
    os.makedirs(TMP, exist_ok=True)
    out = tempfile.mkdtemp(prefix='run-', dir=TMP)
    try:
        ss = andes.load(andes.get_case(T.CASES[sc['case']]), setup=False, no_output=not sc['output'],
                        output_path=out, default_config=True)
        for mdl in (ss.Toggle, ss.Fault, ss.Alter):
            for name, tp in mdl.timer_params.items():
                for i in range(len(tp.v)):
                    tp.v[i] = -1.0
        lines = ss.Line.idx.v
        for e in sc['events']:
            ss.add('Toggle', dict(model='Line', dev=lines[e['line'] % len(lines)], t=e['t'], u=e['u']))
        rows_real = []
        for m, v, pos in sc['out_rows']:
            mdl = ss.models.get(m)
            d = dict(model=m)
            if v is not None:
                d['varname'] = v
            dev = _dev_of(mdl, pos)
            if dev is not None:
                d['dev'] = dev
            ss.add('Output', d)
            rows_real.append([m, v, None if dev is None else str(dev)])
        ss.setup()
        ss.config.freq = sc['sysfreq']
        ss.PFlow.run()
        tds, dae, cfg = ss.TDS, ss.dae, ss.TDS.config
        cfg.no_tqdm = 1
        cfg.t0, cfg.tstep, cfg.fixt, cfg.shrinkt = sc['t0'], sc['tstep'], sc['fixt'], sc['shrinkt']
        cfg.criteria = 1
        cfg.save_every = sc['save_every']
        cfg.limit_store = sc['limit_store']
        cfg.max_store = sc['max_store']
        cfg.save_mode = sc['save_mode']
        script = T.Script(sc['vmode'], sc['vseed'])
        script.BUDGET = 40      # afterwards every step converges quickly: keeps the runs (and the lines) short
        rec = []
        state = {'crit': False, 'bx': None, 'by': None}

        def stub():
            if tds.h == 0:
                return False
            conv, niter, nan, crit = script.next()
            tds.niter = niter
            tds.converged = conv
            if nan:
                tds.busted = True
            state['crit'] = crit
            tds.last_converged = conv
            if conv:
                if state['bx'] is None:
                    state['bx'], state['by'] = np.array(dae.x), np.array(dae.y)
                k = len(rec) + 1
                dae.x[:] = state['bx'] + k * 1e-6 * (1 + np.arange(dae.n))
                dae.y[:] = state['by'] + k * 1e-6 * (1 + dae.n + np.arange(dae.m))
                rec.append((float(dae.t), [float(v) for v in dae.x], [float(v) for v in dae.y]))
            return conv

        tds.itm_step = stub
        tds.check_criteria = lambda: not state['crit']
        obs = {'snaps': [], 'rows_real': rows_real}
        sink = io.StringIO()
        npz = None
        for tf in sc['tfs']:
            cfg.tf = tf
            with contextlib.redirect_stdout(sink):
                tds.run(no_summary=True)
            npz = ss.files.npz if sc['output'] else None
            obs['snaps'].append(_snapshot(ss, npz, len(rec)))
        if sc['final_save']:
            tds.save_output()
            obs['snaps'].append(_snapshot(ss, npz, len(rec)))
        obs['rec'] = rec
        obs['n'], obs['m'], obs['o'] = int(dae.n), int(dae.m), int(dae.o)
        obs['sel'] = None if ss.Output.n == 0 else [[int(i) for i in ss.Output.xidx], [int(i) for i in ss.Output.yidx]]
        # model descriptions for the selection stream + an independent address/name table for the oracle
        mds, table = [], {'x': {}, 'y': {}}
        exist = ss.exist.pflow_tds
        for name, mdl in exist.items():
            for vname, var in list(mdl.states.items()) + list(mdl.algebs.items()):
                for i, a in zip(mdl.idx.v, var.a):
                    table[var.v_code][int(a)] = [vname, name, str(i)]
        for m in sorted(set(r[0] for r in rows_real)):
            if m in exist:
                mdl = exist[m]
                mds.append([m, [str(i) for i in mdl.idx.v],
                            [[vn, var.v_code, [int(a) for a in var.a]] for vn, var in mdl.cache.all_vars.items()]])
        obs['models'] = mds
        obs['table'] = table
        obs['x_name'], obs['y_name'] = list(dae.x_name), list(dae.y_name)
        # labels / loader / export
        if sc['output'] and os.path.exists(ss.files.lst):
            obs['lst'] = open(ss.files.lst).read()
        if sc['output'] and npz and os.path.exists(npz) and 'lst' in obs:
            from andes.plot import TDSData
            td = TDSData(full_name=os.path.basename(ss.files.lst), mode='file', path=out)
            ld = {'uname': list(td._uname), 'idx': [int(i) for i in td._idx], 'nvars': int(td.nvars),
                  'data': [[float(v) for v in r] for r in np.atleast_2d(td._data)] if len(td._data) else []}
            finds = []
            for p in sc['patterns']:
                try:
                    fi, fn = td.find(p)
                    finds.append([p, [int(i) for i in fi], list(fn)])
                except Exception as e:
                    finds.append([p, 'error:' + type(e).__name__, []])
            ld['finds'] = finds
            try:
                if len(td._data):
                    p = td.export_csv(os.path.join(out, 'export.csv'))
                    ld['csv'] = open(p).read()
                    # a selection of columns in the order the user asks for (not ascending; time not first)
                    import random as _rnd
                    r_ = _rnd.Random(sc.get('qseed', 1) * 7 + 3)
                    sel = [int(i) for i in td._idx]
                    r_.shuffle(sel)
                    sel = sel[:max(2, min(6, len(sel)))]
                    p2 = td.export_csv(os.path.join(out, 'export_sel.csv'), idx=list(sel))
                    ld['csv_sel'] = [sel, open(p2).read()]
            except Exception as e:
                ld['csv_error'] = type(e).__name__ + ': ' + str(e)[:100]
            obs['loader'] = ld
        # memory mode + queries (the arrays are fresh: TDS.run ended with ts.unpack())
        qres = []
        try:
            tds.load_plotter()
            plt_ = tds.plt
            obs['memload'] = {'uname': list(plt_._uname), 'nvars': int(plt_.nvars),
                              'data': [[float(v) for v in r] for r in plt_._data] if len(plt_.t) else []}
        except Exception as e:
            plt_ = None
            obs['memload'] = {'error': type(e).__name__ + ': ' + str(e)[:100]}
        tsx = np.array(dae.ts.x) if len(dae.ts._ys) else None
        tsy = np.array(dae.ts.y) if len(dae.ts._ys) else None
        for m, v, sub in sc['queries']:
            mdl = ss.models.get(m)
            q = {'q': [m, v, sub]}
            if mdl is None or mdl.n == 0 or not hasattr(mdl, v) or tsx is None:
                q['skip'] = True
                qres.append(q)
                continue
            item = getattr(mdl, v)
            q['addr'] = [int(a) for a in item.a]
            q['code'] = item.v_code
            try:
                d = dae.ts.get_data(item, a=sub)
                q['data'] = [[float(x) for x in r] for r in d]
            except Exception as e:
                q['error'] = type(e).__name__
            if plt_ is not None:
                try:
                    yi = plt_._process_yidx(item, sub)
                    q['yidx'] = [int(i) for i in yi]
                    q['header'] = plt_.get_header([int(i) for i in yi])
                except Exception as e:
                    q['yidx_error'] = type(e).__name__
            qres.append(q)
        obs['queries'] = qres
        obs['mem_x'] = [[float(v) for v in r] for r in tsx] if tsx is not None else []
        obs['mem_y'] = [[float(v) for v in r] for r in tsy] if tsy is not None else []
        return obs
    finally:
        shutil.rmtree(out, ignore_errors=True)


def _worker(sc):
    try:
        import warnings
        import andes
        warnings.simplefilter('ignore')
        andes.config_logger(stream_level=50)
        return sc, run_case(sc), None
    except Exception:
        import traceback
        return sc, None, traceback.format_exc()[-1500:]


def run_many(worker, items, procs=8):
    import multiprocessing as mp
    if len(items) < 4:
        return [worker(s) for s in items]
    with mp.get_context('fork').Pool(procs) as pool:
        return pool.map(worker, items, chunksize=max(1, len(items) // (procs * 6)))


# ------------------------------------------------------------------ rendering (same format as the driver)

def nats(l):
    return ','.join(str(i) for i in l) if l else '-'


def fl(l):
    return ','.join(f2h(v) for v in l) if l else '-'


def show_rows(rows):
    return '|'.join('%s:%s' % (f2h(t), fl(v)) for t, v in rows) if rows else '-'


def show_snap(s):
    return 'file=%s mem=%s ptr=%d app=%d k=%d' % ('none' if s['file'] is None else show_rows(s['file']),
                                                 show_rows(s['mem']), s['ptr'], int(s['app']), s['k'])


def model_lines(sc, obs):
    sel = obs['sel']
    segs, pos = [], 0
    nseg = len(sc['tfs'])
    for s in obs['snaps'][:nseg]:
        steps = obs['rec'][pos:s['nsteps']]
        pos = s['nsteps']
        segs.append('|'.join('%s:%s:%s' % (f2h(t), fl(x), fl(y)) for t, x, y in steps) if steps else '_')
    sto = 'sto %d %d %d %d %d %d %s %s %s' % (sc['save_every'], sc['limit_store'], sc['max_store'], sc['output'],
                                              int(sc['save_mode'] == 'auto'), sc['final_save'],
                                              '*' if sel is None else nats(sel[0]), '*' if sel is None else nats(sel[1]),
                                              ';'.join(segs))
    ms = '&'.join('%s/%s/%s' % (m, ','.join(idx) or '-', '+'.join('%s~%s~%s' % (vn, c, nats(a)) for vn, c, a in vs) or '-')
                  for m, idx, vs in obs['models']) or '-'
    rs = '&'.join('%s~%s~%s' % (m, v or '*', d if d is not None else '*') for m, v, d in obs['rows_real']) or '-'
    oidx = 'oidx %s %s' % (ms, rs)
    lab = 'lab %s %s %d %d' % ('*' if sel is None else nats(sel[0]), '*' if sel is None else nats(sel[1]),
                               obs['n'], obs['m'])
    return sto, oidx, lab


def protocol_safe(obs):
    for m, idx, vs in obs['models']:
        for s in [m] + idx + [v[0] for v in vs]:
            if any(ch in s for ch in ' /&~+,*') or s == '-' or s == '':
                return False
    for m, v, d in obs['rows_real']:
        for s in (m, v, d):
            if s is not None and (any(ch in s for ch in ' /&~+,*') or s in ('-', '')):
                return False
    return True


# ------------------------------------------------------------------ property oracle (no model involved)

def expected_selection(sc, obs):
    """independent resolution of the Output rows from the recorded variable addresses"""
    if not obs['rows_real']:
        return None
    byname = {m: (idx, vs) for m, idx, vs in obs['models']}
    want = {'x': set(), 'y': set()}
    for m, v, d in obs['rows_real']:
        if m not in byname:
            continue
        idx, vs = byname[m]
        names = [vn for vn, _, _ in vs]
        if v is not None and v not in names:
            continue
        if d is not None and d not in idx:
            continue
        for vn, c, a in vs:
            if v is not None and vn != v:
                continue
            if d is None:
                want[c].update(a)
            elif idx.index(d) < len(a):
                want[c].add(a[idx.index(d)])
    return [sorted(want['x']), sorted(want['y'])]


def proj(sel, x, y):
    if sel is None:
        return list(x) + list(y)
    return [x[i] for i in sel[0]] + [y[i] for i in sel[1]]


def same_rows(a, b):
    if len(a) != len(b):
        return False
    for (ta, va), (tb, vb) in zip(a, b):
        if f2h(ta) != f2h(tb) or len(va) != len(vb) or any(f2h(p) != f2h(q) for p, q in zip(va, vb)):
            return False
    return True


def label_ok(label, ent):
    """does a label of the lst file name this table entry (variable, model class, device idx)?"""
    vname, cls, idx = ent
    toks = label.split(' ')
    dev = idx.replace('_', ' ')
    return toks[0] == vname and label.endswith(dev) and (cls in label)


def oracle(sc, obs):
    bad = []
    rec = obs['rec']
    se = sc['save_every']
    exp_sel = expected_selection(sc, obs)
    if exp_sel != obs['sel']:
        bad.append(('selection-wrong', 'Output.xidx/yidx %r, the Output rows select %r' % (obs['sel'], exp_sel)))
    sel = obs['sel']     # equal to the expected one unless 'selection-wrong' was just reported
    nseg = len(sc['tfs'])
    for si, s in enumerate(obs['snaps']):
        kept = [(t, proj(sel, x, y)) for k, (t, x, y) in enumerate(rec[:s['nsteps']])
                if se != 0 and (se == 1 or k % se == 0)]
        dup = len(set(t for t, _ in kept)) != len(kept)
        stale = sc['save_mode'] == 'manual' and sc['limit_store'] and sc['output'] and nseg > 1
        why = 'same-stamp-collapse' if dup else ('manual-save-stale-cache' if stale else None)
        if not s['keys_x_eq_y']:
            bad.append(('xy-keys-differ', 'the x and y dicts have different stamps'))
        if s['k'] != s['nsteps']:
            bad.append(('kcount-wrong', 'dae.kcount %d after %d accepted steps' % (s['k'], s['nsteps'])))
        if not sc['limit_store']:
            if not same_rows(s['mem'], kept):
                bad.append((why or 'memory-rows-wrong', 'in-memory series has %d rows, %d accepted steps are to be kept '
                            '(or a row differs)' % (len(s['mem']), len(kept))))
        else:
            n = len(s['mem'])
            if n > len(kept) or not same_rows(s['mem'], kept[len(kept) - n:]):
                bad.append((why or 'memory-not-a-tail', 'rows in memory are not an unaltered tail of the kept steps'))
        if sc['output']:
            flushed = sc['save_mode'] == 'auto' or (si == len(obs['snaps']) - 1 and sc['final_save'])
            if flushed:
                if s['file'] is None or not same_rows(s['file'], kept):
                    bad.append((why or 'file-rows-wrong', 'npz file has %s rows after the run, %d accepted steps are to '
                                'be kept (or a row differs)' % ('no' if s['file'] is None else len(s['file']), len(kept))))
            elif sc['limit_store']:
                tot = (s['file'] or []) + s['mem'][s['ptr']:]
                if not same_rows(tot, kept):
                    bad.append((why or 'file-plus-memory-wrong', 'rows on file + rows in memory not yet written (%d) '
                                'differ from the %d kept steps' % (len(tot), len(kept))))
    # labels
    last = obs['snaps'][-1]
    ncols = len(proj(sel, rec[0][1], rec[0][2])) if rec else None
    addrs = ([('x', i) for i in range(obs['n'])] + [('y', i) for i in range(obs['m'])]) if sel is None else \
        ([('x', i) for i in sel[0]] + [('y', i) for i in sel[1]])
    if 'lst' in obs:
        lab = []
        for ln in obs['lst'].strip('\n').split('\n'):
            p = [q.strip() for q in ln.split(',')]
            lab.append((int(p[0]), p[1]))
        if [i for i, _ in lab] != list(range(len(lab))):
            bad.append(('lst-index-not-consecutive', 'lst indices are not 0..n'))
        if lab[0][1] != 'Time [s]' or len(lab) - 1 != len(addrs) + obs['o']:
            bad.append(('lst-label-count', 'lst has %d labels, the stored rows have %d columns' % (len(lab) - 1, len(addrs))))
        else:
            for (code, a), (_, name) in zip(addrs, lab[1:]):
                ent = obs['table'][code].get(a) or obs['table'][code].get(str(a))
                if ent is None or not label_ok(name, ent):
                    bad.append(('label-names-wrong-variable', 'column of address %s[%d] is labelled %r, it holds %r'
                                % (code, a, name, ent)))
                    break
    ld = obs.get('loader')
    if ld is not None and last['file'] is not None:
        data = [(r[0], r[1:]) for r in ld['data']]
        if not same_rows(data, last['file']):
            bad.append(('loader-data-differs', 'TDSData(file) data differ from the npz file'))
        if 'lst' in obs and ld['uname'] != [n for _, n in lab]:
            bad.append(('loader-names-differ', 'TDSData(file) names differ from the lst file'))
        for p, fi, fn in ld['finds']:
            if isinstance(fi, str):
                bad.append(('find-raises', 'TDSData.find(%r) raised %s' % (p, fi)))
                continue
            want = [i for i, n in zip(ld['idx'], ld['uname']) if p in n]
            if fi != want or fn != [ld['uname'][i] for i in want]:
                bad.append(('find-wrong', 'find(%r) returned %r, names containing it are at %r' % (p, fi[:6], want[:6])))
        if 'csv_error' in ld:
            bad.append(('export-csv-raises', 'export_csv raised ' + ld['csv_error']))
        elif 'csv' in ld:
            lines_ = ld['csv'].strip('\n').split('\n')
            if lines_[0].split(',') != ld['uname']:
                bad.append(('csv-header-wrong', 'csv header differs from the variable names'))
            body = [(float(c[0]), [float(v) for v in c[1:]]) for c in (ln.split(',') for ln in lines_[1:])]
            if not same_rows(body, last['file']):
                bad.append(('csv-body-differs', 'exported csv values differ from the stored values'))
            if 'csv_sel' in ld and len(lines_) > 1:
                csel, txt = ld['csv_sel']
                ls = txt.strip('\n').split('\n')
                full = [[float(v) for v in ln.split(',')] for ln in lines_[1:]]      # all columns, in idx order
                pos = {i: k for k, i in enumerate(ld['idx'])}
                if ls[0].split(',') != [ld['uname'][pos[i]] for i in csel]:
                    bad.append(('csv-header-wrong', 'csv export of the columns %r: header %r' % (csel, ls[0].split(',')[:4])))
                else:
                    got = [[float(v) for v in ln.split(',')] for ln in ls[1:]]
                    want = [[row[pos[i]] for i in csel] for row in full]
                    if got != want:
                        bad.append(('csv-column-under-wrong-label', 'csv export of the columns %r (in this order): the values under a label '
                                    'are those of another variable (first row %r, stored %r)' % (csel, got[0][:4] if got else None, want[0][:4] if want else None)))
    ml = obs.get('memload')
    if ml is not None:
        if 'error' in ml:
            bad.append(('memory-loader-raises', 'TDSData(memory) raised ' + ml['error']))
        else:
            if not same_rows([(r[0], r[1:]) for r in ml['data']], last['mem']):
                bad.append(('memory-loader-differs', 'TDSData(memory) data differ from the in-memory series'))
            names = ml['uname'][1:]
            if len(names) == len(addrs):
                for (code, a), name in zip(addrs, names):
                    ent = obs['table'][code].get(a) or obs['table'][code].get(str(a))
                    if ent is None or not label_ok(name, ent):
                        bad.append(('label-names-wrong-variable', 'memory loader: column of address %s[%d] is labelled %r'
                                    % (code, a, name)))
                        break
    # queries by variable / device subset: a returned column must be the series of the asked device
    for q in obs.get('queries', []):
        if q.get('skip') or not last['mem']:
            continue
        m, v, sub = q['q']
        addr, code = q['addr'], q['code']
        stored = None if sel is None else (sel[0] if code == 'x' else sel[1])
        try:
            asked = addr if sub is None else [addr[i] for i in sub]
        except IndexError:
            continue
        full = stored is None or all(a in stored for a in addr)
        part = stored is not None and not full
        if sub is None and part:
            continue     # documented: "partially stored ... showing all saved data"
        mat = obs['mem_x'] if code == 'x' else obs['mem_y']
        col = (lambda a: a) if stored is None else (lambda a: stored.index(a) if a in stored else None)
        ok_cols = [col(a) for a in asked]
        if 'data' in q:
            got = q['data']
            try:
                want = [[] for r in mat] if None in ok_cols else [[r[c] for c in ok_cols] for r in mat]
            except IndexError:
                want = None
                bad.append(('query-wrong-data', 'the in-memory matrix has fewer columns than the selection'))
                continue
            if len(got) != len(want) or any(len(g) != len(w) or any(f2h(a) != f2h(b) for a, b in zip(g, w))
                                                            for g, w in zip(got, want)):
                mono = all(a < b for a, b in zip(addr, addr[1:]))
                key = 'output-addr-sorted-order' if (stored is not None and not mono and full) else \
                    ('subindex-into-partial-output' if part else 'query-wrong-data')
                bad.append((key, 'get_data(%s.%s, a=%r) does not return the series of the asked devices '
                            '(addresses %r, stored %s)' % (m, v, sub, asked, 'all' if stored is None else 'subset')))
        if 'header' in q and None not in ok_cols:
            for a, h in zip(asked, q['header']):
                ent = obs['table'][code].get(a) or obs['table'][code].get(str(a))
                if ent is not None and not label_ok(h, ent):
                    mono = all(p < r for p, r in zip(addr, addr[1:]))
                    key = 'output-addr-sorted-order' if (stored is not None and not mono and full) else \
                        ('subindex-into-partial-output' if part else 'query-wrong-label')
                    bad.append((key, 'plotter index of %s.%s a=%r is labelled %r, asked was %r' % (m, v, sub, h, ent)))
                    break
    return bad


# ------------------------------------------------------------------ correspondence of one batch

def check_scenarios(ctx, scs):
    res = run_many(_worker, scs)
    lines, idx = [], []
    for i, (sc, obs, err) in enumerate(res):
        if err is not None:
            ctx.count('impl_exception')
            ctx.oracle_fail('exception:' + err.strip().split('\n')[-1][:80],
                            'the real code raised: ' + err.strip().split('\n')[-1][:200], sc)
            continue
        sto, oidx, lab = model_lines(sc, obs)
        qlines = []
        for q in obs['queries']:
            if q.get('skip'):
                continue
            sel = obs['sel']
            st = None if sel is None else (sel[0] if q['code'] == 'x' else sel[1])
            qlines.append('qry %s %s %s' % ('*' if st is None else nats(st), nats(q['addr']),
                                            '*' if q['q'][2] is None else nats(q['q'][2])))
        fl_ = []
        if 'loader' in obs:
            names = [n.replace(' ', '_') for n in obs['loader']['uname']]
            if all(',' not in n for n in names):
                for p, fi, fn in obs['loader']['finds']:
                    if not isinstance(fi, str):
                        fl_.append(('fnd %s %s' % (','.join(names), p.replace(' ', '_')), fi))
        safe = protocol_safe(obs)
        idx.append((i, len(lines), len(qlines), len(fl_), safe))
        lines += [sto, oidx if safe else 'oidx - -', lab] + qlines + [f[0] for f in fl_]
        obs['_fl'] = fl_
    outs = ctx.driver.ask(lines)
    for i, p, nq, nf, safe in idx:
        sc, obs, _ = res[i]
        ctx.traces += 1
        sig = json.dumps(sc, sort_keys=True)
        ctx.case(sig if nontrivial(sc, obs) else None,
                 {'scenario': sc, 'accepted_steps': len(obs['rec']), 'selection': obs['sel'],
                  'rows_on_file': None if obs['snaps'][-1]['file'] is None else len(obs['snaps'][-1]['file']),
                  'rows_in_memory': len(obs['snaps'][-1]['mem'])})
        ctx.count('case:%d' % sc['case'])
        ctx.count('segments:%d' % len(sc['tfs']))
        ctx.count('save_every:%d' % sc['save_every'])
        ctx.count('limit_store:%d' % sc['limit_store'])
        ctx.count('output:%d/%s' % (sc['output'], sc['save_mode']))
        ctx.count('out_rows:%d' % len(sc['out_rows']))
        ctx.count('selection:' + ('none' if obs['sel'] is None else 'some'))
        ctx.count('accepted_steps', len(obs['rec']))
        ctx.count('offloads', sum(1 for s in obs['snaps'] if s['app']))
        impl = ' ;; '.join(show_snap(s) for s in obs['snaps'])
        if impl != outs[p]:
            ctx.disagree('store-machine', sc, _short(impl), _short(outs[p]))
        if safe:
            sel = obs['sel']
            impl_sel = '%s %s' % (nats(sel[0]), nats(sel[1])) if sel is not None else '- -'
            if impl_sel != outs[p + 1]:
                ctx.disagree('set_output_subidx', sc, impl_sel, outs[p + 1])
        # labels: the model names addresses, the implementation's names are looked up in the address table
        want = outs[p + 2].split(',') if outs[p + 2] != '-' else []
        names = None
        if 'lst' in obs:
            names = [q.split(',')[1].strip() for q in obs['lst'].strip('\n').split('\n')][1:]
        elif 'uname' in obs.get('memload', {}):
            names = obs['memload']['uname'][1:]
        if names is not None:
            full = {'x' + str(i): n for i, n in enumerate(obs['x_name'])}
            full.update({'y' + str(i): n for i, n in enumerate(obs['y_name'])})
            if [full.get(w) for w in want] != names:
                ctx.disagree('labels', sc, str(names[:8]), str(want[:8]))
        # queries
        k = 0
        for q in obs['queries']:
            if q.get('skip'):
                continue
            ctx.evaluations += 1
            ctx.count('queries')
            mo = outs[p + 3 + k]
            k += 1
            sel = obs['sel']
            st = None if sel is None else (sel[0] if q['code'] == 'x' else sel[1])
            mat = obs['mem_x'] if q['code'] == 'x' else obs['mem_y']
            if 'yidx' in q:
                off = 1 if q['code'] == 'x' else 1 + (obs['n'] if sel is None else len(sel[0]))
                impl_q = nats([y - off for y in q['yidx']])
            elif 'yidx_error' in q:
                impl_q = 'err'
            else:
                continue
            mcols = mo.split(' ')[0]
            if q.get('yidx_error') == 'IndexError' or 'yidx' in q:
                if impl_q != mcols:
                    ctx.disagree('query-columns', [sc, q['q']], impl_q, mo)
            if 'data' in q and mo != 'err' and mat:
                cols = [int(c) for c in mcols.split(',')] if mcols != '-' else []
                want_d = [[r[c] for c in cols] for r in mat]
                if len(cols) and [[f2h(v) for v in r] for r in q['data']] != [[f2h(v) for v in r] for r in want_d]:
                    ctx.disagree('query-data', [sc, q['q']], 'get_data columns differ', mo)
        for j, (ln, fi) in enumerate(obs['_fl']):
            ctx.evaluations += 1
            ctx.count('find_queries')
            if nats(fi) != outs[p + 3 + nq + j]:
                ctx.disagree('find', [sc, ln[-40:]], nats(fi), outs[p + 3 + nq + j])
        for key, what in oracle(sc, obs):
            ctx.oracle_fail(key, what, sc)
    return res


def _short(s):
    return s if len(s) < 1500 else s[:700] + ' ... ' + s[-700:]


# ------------------------------------------------------------------ csv replay stream

def gen_csv(rng):
    c = {'kind': 'csv', 'case': 0}
    n = rng.choice([1, 2, 3, 4, 5, 6, 8, 12])
    t0 = 0.0 if rng.random() < 0.8 else rng.choice([0.5, 1.0])
    h = rng.choice([0.1, 1 / 30, 0.05, 0.25])
    times = [t0]
    for _ in range(n - 1):
        r = rng.random()
        if r < 0.1:
            times.append(times[-1])                       # a repeated time (pre / post event rows)
        elif r < 0.2:
            times.append(times[-1] + h * rng.choice([0.5, 2, 3]))
        else:
            times.append(times[-1] + h)
    c['times'] = [float(t) for t in times]
    c['out_rows'] = [list(r) for r in rng.choice([[('GENCLS', 'omega', None)], [('GENCLS', 'omega', None), ('Bus', 'v', 2)],
                                                  [('Bus', 'a', None)], []])]
    c['save_every'] = rng.choice([1, 1, 1, 2, 3])
    c['limit_store'] = 1 if rng.random() < 0.3 else 0
    c['max_store'] = rng.choice([1, 2, 3, 900])
    return c


def predict_passes(times):
    """same float operations as the replay loop, to keep inputs on which the real loop would never end
    away from the real code (the real run is cut by a pass counter on the instance)"""
    n = len(times)
    tf = times[-1]
    t, k = 0.0, 0
    if k + 1 < n:
        k += 1
        h = times[k] - t
    else:
        h = 0.0
    passes = 0
    while t - h < tf:
        passes += 1
        if passes > n + 2:
            return None
        if k + 1 < n:
            k += 1
            h = times[k] - t
        else:
            h = 0.0
        t = t + h
    return passes


_ncol = {}


class _Alarm(BaseException):
    pass


def run_csv(c):
    import io
    import contextlib
    import numpy as np
    import andes
    os.makedirs(TMP, exist_ok=True)
    out = tempfile.mkdtemp(prefix='csv-', dir=TMP)
    try:
        def build():
            ss = andes.load(andes.get_case(T.CASES[c['case']]), setup=False, no_output=True, default_config=True)
            for m, v, pos in c['out_rows']:
                d = dict(model=m)
                if v is not None:
                    d['varname'] = v
                dev = _dev_of(ss.models.get(m), pos)
                if dev is not None:
                    d['dev'] = dev
                ss.add('Output', d)
            ss.setup()
            ss.PFlow.run()
            ss.TDS.config.no_tqdm = 1
            return ss
        key = json.dumps([c['case'], c['out_rows']])
        if key not in _ncol:
            # the width of the stored rows is known only after TDS.init() (addresses of the dynamic models)
            s0 = build()
            s0.TDS.init()
            _ncol[key] = (s0.dae.n + s0.dae.m) if s0.Output.n == 0 else len(s0.Output.xidx) + len(s0.Output.yidx)
        ncol = _ncol[key]
        if c.get('ncol_only'):
            return None
        ss = build()
        tds, dae, cfg = ss.TDS, ss.dae, ss.TDS.config
        cfg.criteria = 0
        cfg.save_every, cfg.limit_store, cfg.max_store = c['save_every'], c['limit_store'], c['max_store']
        rows = [[t] + [1.0 + k + 1e-3 * (j + 1) for j in range(ncol)] for k, t in enumerate(c['times'])]
        path = os.path.join(out, 'replay.csv')
        with open(path, 'w') as fh:
            fh.write(','.join(['t'] + ['c%d' % j for j in range(ncol)]) + '\n')
            for r in rows:
                fh.write(','.join('%.18e' % v for v in r) + '\n')    # the format of TDSData.export_csv
        obs = {'ncol': ncol, 'rows': rows}

        passes = {'n': 0}
        orig_step = tds._csv_step

        def counted():
            # deterministic guard against a replay loop that never ends (wrapper on the instance)
            passes['n'] += 1
            if passes['n'] > len(c['times']) + 5:
                raise _Alarm()
            return orig_step()
        tds._csv_step = counted
        try:
            with contextlib.redirect_stdout(io.StringIO()):
                ok = tds.run(no_summary=True, from_csv=path)
            obs['hang'] = False
            obs['ok'] = bool(ok)
        except _Alarm:
            obs['hang'] = True
        obs['parsed_times'] = [float(t) for t in tds.data_csv[:, 0]]
        keys = list(dae.ts._ys.keys())
        obs['mem'] = [(float(k), [float(v) for v in dae.ts._xs[k]] + [float(v) for v in dae.ts._ys[k]]) for k in keys]
        obs['k'] = int(dae.kcount)
        return obs
    finally:
        shutil.rmtree(out, ignore_errors=True)


def _csv_worker(c):
    try:
        import warnings
        import andes
        warnings.simplefilter('ignore')
        andes.config_logger(stream_level=50)
        return c, run_csv(c), None
    except Exception:
        import traceback
        return c, None, traceback.format_exc()[-1500:]


def row_id(vals):
    """csv row number encoded in the recognisable values"""
    return int(vals[0]) - 1 if vals else -1


def oracle_csv(c, obs):
    """replaying a csv reproduces it: with save_every = 1 and no off-loading the stored series is the csv"""
    bad = []
    if obs['hang']:
        return [('csv-replay-hang', 'TDS.run(from_csv) of a %d-row csv did not terminate' % len(c['times']))]
    # the text -> float conversion of pandas.read_csv (default fast parser, off by up to ~5 ulp) is not
    # modelled (residue "csv encoders"): relative tolerance 4e-15
    def close(a, b):
        return abs(a - b) <= 4e-15 * max(abs(a), abs(b))
    if any(not close(a, b) for a, b in zip(obs['parsed_times'], c['times'])):
        bad.append(('csv-read-wrong', 'the time column read from the csv differs from the written one'))
    obs['inexact'] = sum(1 for a, b in zip(obs['parsed_times'], c['times']) if f2h(a) != f2h(b))
    rows = obs['rows']
    for t, vals in obs['mem']:
        k = row_id(vals)
        if not (0 <= k < len(rows)) or any(not close(a, b) for a, b in zip(vals, rows[k][1:])):
            bad.append(('csv-values-altered', 'a replayed row is not a row of the csv'))
            break
    if c['save_every'] == 1 and not c['limit_store']:
        got = [(t, row_id(v)) for t, v in obs['mem']]
        want = [(t, k) for k, t in enumerate(c['times'])]
        if got != want:
            dup = len(set(obs['parsed_times'])) != len(c['times'])
            shifted = len(want) >= 2 and got[:1] == [(0.0, 1)]
            tail_ok = len(got) - 1 == len(want) - 2 and all(k1 == k2 and close(t1, t2)
                                                            for (t1, k1), (t2, k2) in zip(got[1:], want[2:]))
            if shifted:
                bad.append(('csv-replay-row-shift', 'replay of a %d-row csv stores %d rows: row 0 is dropped, row 1 is '
                            'stored under t=0, the stamp %r is missing' % (len(want), len(got), c['times'][1])))
            if dup and not tail_ok:
                bad.append(('same-stamp-collapse', 'csv rows with equal time collapse into one stored row '
                            '(%d stored for %d csv rows)' % (len(got), len(want))))
            if len(want) == 1 and got == []:
                bad.append(('csv-replay-row-shift', 'replay of a 1-row csv stores nothing: row 0 is dropped'))
            elif not shifted and not dup:
                bad.append(('csv-replay-differs', 'replayed series %r differs from the csv %r' % (got[:4], want[:4])))
    return bad


def check_csv(ctx, n):
    cases = []
    for _ in range(n):
        c = gen_csv(ctx.rng)
        if predict_passes(c['times']) is None:
            ctx.count('csv_predicted_not_to_terminate')
        cases.append(c)
    cases = corpus_cases('csv') + cases
    for c in cases:      # row widths are computed once, before the fork
        key = json.dumps([c['case'], c['out_rows']])
        if key not in _ncol:
            try:
                run_csv(dict(c, times=[], ncol_only=True))
            except Exception:
                pass     # the worker will report the exception for this case
    res = run_many(_csv_worker, cases)
    lines, idx = [], []
    for i, (c, obs, err) in enumerate(res):
        if err is not None:
            ctx.count('impl_exception')
            ctx.oracle_fail('exception:' + err.strip().split('\n')[-1][:80],
                            'csv replay raised: ' + err.strip().split('\n')[-1][:200], c)
            continue
        idx.append(i)
        lines.append('csv %d %d %d %s' % (c['save_every'], c['limit_store'], c['max_store'], fl(obs['parsed_times'])))
    outs = ctx.driver.ask(lines)
    for o, i in zip(outs, idx):
        c, obs, _ = res[i]
        ctx.traces += 1
        ctx.case(json.dumps(c, sort_keys=True) if len(c['times']) >= 3 else None,
                 {'csv': c, 'stored': [(t, row_id(v)) for t, v in obs['mem']][:6]})
        ctx.count('csv_rows:%d' % len(c['times']))
        ctx.count('csv_repeated_time' if len(set(c['times'])) != len(c['times']) else 'csv_distinct_times')
        impl = 'hang=%d mem=%s' % (int(obs['hang']), '|'.join('%s:%d' % (f2h(t), row_id(v)) for t, v in obs['mem']) or '-')
        parts = dict(p.split('=', 1) for p in o.split(' ') if '=' in p)
        model = 'hang=%s mem=%s' % (parts.get('hang'), parts.get('mem'))
        if obs['hang']:
            if parts.get('hang') != '1':
                ctx.disagree('csv-replay', c, impl, _short(o))
        elif impl != model or ('k=%d' % obs['k']) not in o:
            ctx.disagree('csv-replay', c, impl + ' k=%d' % obs['k'], _short(o))
        for key, what in oracle_csv(c, obs):
            ctx.oracle_fail(key, what, c)
        ctx.count('csv_times_not_bitwise_after_read_csv', obs.get('inexact', 0))


# ------------------------------------------------------------------ entry points

def corpus_cases(kind):
    out = []
    for f in sorted(glob.glob(os.path.join(CORPUS, '*.json'))):
        d = json.load(open(f))
        if (d.get('kind') == 'csv') == (kind == 'csv'):
            out.append(d)
    return out


def run(ctx):
    import andes
    andes.config_logger(stream_level=50)
    shutil.rmtree(TMP, ignore_errors=True)
    scs = corpus_cases('sto')
    ctx.count('corpus', len(scs))
    scs += [gen_scenario(ctx.rng) for _ in range(ctx.n(70, 800))]
    for lo in range(0, len(scs), 220):
        check_scenarios(ctx, scs[lo:lo + 220])
    ctx.cov['t_store_stream_s'] = round(ctx.elapsed(), 1)
    check_csv(ctx, ctx.n(24, 260))
    ctx.cov['t_with_csv_stream_s'] = round(ctx.elapsed(), 1)
    shutil.rmtree(TMP, ignore_errors=True)
    ctx.cov['source_hashes'] = {
        'DAE.store': C.hash_source(C.REPO + '/andes/variables/dae.py', 'DAE.store'),
        'DAE.write_npz': C.hash_source(C.REPO + '/andes/variables/dae.py', 'DAE.write_npz'),
        'DAE.write_lst': C.hash_source(C.REPO + '/andes/variables/dae.py', 'DAE.write_lst'),
        'DAETimeSeries': C.hash_source(C.REPO + '/andes/variables/dae.py', 'DAETimeSeries'),
        'TDS.run': C.hash_source(C.REPO + '/andes/routines/tds.py', 'TDS.run'),
        'TDS.save_output': C.hash_source(C.REPO + '/andes/routines/tds.py', 'TDS.save_output'),
        'TDS.calc_h': C.hash_source(C.REPO + '/andes/routines/tds.py', 'TDS.calc_h'),
        'TDS._csv_data_to_dae': C.hash_source(C.REPO + '/andes/routines/tds.py', 'TDS._csv_data_to_dae'),
        'System.set_output_subidx': C.hash_source(C.REPO + '/andes/system.py', 'System.set_output_subidx'),
        'Output.to_output_addr': C.hash_source(C.REPO + '/andes/models/misc/output.py', 'Output.to_output_addr'),
        'TDSData': C.hash_source(C.REPO + '/andes/plot.py', 'TDSData'),
    }


def search(ctx):
    rng = random.Random(ctx.seed * 7919 + 23)
    scs = [d['case'] for d in ctx.disagreements[:30] if isinstance(d['case'], dict) and 'tfs' in d['case']]
    scs += [gen_scenario(rng) for _ in range(ctx.n(150, 900))]
    for sc, obs, err in run_many(_worker, scs):
        if err is None:
            for key, what in oracle(sc, obs):
                ctx.oracle_fail(key, what, sc)


def replay(ctx, rep):
    case = rep if ('tfs' in rep or rep.get('kind') == 'csv') else rep['case']     # raw corpus file or replay file
    if isinstance(case, list):
        case = case[0]
    if case.get('kind') == 'csv':
        c, obs, err = _csv_worker(case)
        bad = oracle_csv(c, obs) if err is None else [('exception', err)]
    else:
        sc, obs, err = _worker(case)
        bad = oracle(sc, obs) if err is None else [('exception', err)]
    for key, what in bad:
        print('  ', key, what)
    return not bad
