"""Shared plumbing of the verification harness: PRNG, float<->hex, Lean driver, Lean build/audit,
evidence, known findings, violation reporting.  Runs under /venv/bin/python."""
import fcntl
import hashlib
import json
import os
import random
import re
import struct
import subprocess
import sys
import time

ROOT = os.environ.get('VERIF_ROOT', os.path.dirname(os.path.dirname(os.path.abspath(__file__))))
REPO = os.environ.get('VERIF_REPO', '/repo')   # /repo for every registered command; seeded/pdetect.sh points copies at scratch worktrees
LEAN = os.path.join(ROOT, 'lean')
WORK = os.path.join(ROOT, '.work')
EVID = os.path.join(ROOT, 'evidence')
ALLOWED_AXIOMS = {'propext', 'Classical.choice', 'Quot.sound'}
FORBIDDEN = re.compile(r'\b(sorry|admit|native_decide|bv_decide|implemented_by|unsafe)\b|^\s*axiom\s|maxHeartbeats\s+0\b')

TRUSTED_BASE = [
    'Lean 4.33 kernel (lake build; thorough tier: leanchecker)',
    'axioms allowed: propext, Classical.choice, Quot.sound (audited with #print axioms on every property theorem each run)',
    'translator / correspondence harness under /verif (present the code to Lean; failure modes: over-alarm or under-coverage, the latter guarded by coverage counts)',
    'Python/NumPy/KVXOPT/SciPy runtime and IEEE-754 rounding are modelled (parameters / residue), not verified',
]


def f2h(x):
    """float -> 16 hex digits of its IEEE-754 bits"""
    return struct.pack('>d', float(x)).hex()


def h2f(s):
    return struct.unpack('>d', bytes.fromhex(s))[0]


def seed_from_env():
    try:
        return int(os.environ.get('VERIF_SEED', '0'))
    except ValueError:
        return 0


def sh(cmd, cwd=None, timeout=None, env=None):
    p = subprocess.run(cmd, cwd=cwd, shell=isinstance(cmd, str), stdout=subprocess.PIPE,
                       stderr=subprocess.STDOUT, text=True, timeout=timeout, env=env)
    return p.returncode, p.stdout


class LakeLock:
    """serialise lake invocations (several checks may run concurrently)"""

    def __enter__(self):
        os.makedirs(WORK, exist_ok=True)
        self.f = open(os.path.join(WORK, 'lake.lock'), 'w')
        fcntl.flock(self.f, fcntl.LOCK_EX)
        return self

    def __exit__(self, *a):
        fcntl.flock(self.f, fcntl.LOCK_UN)
        self.f.close()


def lake_build(targets, timeout=3000):
    with LakeLock():
        rc, out = sh(['lake', 'build'] + list(targets), cwd=LEAN, timeout=timeout)
    return rc, out


def driver_path():
    return os.path.join(LEAN, '.lake', 'build', 'bin', 'andes_driver')


class Driver:
    """Line protocol to the compiled Lean model driver: one case per line in, one line out."""

    def __init__(self):
        exe = driver_path()
        if not os.path.exists(exe):
            rc, out = lake_build(['andes_driver'])
            if rc != 0:
                raise RuntimeError('cannot build andes_driver:\n' + out[-3000:])
        self.exe = exe

    def ask(self, lines, timeout=1800):
        if not lines:
            return []
        data = '\n'.join(lines) + '\n'
        p = subprocess.run([self.exe], input=data, stdout=subprocess.PIPE, stderr=subprocess.PIPE,
                           text=True, timeout=timeout)
        if p.returncode != 0:
            raise RuntimeError('driver failed: ' + p.stderr[-2000:])
        out = p.stdout.split('\n')
        if out and out[-1] == '':
            out.pop()
        if len(out) != len(lines):
            raise RuntimeError('driver returned %d lines for %d inputs' % (len(out), len(lines)))
        return out


# ---------------------------------------------------------------- Lean side: build, audit

THM_RE = re.compile(r'^\s*(?:@\[[^\]]*\]\s*)?(?:protected\s+|private\s+)?theorem\s+([A-Za-z_][\w\.\']*)', re.M)
NS_RE = re.compile(r'^\s*(namespace|end)\s+([\w\.]+)\s*$')


def strip_comments(src):
    src = re.sub(r'/-.*?-/', lambda m: '\n' * m.group(0).count('\n'), src, flags=re.S)
    src = re.sub(r'--[^\n]*', '', src)
    return src


def theorems_in(path):
    """fully qualified names of the theorems stated in a Lean file (simple namespace tracking)"""
    src = strip_comments(open(path).read())
    stack, names = [], []
    for line in src.split('\n'):
        m = NS_RE.match(line)
        if m:
            if m.group(1) == 'namespace':
                stack.append(m.group(2))
            elif stack and stack[-1] == m.group(2):
                stack.pop()
            continue
        m = THM_RE.match(line)
        if m:
            n = m.group(1)
            names.append('.'.join(stack + [n]) if not n.startswith('_root_.') else n[7:])
    return names


def forbidden_hits(paths):
    hits = []
    for p in paths:
        src = strip_comments(open(p).read())
        for i, line in enumerate(src.split('\n'), 1):
            if FORBIDDEN.search(line):
                hits.append('%s:%d: %s' % (os.path.relpath(p, ROOT), i, line.strip()[:120]))
    return hits


def module_path(mod):
    return os.path.join(LEAN, *mod.split('.')) + '.lean'


def lean_files_of(mods):
    """the .lean files of the given modules plus everything under Andes/ they import (transitively)"""
    seen, todo = [], list(mods)
    while todo:
        m = todo.pop()
        p = module_path(m)
        if p in seen or not os.path.exists(p):
            continue
        seen.append(p)
        for mm in re.findall(r'^import\s+(Andes[\w\.]*)', open(p).read(), re.M):
            todo.append(mm)
    return seen


def audit(pid, prop_modules, extra_names=()):
    """#print axioms for every theorem of the property modules; returns (names, bad, raw)"""
    names = []
    for m in prop_modules:
        names += theorems_in(module_path(m))
    names += list(extra_names)
    adir = os.path.join(LEAN, 'Audit')
    os.makedirs(adir, exist_ok=True)
    f = os.path.join(adir, pid + '.lean')
    with open(f, 'w') as fh:
        for m in prop_modules:
            fh.write('import %s\n' % m)
        for n in names:
            fh.write('#print axioms %s\n' % n)
    with LakeLock():
        rc, out = sh(['lake', 'env', 'lean', f], cwd=LEAN, timeout=1800)
    res = {}
    flat = re.sub(r'\s+', ' ', out)
    for m in re.finditer(r"'([^']+)' depends on axioms: \[([^\]]*)\]", flat):
        res[m.group(1)] = set(a.strip() for a in m.group(2).split(',') if a.strip())
    for m in re.finditer(r"'([^']+)' does not depend on any axioms", flat):
        res[m.group(1)] = set()
    bad = {}
    for n in names:
        if n not in res:
            bad[n] = 'not checked (missing from audit output)'
        elif not res[n] <= ALLOWED_AXIOMS:
            bad[n] = 'axioms: ' + ', '.join(sorted(res[n] - ALLOWED_AXIOMS))
    return names, bad, out, rc


def failing_decls(build_out):
    """names (file:line) of errors in a lake build log"""
    errs = []
    for m in re.finditer(r'error: (\S+\.lean):(\d+):(\d+): (.*)', build_out):
        errs.append('%s:%s %s' % (os.path.relpath(m.group(1), LEAN) if os.path.isabs(m.group(1)) else m.group(1),
                                  m.group(2), m.group(4)[:160]))
    if not errs and 'error' in build_out:
        errs = [l.strip()[:200] for l in build_out.split('\n') if 'error' in l][:20]
    return errs


# ---------------------------------------------------------------- hermetic ANDES home / pycode

def repo_tree_hash():
    """hash of every python/yaml source under /repo/andes (what pycode is generated from)"""
    h = hashlib.sha1()
    for d, dirs, files in sorted(os.walk(os.path.join(REPO, 'andes'))):
        dirs.sort()
        if '__pycache__' in d:
            continue
        for f in sorted(files):
            if f.endswith(('.py', '.yaml')):
                p = os.path.join(d, f)
                h.update(p.encode())
                h.update(open(p, 'rb').read())
    return h.hexdigest()


def ensure_pycode():
    """the scratch HOME's ~/.andes/pycode must have been generated from /repo's CURRENT working tree"""
    home = os.environ.get('HOME', '')
    if not home.startswith(WORK):
        return 'HOME is not the scratch home; pycode left to andes'
    os.makedirs(home, exist_ok=True)
    stamp = os.path.join(home, 'pycode.treehash')
    with open(os.path.join(WORK, 'pycode.lock'), 'w') as lk:
        fcntl.flock(lk, fcntl.LOCK_EX)
        cur = repo_tree_hash()
        old = open(stamp).read().strip() if os.path.exists(stamp) else ''
        have = os.path.isdir(os.path.join(home, '.andes', 'pycode'))
        if cur != old or not have:
            regenerate_pycode(home)
            with open(stamp, 'w') as fh:
                fh.write(cur)
            return 'regenerated'
        return 'up to date'


def andes_home(pid):
    """per-property scratch HOME; ~/.andes/pycode is regenerated from /repo's working tree"""
    home = os.path.join(WORK, 'home-' + pid)
    os.makedirs(home, exist_ok=True)
    return home


def regenerate_pycode(home, quiet=True):
    """remove and regenerate the pycode of this scratch home from the current tree (about 12 s)"""
    import shutil
    shutil.rmtree(os.path.join(home, '.andes'), ignore_errors=True)
    env = dict(os.environ, HOME=home)
    rc, out = sh(['/venv/bin/python', '-c',
                  'import andes; andes.config_logger(stream_level=40); '
                  'ss=andes.System(no_undill=True); ss.prepare(quick=False, incremental=False); '
                  'print("prepared", len(ss.models))'], cwd=home, env=env, timeout=1800)
    if rc != 0 or 'prepared' not in out:
        raise RuntimeError('pycode generation failed:\n' + out[-3000:])
    return out


# ---------------------------------------------------------------- run context

class Ctx:
    def __init__(self, pid, tier, seed):
        self.pid, self.tier, self.seed = pid, tier, seed
        self.rng = random.Random((seed + 1) * 1000003 + int(hashlib.sha1(pid.encode()).hexdigest()[:8], 16))
        self.t0 = time.time()
        self.counts = {}
        self.samples = []
        self.sigs = set()
        self.evaluations = 0
        self.disagreements = []      # model vs implementation
        self.oracle_failures = []    # property fails on the real code: {key, what, case}
        self.known_hits = []
        self.broken = []             # Lean obligations / audit problems
        self.notes = []
        self.cov = {}
        self.assumptions = []
        self.traces = 0
        self._driver = None
        kf = os.path.join(ROOT, 'known_findings.json')
        self.known = {}
        if os.path.exists(kf):
            for e in json.load(open(kf)).get('findings', []):
                if e.get('property') == pid and e.get('status') == 'open':
                    self.known[e['key']] = e

    @property
    def thorough(self):
        return self.tier == 'thorough'

    def n(self, quick, thorough):
        if self.thorough:
            return thorough
        # source-shape guard: an anchored function has another shape than the one the model was validated against
        f = getattr(self, 'sample_factor', 1)
        return quick if f == 1 else max(quick, min(thorough, quick * f))

    @property
    def driver(self):
        if self._driver is None:
            self._driver = Driver()
        return self._driver

    def count(self, key, k=1):
        self.counts[key] = self.counts.get(key, 0) + k

    def case(self, sig=None, sample=None):
        """register one explored case; `sig` identifies distinct non-trivial cases"""
        self.evaluations += 1
        if sig is not None:
            self.sigs.add(sig if isinstance(sig, (str, int, tuple)) else json.dumps(sig, sort_keys=True, default=str))
        if sample is not None and len(self.samples) < 6:
            self.samples.append(sample)

    def disagree(self, stream, case, impl, model):
        self.disagreements.append({'stream': stream, 'case': case, 'impl': impl, 'model': model})

    def oracle_fail(self, key, what, case):
        """the property itself fails on the real code for `case`; `key` identifies the finding"""
        if key in self.known:
            if key not in [k['key'] for k in self.known_hits]:
                self.known_hits.append({'key': key, 'what': what, 'case': case})
            return
        self.oracle_failures.append({'key': key, 'what': what, 'case': case})

    def elapsed(self):
        return time.time() - self.t0


def write_json(path, obj):
    os.makedirs(os.path.dirname(path), exist_ok=True)
    tmp = path + '.tmp'
    with open(tmp, 'w') as fh:
        json.dump(obj, fh, indent=1, default=str)
    os.replace(tmp, path)


def hash_source(path, func=None):
    """normalised-AST hash of a python source file (or one function/class in it)"""
    import ast
    src = open(path).read()
    tree = ast.parse(src)
    if func:
        parts = func.split('.')
        node = tree
        for p in parts:
            for ch in ast.iter_child_nodes(node):
                if isinstance(ch, (ast.FunctionDef, ast.ClassDef)) and ch.name == p:
                    node = ch
                    break
            else:
                return None
        tree = node
    for nd in ast.walk(tree):
        if isinstance(nd, (ast.FunctionDef, ast.ClassDef, ast.Module)) and nd.body and isinstance(nd.body[0], ast.Expr) \
                and isinstance(getattr(nd.body[0], 'value', None), ast.Constant) and isinstance(nd.body[0].value.value, str):
            nd.body = nd.body[1:] or [ast.Pass()]
    return hashlib.sha1(ast.dump(tree, include_attributes=False).encode()).hexdigest()[:16]
