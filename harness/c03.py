"""C03 — Jacobians are the exact residual derivatives, stored at the right addresses.

Lean: lean/Andes/Gen/J_<Model>.lean is REGENERATED on every run (translator/models.py): for every entry of
every generated <jname>_update the theorem `evalR ρ entry = evalR ρ (D col declared_row)` where `D` is the
derivative computed inside Lean and `hasDerivAt_D` (Andes/Proofs/Deriv.lean) is its once-proved
correctness; Andes/Props/C03.lean composes them and proves the assembly / pattern statements.
Correspondence / oracle on the real code: the assembled dae.fx/fy/gx/gy of stock cases at perturbed
operating points are compared with central finite differences of the assembled residual, with in-place
and rebuilt sparse accumulation, and the stored index pattern is checked to stay constant."""
import json
import math
import os
import subprocess
import sys

from harness import common as C

PROP_MODULES = ['Andes.Props.C03']
RULE = ('obligation = one entry of one generated Jacobian function of one model; assembled case = (stock case, ipadd, '
        'operating point perturbation seed, connection-status toggle); distinct = distinct (case, ipadd, point); '
        'non-trivial = dynamic models initialised and the point is off the equilibrium')
ASSUMPTIONS = [
    'derivative obligations carry the hypothesis WD (denominators non-zero, sqrt/log/abs arguments non-zero, piecewise conditions independent of the differentiation variable)',
    'entries listed in translator/baseline_unproved.json are covered by the finite-difference comparison only',
    'reserved diagonal entries (diag_eps, constant 1e-8) are regularisation, not derivatives; they are below the finite-difference tolerance',
    'finite differences are supporting evidence (tolerance 1e-5 relative), the theorems are the claim',
]
CLEAN_REBUILD = False
LEANCHECKER = False


def generate(ctx):
    from translator import models
    from harness import c02
    C.ensure_pycode()
    s = models.generate(C.LEAN, C.WORK, c02.pycode_dir(), kinds=('J',))
    ctx.cov['models'] = s['models']
    ctx.cov['outside_fragment'] = s['jac_excluded']
    ctx.cov['hand_written_numeric_callbacks'] = s['hand_written']
    ctx.cov['pattern_entries_not_mentioned'] = s['pattern_extra'][:20]
    for name, why in s['skipped']:
        ctx.broken.append('translator: %s: %s' % (name, why))
    if s['hand_written']:
        ctx.notes.append('hand-written numerical Jacobian call-backs present (outside the translator): %s' % s['hand_written'])
    return {'modules': s['j_modules'], 'theorems': s['j_names']}


FD_SCRIPT = r'''
import sys, json, warnings
warnings.simplefilter('ignore')
import numpy as np, andes
from kvxopt import matrix
andes.config_logger(stream_level=50)
spec = json.loads(sys.argv[1])
def dense(sp):
    return np.array(matrix(sp))
ss = andes.load(andes.get_case(spec['case']), no_output=True, default_config=True, setup=False)
ss.config.ipadd = spec['ipadd']
if spec.get('island'):
    # a radial bus carrying a shunt and a constant-impedance load, connected by one extra line that is opened later:
    # the bus then is islanded while voltage-dependent devices on it stay in service
    b0 = ss.Bus.idx.v[0]
    ss.add('Bus', dict(idx='RB', name='RB', Vn=ss.Bus.Vn.v[0], v0=1.0, a0=0.0))
    ss.add('Line', dict(idx='LRB', bus1=b0, bus2='RB', r=0.01, x=0.1, b=0.02, Vn1=ss.Bus.Vn.v[0], Vn2=ss.Bus.Vn.v[0]))
    ss.add('Shunt', dict(idx='SRB', bus='RB', b=0.5, g=0.05, Vn=ss.Bus.Vn.v[0]))
    ss.add('PQ', dict(idx='PRB', bus='RB', p0=0.1, q0=0.05, Vn=ss.Bus.Vn.v[0]))
ss.setup()
ss.PFlow.run()
if spec.get('reset'):
    # System.reset() re-assigns every address (a_reset + a second set-up); the matrices used afterwards must be
    # addressed by the NEW assignment
    ss.reset(); ss.config.ipadd = spec['ipadd']; ss.PFlow.run()
ss.TDS.config.no_tqdm = 1; ss.TDS.init()
tds, dae, models = ss.TDS, ss.dae, ss.exist.pflow_tds
rng = np.random.default_rng(spec['seed'])
out = {'points': []}
n, m = dae.n, dae.m
names = list(dae.x_name) + list(dae.y_name)
patterns = None
for pt in range(spec['points']):
    if spec.get('toggle') and pt == 1:
        ss.Line.u.v[0] = 0.0
        # a parameter that enters Jacobian entries depending on parameters only (damping of the machines)
        for mname in ('GENROU', 'GENCLS'):
            mdl = ss.models[mname]
            if mdl.n > 0:
                mdl.alter('D', mdl.idx.v[0], float(mdl.D.v[0]) + 1.5)
    if spec.get('model_off') and pt == 1:
        # every device of one model goes out of service after its Jacobian has been evaluated in service
        for mname in ('Shunt', 'TGOV1', 'EXDC2', 'ESST3A', 'IEEEST'):
            mdl = ss.models[mname]
            if mdl.n > 0:
                for i in list(mdl.idx.v):
                    mdl.alter('u', i, 0)
                break
    if spec.get('island') and pt == 1:
        ss.Line.alter('u', 'LRB', 0)
        ss.connectivity(info=False)
    dae.x[:] += spec['amp'] * rng.normal(size=n); dae.y[:] += spec['amp'] * rng.normal(size=m)
    dae.t = np.array(0.5 + pt)
    ss.vars_to_models()
    tds.fg_update(models); ss.j_update(models)
    pat = {k: (list(getattr(dae, k).I), list(getattr(dae, k).J)) for k in ('fx', 'fy', 'gx', 'gy')}
    if patterns is None:
        patterns = pat
    same = all(sorted(zip(*pat[k])) == sorted(zip(*patterns[k])) for k in pat)
    # every entry of the updated matrices lies in the index pattern stored for this routine (dae.triplets)
    outside = []
    for k in ('fx', 'fy', 'gx', 'gy'):
        stored = set(zip((int(i) for i in dae.triplets.ijac[k]), (int(j) for j in dae.triplets.jjac[k])))
        mat = getattr(dae, k)
        for i, j, v in zip(mat.I, mat.J, mat.V):
            if v != 0 and (int(i), int(j)) not in stored:
                rn = (dae.x_name if k[0] == 'f' else dae.y_name)[int(i)]
                cn = (dae.x_name if k[1] == 'x' else dae.y_name)[int(j)]
                outside.append([k, rn, cn])
    J = np.block([[dense(dae.fx), dense(dae.fy)], [dense(dae.gx), dense(dae.gy)]])
    xy0 = np.concatenate([dae.x, dae.y]).copy()
    def flags():
        out = []
        for mdl in models.values():
            if mdl.n == 0:
                continue
            for inst in mdl.discrete.values():
                for v in inst.get_values():
                    out.append(np.asarray(v, dtype=float).ravel())
        return np.concatenate(out) if out else np.zeros(0)
    def fg(xy):
        dae.x[:] = xy[:n]; dae.y[:] = xy[n:]; ss.vars_to_models(); tds.fg_update(models)
        return np.concatenate([dae.f, dae.g]).copy(), flags()
    _, fl0 = fg(xy0)
    pegged = set()
    for item in ss.antiwindups:
        for key, _, _ in item.x_set:
            pegged.update(int(k) for k in np.ravel(key))
    eps = 1e-6
    Jfd = np.zeros_like(J)
    skipped_cols = 0
    for j in range(n + m):
        e = np.zeros(n + m); e[j] = eps
        (a, fa), (b, fb) = fg(xy0 + e), fg(xy0 - e)
        if not (np.array_equal(fa, fl0) and np.array_equal(fb, fl0)):
            # a limiter / switch changes state inside the difference stencil: not a smooth point for column j
            Jfd[:, j] = J[:, j]; skipped_cols += 1
            continue
        Jfd[:, j] = (a - b) / (2 * eps)
    fg(xy0)
    for r_ in pegged:
        Jfd[r_, :] = J[r_, :]
    d = np.abs(J - Jfd)
    bad = np.argwhere(d > 1e-5 * (1 + np.abs(J) + np.abs(Jfd)))
    items = []
    for r, c in bad[:400]:
        items.append([names[r], names[c], float(J[r, c]), float(Jfd[r, c])])
    out['points'].append({'outside_pattern': outside[:5], 'n_outside': len(outside), 'pattern_same': bool(same), 'maxdiff': float(d.max()), 'nbad': int(len(bad)), 'bad': items,
                          'nnz': int(np.count_nonzero(J)), 'finite': bool(np.isfinite(J).all()), 'skipped_cols': skipped_cols, 'pegged': len(pegged)})
out['n'], out['m'] = int(n), int(m)
out['J_hash'] = float(np.abs(J).sum())
vs = {}
for name, mdl in models.items():
    if mdl.n and len(mdl.services_var):
        vs[name] = list(mdl.services_var.keys())
out['varservice_models'] = vs
print(json.dumps(out))
'''


def fd_job(spec):
    p = subprocess.run([sys.executable, '-c', FD_SCRIPT, json.dumps(spec)], stdout=subprocess.PIPE,
                       stderr=subprocess.PIPE, text=True, timeout=3000)
    if p.returncode != 0:
        return {'error': p.stderr[-600:]}
    return json.loads(p.stdout.strip().split('\n')[-1])


def assembled_stream(ctx):
    import multiprocessing as mp
    cases = ['kundur/kundur_full.xlsx', 'ieee14/ieee14_full.xlsx']
    if ctx.thorough:
        cases += ['ieee39/ieee39_full.xlsx', 'kundur/kundur_vsc.xlsx', 'ieee14/ieee14_pvd1.xlsx', 'npcc/npcc.xlsx']
    specs = []
    for case in cases:
        seed = ctx.rng.randrange(1 << 30)
        for ipadd in (1, 0):
            specs.append({'case': case, 'ipadd': ipadd, 'seed': seed, 'points': ctx.n(2, 4), 'amp': 1e-3, 'toggle': True})
        specs.append({'case': case, 'ipadd': 1, 'seed': seed + 1, 'points': 2, 'amp': 1e-3, 'island': True})
        specs.append({'case': case, 'ipadd': 1, 'seed': seed + 2, 'points': 2, 'amp': 1e-3, 'model_off': True})
        specs.append({'case': case, 'ipadd': ctx.rng.choice([0, 1]), 'seed': seed + 3, 'points': 2, 'amp': 1e-3, 'reset': True})
    if not ctx.thorough:
        # a case with models that take part in the power flow only (DC network, VSC): their equations stay in the
        # residual during the time-domain simulation and the Jacobian has to follow them there too
        specs.append({'case': 'kundur/kundur_vsc.xlsx', 'ipadd': 1, 'seed': ctx.rng.randrange(1 << 30), 'points': 2,
                      'amp': 1e-3, 'toggle': True})
    with mp.get_context('fork').Pool(8) as pool:
        res = pool.map(fd_job, specs)
    by_case = {}
    for sp, r in zip(specs, res):
        key = {k: sp[k] for k in ('case', 'ipadd', 'seed')}
        key['island'] = bool(sp.get('island'))
        key['model_off'] = bool(sp.get('model_off'))
        key['reset'] = bool(sp.get('reset'))
        if 'error' in r:
            ctx.oracle_fail('assembled-run-raises', 'assembling the Jacobian raised: ' + r['error'][-200:], key)
            continue
        if not sp.get('island') and not sp.get('model_off') and not sp.get('reset'):
            by_case.setdefault(sp['case'], {})[sp['ipadd']] = r
        for k, pt in enumerate(r['points']):
            ctx.case(json.dumps(dict(key, point=k), sort_keys=True), dict(key, point=k, maxdiff=pt['maxdiff'], nnz=pt['nnz']))
            ctx.count('assembled_points')
            ctx.count('assembled_entries', pt['nnz'])
            ctx.count('columns_skipped_nonsmooth', pt['skipped_cols'])
            if pt.get('n_outside'):
                ctx.oracle_fail('entry-outside-stored-pattern', '%s: %d non-zero Jacobian entries lie outside the stored index pattern, e.g. %s: d(%s)/d(%s)'
                                % (sp['case'], pt['n_outside'], pt['outside_pattern'][0][0], pt['outside_pattern'][0][1], pt['outside_pattern'][0][2]),
                                dict(key, point=k))
            if not pt['pattern_same']:
                ctx.oracle_fail('sparsity-pattern-changed', 'the stored index pattern of the Jacobian changed between updates', dict(key, point=k))
            if not pt['finite']:
                ctx.oracle_fail('jacobian-not-finite', 'NaN/inf in the assembled Jacobian', dict(key, point=k))
            seen = set()
            for rown, coln, jv, fdv in pt['bad']:
                rmodel = rown.split()[1] if len(rown.split()) > 1 else rown
                rvar = rown.split()[0]
                if rmodel in r['varservice_models']:
                    k2 = 'jacobian-ignores-varservice:%s' % rmodel
                    what = ('%s: equation of %s depends on %s through a VarService %r that is re-evaluated at every iteration, '
                            'but the Jacobian has %.4g where finite differences give %.4g'
                            % (sp['case'], rown, coln, r['varservice_models'][rmodel][:3], jv, fdv))
                else:
                    k2 = 'assembled-jacobian-differs-from-fd:%s.%s' % (rmodel, rvar)
                    what = '%s: d(%s)/d(%s) assembled %.6g, finite difference %.6g' % (sp['case'], rown, coln, jv, fdv)
                if k2 not in seen:
                    seen.add(k2)
                    ctx.oracle_fail(k2, what, dict(key, point=k, row=rown, col=coln))
    for case, d in by_case.items():
        if 0 in d and 1 in d:
            ctx.count('ipadd_vs_rebuild_compared')
            # same seed, same operating points: in-place accumulation and rebuilding must give the same matrix
            a, b = d[0]['J_hash'], d[1]['J_hash']
            if abs(a - b) > 1e-9 * (1 + abs(a)):
                ctx.oracle_fail('ipadd-differs-from-rebuild', '%s: sum|J| is %r with rebuilt and %r with in-place accumulation' % (case, a, b),
                                {'case': case})


def numeric_stream(ctx, nenv):
    """every LOADED generated Jacobian function of every model against the derivative `D` that the Lean
    driver computes from the DECLARED equation (independent of SymPy and of the pycode text)"""
    import glob
    import numpy as np
    import andes
    from harness import c02
    ss = andes.System(default_config=True)
    lines, meta = [], []
    for f in sorted(glob.glob(os.path.join(C.WORK, 'gen', '*.json'))):
        if os.path.basename(f).startswith('_'):
            continue
        g = json.load(open(f))
        m = ss.models.get(g['model'])
        if m is None or not g.get('jacobians'):
            continue
        sym, cx = g['sym'], set(g['complex'])
        envs = [c02.gen_env(ctx.rng, sym, cx) for _ in range(nenv)]
        env_txt = ' ; '.join(','.join(C.f2h(v) for v in e) if e else '-' for e in envs)
        for jf in g['jacobians']:
            func = m.calls.j.get(jf['fn'][:-7])
            if func is None:
                ctx.broken.append('loaded Jacobian function %s.%s missing' % (g['model'], jf['fn']))
                continue
            try:
                rets = [c02.flatten(c02.call_loaded(func, jf['args'], e, sym, cx)) for e in envs]
            except Exception as ex:
                ctx.oracle_fail('loaded-jacobian-raises', '%s.%s raised %r' % (g['model'], jf['fn'], ex), {'model': g['model']})
                continue
            for k, ent in enumerate(jf['entries']):
                if 'atan2' in ent['decl']:
                    # `D` has no rule for atan2 of the differentiation variable (WD excludes it): such entries are
                    # outside the fragment and only covered when a stock case exercises the model
                    ctx.count('entries_outside_D_fragment')
                    continue
                lines.append('evd %d %s | %s' % (ent['col'], ent['decl'], env_txt))
                meta.append((g['model'], jf['fn'], ent['name'], [float(np.real(r[k])) if k < len(r) else float('nan') for r in rets]))
    
    outs = ctx.driver.ask(lines)
    for (model, fn, name, vals), o in zip(meta, outs):
        if o in ('bad-expr', 'bad-op'):
            ctx.broken.append('driver cannot parse the declared equation of %s.%s' % (model, name))
            continue
        mv = [C.h2f(x) if len(x) == 16 else float('nan') for x in o.split(',')]
        for j, (a, b) in enumerate(zip(vals, mv)):
            ctx.evaluations += 1
            if not (math.isfinite(a) and math.isfinite(b)):
                ctx.count('non_finite_skipped')
                continue
            ctx.count('jacobian_points_finite')
            if len(ctx.sigs) < 200000:
                ctx.sigs.add((model, name, j))
            if abs(a - b) > 1e-7 * (1 + abs(a) + abs(b)):
                ctx.oracle_fail('jacobian-entry-not-derivative:%s.%s' % (model, name),
                                '%s.%s entry %s: loaded generated code returns %r, the derivative of the declared equation is %r'
                                % (model, fn, name, a, b), {'model': model, 'entry': name})


def run(ctx):
    numeric_stream(ctx, ctx.n(2, 8))
    assembled_stream(ctx)


def search(ctx):
    ctx.tier = 'thorough'
    assembled_stream(ctx)


def replay(ctx, rep):
    print('replay: finite-difference comparison for', json.dumps(rep.get('case'))[:300])
    case = rep.get('case') or {}
    if 'case' in case:
        r = fd_job({'case': case['case'], 'ipadd': case.get('ipadd', 1), 'seed': case.get('seed', 0), 'points': 2, 'amp': 1e-3})
        print(json.dumps(r)[:1500])
        return 'error' not in r and all(p['nbad'] == 0 for p in r['points'])
    return True
