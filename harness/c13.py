"""C13 — case files round-trip; one case in different formats is one system.

Lean: Andes/Props/C13.lean (models Andes/Model/Io.lean, Andes/Model/Mpc.lean); Andes/Gen/IoTable.lean is
REGENERATED from the real model classes on every run (every NumParam of every model: default + restriction
flags) with the theorem `all_defaults_ok` (decide +kernel).

Streams (real code in-process, same inputs to the Lean driver):
  sanitize  every real NumParam x a set of input values, and random specs, through the real NumParam.add +
            to_array  vs  `ios`  (bit exact); oracle: adding the stored value again stores the same value
  table     generated case files (json text written by the harness: missing / NaN / int / float / inf / string
            cells, missing, duplicated and colliding idx, several loads per bus, offline devices, non-default
            bases) read by the real json reader + setup  vs  `iol`;  real json and xlsx dump + reload vs the
            model's load(dump s);  oracle: same devices, same input-base values (json exact, xlsx 1e-12), same
            power flow
  stock     stock cases (xlsx/json/raw/m) dumped to json and xlsx and re-read: same vin, same power flow, same
            TDS initial values
  mpc       generated MATPOWER text: real m2mpc vs an independent reader; mpc2system vs `mpb/mpg/mpl`;
            oracle: system-base element data = physical reading of the file; system2mpc vs `mxl/mxp`;
            oracle: mpc2system(system2mpc(s)) is electrically s
  raw       generated PSS/E RAW text: real parser vs `rwl/rwx/rw3`; oracle: independent physical reading
"""
import io
import json
import math
import os
import re
import shutil
import tempfile
import traceback
from decimal import Decimal

from harness import common as C

PROP_MODULES = ['Andes.Props.C13']
RULE = ('sanitize: (parameter spec, input value) pairs, distinct = distinct (flags, default kind, value kind); '
        'table/mpc/raw: one generated case file each, distinct = distinct file content hash; stock: one stock case; '
        'non-trivial = at least one cell that is not a plain in-range float')
ASSUMPTIONS = [
    'pandas / openpyxl / xlsxwriter / json cell typing is outside the model (rows of typed cells in, rows out); it is exercised by the real dump+reload of every generated and stock case',
    'a float idx with an integral value is identified with the int (Python dict semantics); auto idx "<Model>_<k>" is a structured key',
    'non-exported parameters (export=False) are not part of a dumped row by design and are not compared',
    'NumParams with vtype object/str (list-valued, subidx) are treated as data cells by the model; their round trip is checked on the real code only',
    'xlsx keeps 15 significant digits: xlsx values are compared at 1e-12 relative, json exactly',
    'pandas reads an integral xlsx column back as ints, which bypass the NumParam corrections again: for a table with an int cell out of range the xlsx reload keeps the violating value while json corrects it; the model implements the json behaviour and the xlsx model comparison is skipped for such tables (they are outside the hypothesis TableOk of the theorems)',
    'PSS/E: physical reading only for record kinds and codes the parser implements (CW 1-3, CZ 1-2, CM 1, NOMV = 0 or bus kV; 3-winding CW 1); DYR mapping covered by the stock raw+dyr cases only',
    'theorems are over exact scalars; float rounding is exercised by the bit-exact correspondence',
]

F2H = C.f2h


# ---------------------------------------------------------------- encodings shared with IoDriver.lean

def hexs(s):
    return s.encode('ascii', 'replace').hex()


def venc(x):
    import numpy as np
    if x is None:
        return 'N'
    if isinstance(x, (bool, np.bool_)):
        return 'I%d' % int(x)
    if isinstance(x, (int, np.integer)):
        return 'I%d' % int(x)
    if isinstance(x, (float, np.floating)):
        x = float(x)
        if math.isnan(x):
            return 'A'
        if math.isinf(x):
            return 'P' if x > 0 else 'M'
        return 'F' + F2H(x)
    if isinstance(x, str):
        return 'S' + hexs(x)
    return 'S' + hexs(repr(x))


def venc_data(x):
    """data cells: a float with an integral value is the int (1.0 == 1 in Python)"""
    import numpy as np
    if isinstance(x, (float, np.floating)) and not math.isnan(x) and not math.isinf(x) and float(x) == int(x):
        return 'I%d' % int(x)
    return venc(x)


AUTO_RE = re.compile(r'^([A-Za-z][A-Za-z0-9]*)_([1-9][0-9]*)$')


def kenc(x, model_names):
    import numpy as np
    if x is None or (isinstance(x, (float, np.floating)) and math.isnan(x)):
        return 'N'
    if isinstance(x, (bool, int, np.integer)):
        return 'I%d' % int(x)
    if isinstance(x, (float, np.floating)):
        return 'I%d' % int(x) if float(x) == int(x) else 'S' + hexs(repr(float(x)))
    m = AUTO_RE.match(x)
    if m and m.group(1) in model_names:
        return 'U%s.%s' % (hexs(m.group(1)), m.group(2))
    return 'S' + hexs(x)


def model_spec(mdl):
    """exported parameters of a model (idx apart) as the `iol` spec; returns (names, kinds, spec string)"""
    from andes.core.param import NumParam, DataParam
    names, kinds, toks = [], [], []
    for name, p in mdl.params.items():
        if name == 'idx' or not p.export:
            continue
        if name == 'name' and isinstance(p, DataParam):
            kinds.append('n')
            toks.append('n')
        elif isinstance(p, NumParam) and p.vtype is float and p.iconvert is None:
            kinds.append('f')
            toks.append('f%s/%s' % (venc(p.default), flags_of(p)))
        else:
            kinds.append('d')
            toks.append('d%s/%d' % (venc(p.default), 1 if p.get_property('mandatory') else 0))
        names.append(name)
    return names, kinds, '%s:%s:%s' % (mdl.class_name, mdl.group, ','.join(toks) if toks else '-')


def flags_of(p):
    return ''.join('1' if p.get_property(k) else '0' for k in ('non_zero', 'non_positive', 'non_negative', 'mandatory'))


def stored_rows(ss, model_names):
    """as_dict(vin=True) of every non-empty model -> {model: [(key, [cells])]} in the `iol` encoding"""
    out = {}
    for mn, mdl in ss.models.items():
        if mdl.n == 0:
            continue
        names, kinds, _ = model_spec(mdl)
        d = mdl.as_dict(vin=True)
        rows = []
        for i in range(mdl.n):
            cells = [(venc if k == 'f' else venc_data)(d[nm][i]) for nm, k in zip(names, kinds)]
            rows.append((kenc(d['idx'][i], model_names), cells))
        out[mn] = rows
    return out


def rows_str(rows_by_model, order):
    toks = []
    for mn in order:
        for key, cells in rows_by_model.get(mn, []):
            toks.append('%s:%s:%s' % (mn, key, ','.join(cells) if cells else '-'))
    return ';'.join(toks) if toks else '-'


FLT = re.compile(r'F([0-9a-f]{16})')


def same_mod_floats(a, b, tol):
    """strings equal except that `F<hex>` floats may differ by `tol` relative"""
    if a == b:
        return True
    if tol <= 0 or FLT.sub('F', a) != FLT.sub('F', b):
        return False
    for x, y in zip(FLT.findall(a), FLT.findall(b)):
        x, y = C.h2f(x), C.h2f(y)
        if x != y and not abs(x - y) <= tol * max(abs(x), abs(y)):
            return False
    return True


def hexlist_close(a, b, tol):
    if a == b:
        return True
    ta, tb = a.split(' '), b.split(' ')
    if len(ta) != len(tb):
        return False
    for x, y in zip(ta, tb):
        if x == y:
            continue
        xs, ys = x.split(','), y.split(',')
        if len(xs) != len(ys):
            return False
        for p, q in zip(xs, ys):
            if p == q:
                continue
            if len(p) != 16 or len(q) != 16 or tol <= 0:
                return False
            u, v = C.h2f(p), C.h2f(q)
            if not abs(u - v) <= tol * max(abs(u), abs(v), 1e-300):
                return False
    return True


# ---------------------------------------------------------------- generated table (Andes/Gen/IoTable.lean)

def dec_of(x):
    d = Decimal(repr(float(x)))
    sign, digits, exp = d.as_tuple()
    m = int(''.join(map(str, digits))) * (-1 if sign else 1)
    if exp >= 0:
        return m * 10 ** exp, 0
    return m, -exp


def lean_val_dec(x):
    if x is None:
        return '.none'
    if isinstance(x, bool):
        return '.int %d' % int(x)
    if isinstance(x, int):
        return '.int (%d)' % x
    if isinstance(x, float):
        if math.isnan(x):
            return '.nan'
        if math.isinf(x):
            return '.pinf' if x > 0 else '.ninf'
        m, e = dec_of(x)
        return '.flt ⟨%d, %d⟩' % (m, e)
    return '.str "%s"' % re.sub(r'[^A-Za-z0-9_\[\], .-]', '?', str(x))


def new_system():
    import andes
    return andes.System(default_config=True, no_output=True)


def generate(ctx):
    import andes
    andes.config_logger(stream_level=50)
    ss = new_system()
    rows = []
    kinds = {}
    for mn, mdl in ss.models.items():
        for pn, p in mdl.num_params.items():
            b = lambda k: 'true' if p.get_property(k) else 'false'
            rows.append('  ("%s", "%s", ⟨%s, %s, %s, %s, %s⟩)' % (mn, pn, lean_val_dec(p.default), b('non_zero'),
                                                                   b('non_positive'), b('non_negative'), b('mandatory')))
            kinds[type(p.default).__name__] = kinds.get(type(p.default).__name__, 0) + 1
    n_expected = sum(len(m.num_params) for m in ss.models.values())
    src = ['import Andes.Model.Io',
           '/-! REGENERATED by harness/c13.py from the model classes of /repo: every NumParam of every model',
           '(default as the exact decimal `repr` prints, restriction flags). -/',
           'namespace Andes.Io.Gen', 'open Andes.Io', '',
           'def table : List (String × String × NumSpec Dec) := [', ',\n'.join(rows), ']', '',
           '/-- every model parameter\'s default satisfies the parameter\'s own restrictions -/',
           'theorem all_defaults_ok : table.all (fun e => defaultOkB e.2.2) = true := by decide +kernel', '',
           'theorem table_size : table.length = %d := by decide +kernel' % len(rows), '',
           'end Andes.Io.Gen', '']
    gdir = os.path.join(C.LEAN, 'Andes', 'Gen')
    os.makedirs(gdir, exist_ok=True)
    path = os.path.join(gdir, 'IoTable.lean')
    text = '\n'.join(src)
    if not os.path.exists(path) or open(path).read() != text:
        with open(path, 'w') as fh:
            fh.write(text)
    ctx.cov['generated_table'] = {'numparams': len(rows), 'models': len(ss.models), 'default_kinds': kinds,
                                  'expected': n_expected}
    if len(rows) != n_expected:
        ctx.broken.append('generate: table has %d rows for %d NumParams' % (len(rows), n_expected))
    return {'modules': ['Andes.Gen.IoTable'], 'theorems': ['Andes.Io.Gen.all_defaults_ok', 'Andes.Io.Gen.table_size']}


# ---------------------------------------------------------------- stream 1: sanitize

class _Owner:
    class_name = 'Stub'


def real_sanitize(default, flags, value):
    """the real NumParam.add + to_array on a fresh parameter; -> encoded value or 'err <e>'"""
    import numpy as np
    from andes.core.param import NumParam
    p = NumParam(default=default, non_zero=flags[0], non_positive=flags[1], non_negative=flags[2], mandatory=flags[3])
    p.owner = _Owner()
    p.name = 'p'
    try:
        p.add(value)
    except TypeError:
        return 'err typeErr'
    except ValueError:
        return 'err mandatory'
    try:
        p.to_array()
    except (ValueError, TypeError):
        return 'err badValue'
    return 'ok ' + venc(float(p.vin[0])), float(p.vin[0])


def sanitize_stream(ctx):
    import numpy as np
    rng = ctx.rng
    ss = new_system()
    cases = []
    vals_common = [None, float('nan'), float('inf'), float('-inf'), 0, 0.0, -0.0, 1, -1, 300, 1.5, -2.5, 1e-9, True]
    skipped = 0
    for mn, mdl in ss.models.items():
        for pn, p in mdl.num_params.items():
            d = p.default
            if isinstance(d, (str, list)):
                skipped += 1
                continue
            fl = tuple(bool(p.get_property(k)) for k in ('non_zero', 'non_positive', 'non_negative', 'mandatory'))
            picks = vals_common if ctx.thorough else rng.sample(vals_common, 4)
            for v in picks:
                cases.append((d, fl, v, '%s.%s' % (mn, pn)))
    ctx.count('sanitize_real_params', len(ss.models) and sum(len(m.num_params) for m in ss.models.values()) - skipped)
    ctx.count('sanitize_skipped_str_or_list_default', skipped)
    defaults = [None, 0, 1, -1, 0.0, 1.0, -1.0, 110.0, 0.01, True]
    for _ in range(ctx.n(600, 6000)):
        fl = tuple(rng.random() < 0.35 for _ in range(4))
        v = rng.choice(vals_common + [rng.uniform(-5, 5), rng.randrange(-3, 4), 'abc'])
        cases.append((rng.choice(defaults), fl, v, 'random'))
    lines, impl = [], []
    for d, fl, v, tag in cases:
        r = real_sanitize(d, fl, v)
        impl.append(r)
        lines.append('ios %s %s %s' % (venc(d), ''.join('1' if b else '0' for b in fl), venc(v)))
    outs = ctx.driver.ask(lines)
    for (d, fl, v, tag), r, line, out in zip(cases, impl, lines, outs):
        rs = r if isinstance(r, str) else r[0]
        vk = type(v).__name__ if not isinstance(v, float) else ('nan' if math.isnan(v) else 'inf' if math.isinf(v) else
                                                                   'zero' if v == 0 else 'float')
        trivial = isinstance(v, float) and vk == 'float' and not any(fl[:3])
        ctx.case(None if trivial else ('san', fl, type(d).__name__, vk, rs[:3]), {'spec': line} if tag == 'random' else None)
        ctx.count('sanitize_' + rs.split(' ')[0] + ('_' + rs.split(' ')[1] if rs.startswith('err') else ''))
        if rs != out:
            ctx.disagree('sanitize', {'param': tag, 'line': line}, rs, out)
        # oracle: what was stored, added again, is stored unchanged (export -> re-import of one cell)
        if not isinstance(r, str):
            w = r[1]
            r2 = real_sanitize(d, fl, w)
            ok = (not isinstance(r2, str)) and (r2[1] == w or (math.isnan(w) and math.isnan(r2[1])))
            if not ok:
                isint = isinstance(v, (int, np.integer)) and not isinstance(v, float)
                key = 'numparam-int-bypass' if isint else 'sanitize-not-idempotent'
                ctx.oracle_fail(key, 'NumParam(%s, flags nz/np/nn/mand=%s).add(%r) stores %r, adding that again gives %r'
                                % (tag, fl, v, w, r2 if isinstance(r2, str) else r2[1]),
                                {'stream': 'sanitize', 'default': repr(d), 'flags': list(fl), 'value': repr(v), 'param': tag})


# ---------------------------------------------------------------- loading / dumping helpers (real code)

def load_case(path, **kw):
    import andes
    return andes.load(path, no_output=True, default_config=True, **kw)


def quiet_numpy():
    import warnings
    import numpy as np
    np.seterr(all='ignore')
    warnings.simplefilter('ignore')


def dump_reload(ss, fmt, tmp, mva=None):
    """real writer + real reader; `mva`: the system base is configuration, not case data - when the harness set
    a non-default base for the original it sets the same base for the reloaded system before setup"""
    import andes
    path = os.path.join(tmp, 'rt_%d.%s' % (len(os.listdir(tmp)), fmt))
    ok = andes.io.dump(ss, fmt, full_path=path, overwrite=True)
    if not ok:
        raise RuntimeError('dump failed')
    if mva is None:
        return load_case(path), path
    b = load_case(path, setup=False)
    b.config.mva = mva
    b.setup()
    return b, path


def vin_table(ss):
    """{model: {param: list}} of as_dict(vin=True), idx included"""
    out = {}
    for mn, mdl in ss.models.items():
        if mdl.n:
            d = mdl.as_dict(vin=True)
            out[mn] = {k: list(v) for k, v in d.items() if k != 'uid'}
            for pn, p in mdl.params.items():
                if p.export and p.oconvert is not None:     # list-valued: compare the values, not their printed literal
                    raw = p.vin if getattr(p, 'vin', None) is not None else p.v
                    out[mn][pn] = [x for x in raw]
    return out


def cell_equal(a, b, tol):
    import numpy as np
    if isinstance(a, (list, np.ndarray)) or isinstance(b, (list, np.ndarray)):
        a, b = np.ravel(np.array(a, dtype=object)), np.ravel(np.array(b, dtype=object))
        return len(a) == len(b) and all(cell_equal(x, y, tol) for x, y in zip(a, b))
    fa = isinstance(a, (int, float, np.integer, np.floating)) and not isinstance(a, bool)
    fb = isinstance(b, (int, float, np.integer, np.floating)) and not isinstance(b, bool)
    if fa and fb:
        a, b = float(a), float(b)
        if math.isnan(a) and math.isnan(b):
            return True
        return a == b or abs(a - b) <= tol * max(abs(a), abs(b))
    if a is None and (b is None or (isinstance(b, float) and math.isnan(b))):
        return True
    if b is None and isinstance(a, float) and math.isnan(a):
        return True
    return a == b or str(a) == str(b)


def violates(p, x):
    try:
        x = float(x)
    except (TypeError, ValueError):
        return False
    return (p.get_property('non_zero') and x == 0) or (p.get_property('non_positive') and x > 0) or \
        (p.get_property('non_negative') and x < 0)


def compare_systems(ctx, a, b, tol, what, case, list_lossy_key='list-param-8-digits'):
    """oracle: same models, same devices (idx), same input-base values"""
    import numpy as np
    ta, tb = vin_table(a), vin_table(b)
    nbad = 0
    if sorted(ta) != sorted(tb):
        ctx.oracle_fail('roundtrip-models-differ', '%s: models %s vs %s' % (what, sorted(ta), sorted(tb)), case)
        return 1
    for mn in ta:
        mdl = a.models[mn]
        if [str(x) for x in ta[mn]['idx']] != [str(x) for x in tb[mn]['idx']] and \
                not all(cell_equal(x, y, 0) for x, y in zip(ta[mn]['idx'], tb[mn]['idx'])):
            ctx.oracle_fail('roundtrip-idx-differ', '%s: %s idx %s vs %s' % (what, mn, ta[mn]['idx'][:8], tb[mn]['idx'][:8]), case)
            nbad += 1
            continue
        for pn in ta[mn]:
            p = mdl.params[pn]
            for i, (x, y) in enumerate(zip(ta[mn][pn], tb[mn][pn])):
                if cell_equal(x, y, tol):
                    continue
                nbad += 1
                if pn in mdl.num_params and p.vtype is float and violates(p, x):
                    key = 'numparam-int-bypass'
                    msg = ('%s: %s.%s of device %s is %r (violates the parameter restriction, entered as an int so '
                           'NumParam.add let it through) and comes back as %r' % (what, mn, pn, ta[mn]['idx'][i], x, y))
                elif p.oconvert is not None:
                    key = list_lossy_key
                    msg = '%s: list-valued %s.%s %r comes back as %r (np.array2string keeps 8 digits)' % (what, mn, pn, x, y)
                else:
                    key = 'roundtrip-value-changed'
                    msg = '%s: %s.%s of device %s: %r -> %r' % (what, mn, pn, ta[mn]['idx'][i], x, y)
                ctx.oracle_fail(key, msg, case)
                if nbad > 5:
                    return nbad
    return nbad


def pflow_sig(ss):
    import numpy as np
    from andes.linsolvers.solverbase import Solver
    try:
        # KLU crashes the interpreter when the sparsity pattern changes between iterations (finding of C16/C17);
        # the solver back end is not what C13 is about
        ss.PFlow.solver = Solver(sparselib='umfpack')
        ok = bool(ss.PFlow.run())
    except Exception as e:  # noqa
        return ('raise', type(e).__name__), None
    return ('ok' if ok else 'fail'), (np.array(ss.Bus.v.v, dtype=float).copy(), np.array(ss.Bus.a.v, dtype=float).copy())


def compare_pflow(ctx, a, b, tol, what, case, tds=False):
    import numpy as np
    sa, va = pflow_sig(a)
    sb, vb = pflow_sig(b)
    if sa != sb:
        ctx.oracle_fail('roundtrip-pflow-differs', '%s: power flow outcome %s vs %s' % (what, sa, sb), case)
        return
    if sa == 'ok':
        d = max(float(np.max(np.abs(va[0] - vb[0]))), float(np.max(np.abs(va[1] - vb[1]))))
        ctx.cov['max_pflow_diff'] = max(ctx.cov.get('max_pflow_diff', 0.0), d)
        if d > tol:
            ctx.oracle_fail('roundtrip-pflow-differs', '%s: power flow solution differs by %.3g' % (what, d), case)
        if tds:
            try:
                a.TDS.init()
                b.TDS.init()
                dx = float(np.max(np.abs(a.dae.x - b.dae.x))) if a.dae.n else 0.0
                dy = float(np.max(np.abs(a.dae.y - b.dae.y)))
                ctx.cov['max_init_diff'] = max(ctx.cov.get('max_init_diff', 0.0), dx, dy)
                if len(a.dae.x) != len(b.dae.x) or max(dx, dy) > max(tol, 1e-9) * 10:
                    ctx.oracle_fail('roundtrip-init-differs', '%s: TDS initial values differ by %.3g' % (what, max(dx, dy)), case)
            except Exception as e:  # noqa
                ctx.notes.append('%s: TDS.init raised %s (not compared)' % (what, type(e).__name__))


# ---------------------------------------------------------------- stream 2: generated tables

def gen_table(rng, intviol_ok=True):
    """a small case as {model: [row dict]} with the cell kinds of the property's quantifier"""
    nb = rng.randint(2, 5)
    style = rng.choice(['int', 'int', 'str', 'mixed'])
    bus_ids = []
    for k in range(nb):
        bus_ids.append(k + 1 if style == 'int' or (style == 'mixed' and k % 2 == 0) else 'B%d' % (k + 1))
    vn = [rng.choice([110.0, 230, 69.0, 13.8]) for _ in range(nb)]
    labels = set()

    def num(x):
        r = rng.random()
        if r < 0.15 and float(x) == int(x):
            labels.add('int-cell')
            return int(x)
        return float(x)

    t = {'Bus': [], 'PQ': [], 'PV': [], 'Slack': [], 'Line': [], 'Shunt': []}
    for k in range(nb):
        row = {'idx': bus_ids[k], 'Vn': vn[k], 'v0': num(1.0), 'a0': 0.0}
        if rng.random() < 0.5:
            row['name'] = 'Bus %d' % (k + 1)
        elif rng.random() < 0.3:
            row['name'] = float('nan')
            labels.add('nan-name')
        if rng.random() < 0.3:
            row['vmax'] = float('nan')
            labels.add('nan-cell')
        t['Bus'].append(row)
    # loads: several per bus, offline, idx missing / duplicated / colliding
    used = []
    for k in range(1, nb):
        for j in range(rng.choice([1, 1, 2, 3])):
            row = {'bus': bus_ids[k], 'Vn': vn[k], 'p0': round(rng.uniform(0.05, 0.4), rng.choice([2, 17])),
                   'q0': round(rng.uniform(0.0, 0.1), 3)}
            if j:
                labels.add('several-loads-per-bus')
            r = rng.random()
            if r < 0.3:
                pass
            elif r < 0.45 and used:
                row['idx'] = rng.choice(used)
                labels.add('dup-idx')
            elif r < 0.55:
                row['idx'] = float('nan')
                labels.add('nan-idx')
            elif r < 0.7:
                row['idx'] = 'PQ_%d' % rng.randint(1, 4)
                labels.add('auto-like-idx')
            else:
                row['idx'] = rng.choice([len(used) + 1, 'L%d' % len(used)])
            if 'idx' in row and not (isinstance(row['idx'], float)):
                used.append(row['idx'])
            r = rng.random()
            if r < 0.2:
                row['u'] = 0
                labels.add('offline')
            elif r < 0.3:
                row['u'] = 1.0
            r = rng.random()
            if r < 0.12:
                row['Vn'] = 0.0
                labels.add('float-zero-nonzero-param')
            elif r < 0.2 and intviol_ok:
                row['Vn'] = 0
                labels.add('INT-OUT-OF-RANGE')
            if rng.random() < 0.15:
                row['owner'] = rng.choice([1, 'own', None])
            t['PQ'].append(row)
    # generators: Slack on bus 0, PV elsewhere; the two models share the group StaticGen (idx collisions)
    t['Slack'].append({'idx': rng.choice([1, 'G1']), 'bus': bus_ids[0], 'Vn': vn[0], 'v0': 1.02, 'a0': 0.0,
                       'Sn': rng.choice([100.0, 250.0])})
    for k in range(1, nb):
        if rng.random() < 0.5:
            row = {'bus': bus_ids[k], 'Vn': vn[k], 'p0': round(rng.uniform(0.05, 0.3), 3), 'v0': 1.01,
                   'Sn': rng.choice([100.0, 80, 300.0])}
            r = rng.random()
            if r < 0.35:
                row['idx'] = t['Slack'][0]['idx']
                labels.add('idx-collides-across-models')
            elif r < 0.7:
                row['idx'] = k + 1
            if rng.random() < 0.3:
                row['pmax'] = float('inf')
                labels.add('inf-cell')
            if rng.random() < 0.2:
                row['qmin'] = float('-inf')
                labels.add('inf-cell')
            if rng.random() < 0.2:
                row['u'] = 0
                labels.add('offline')
            t['PV'].append(row)
    for k in range(nb - 1):
        row = {'bus1': bus_ids[k], 'bus2': bus_ids[k + 1], 'Vn1': vn[k], 'Vn2': vn[k + 1],
               'r': round(rng.uniform(0.001, 0.02), 4), 'x': round(rng.uniform(0.05, 0.2), rng.choice([3, 16])),
               'b': round(rng.uniform(0, 0.05), 3)}
        if vn[k] != vn[k + 1]:
            row['trans'] = 1
            row['tap'] = rng.choice([1.0, 0.98, 1.025])
        if rng.random() < 0.3:
            row['Sn'] = rng.choice([50.0, 200, 100.0])
            labels.add('non-default-base')
        if rng.random() < 0.15:
            row['x'] = 0.0
            labels.add('float-zero-nonzero-param')
        if rng.random() < 0.2:
            row['name'] = 'L%d' % k
        t['Line'].append(row)
    if nb > 2 and rng.random() < 0.5:
        t['Line'].append({'bus1': bus_ids[0], 'bus2': bus_ids[-1], 'Vn1': vn[0], 'Vn2': vn[-1], 'r': 0.01, 'x': 0.1,
                          'u': rng.choice([0, 1]), 'idx': 'Line_1'})
        labels.add('auto-like-idx')
    if rng.random() < 0.6:
        t['Shunt'].append({'bus': bus_ids[-1], 'Vn': vn[-1], 'g': 0.0, 'b': round(rng.uniform(0.01, 0.2), 3),
                           'Sn': rng.choice([100.0, 50.0]), 'u': rng.choice([1, 1, 0])})
    if rng.random() < 0.35:
        t['Toggle'] = [{'model': 'Line', 'dev': t['Line'][0].get('idx', 'Line_1') if 'idx' in t['Line'][0] else 'Line_1',
                        't': rng.choice([1.0, 2, float('nan')])}]
        labels.add('timer-param')
    mva = rng.choice([100.0, 100.0, 50.0])
    return {k: v for k, v in t.items() if v}, sorted(labels), mva


def table_job(args):
    """runs in a forked worker: real reader on the generated json text, real dump+reload; returns plain data"""
    idx, table, labels, mva, want_xlsx = args
    import andes
    import numpy as np
    andes.config_logger(stream_level=50)
    quiet_numpy()
    res = {'idx': idx, 'labels': labels, 'oracle': [], 'notes': [], 'counts': {}}
    tmp = tempfile.mkdtemp(prefix='c13t_')
    try:
        text = json.dumps(table, indent=1)
        path = os.path.join(tmp, 'gen.json')
        with open(path, 'w') as fh:
            fh.write(text)
        res['case'] = {'stream': 'table', 'json': table, 'mva': mva}
        try:
            ss = load_case(path, setup=False)
            ss.config.mva = mva
            ss.setup()
        except Exception as e:  # noqa
            res['error'] = 'load: %s: %s' % (type(e).__name__, str(e)[:200])
            return res
        names = set(ss.models.keys())
        order = [mn for mn in ss.models if ss.models[mn].n]
        specs = ';'.join(model_spec(ss.models[mn])[2] for mn in ss.models if mn in table)
        rows = []
        for mn, rws in table.items():
            pn, kinds, _ = model_spec(ss.models[mn])
            for r in rws:
                cells = [(venc if k == 'f' else venc_data)(r.get(n)) for n, k in zip(pn, kinds)]
                rows.append('%s:%s:%s' % (mn, kenc(r.get('idx'), names), ','.join(cells)))
        res['line'] = 'iol %s %s %s' % (','.join(order), specs, ';'.join(rows))
        res['order'] = order
        res['stored'] = rows_str(stored_rows(ss, names), order)
        cx = C.Ctx('C13', 'quick', 0)
        cx.known = {}
        # real json round trip
        b, _ = dump_reload(ss, 'json', tmp, mva)
        res['json'] = rows_str(stored_rows(b, names), order)
        compare_systems(cx, ss, b, 0.0, 'json dump+reload of a generated case', res['case'])
        a2 = load_case(path, setup=False)
        a2.config.mva = mva
        a2.setup()
        compare_pflow(cx, a2, b, 1e-12, 'json dump+reload of a generated case', res['case'])
        if want_xlsx:
            c, _ = dump_reload(ss, 'xlsx', tmp, mva)
            res['xlsx'] = rows_str(stored_rows(c, names), order)
            compare_systems(cx, ss, c, 1e-12, 'xlsx dump+reload of a generated case', res['case'])
        res['oracle'] = [(f['key'], f['what']) for f in cx.oracle_failures]
        res['notes'] = cx.notes
    except Exception as e:  # noqa
        res['error'] = 'job: ' + traceback.format_exc()[-600:]
    finally:
        shutil.rmtree(tmp, ignore_errors=True)
    return res


def run_pool(fn, jobs, nproc=4):
    """fork pool that survives a crashing worker (a segfault in a C extension must not hang the check)"""
    import multiprocessing as mp
    from concurrent.futures import ProcessPoolExecutor
    from concurrent.futures.process import BrokenProcessPool
    if not jobs:
        return []
    out = [None] * len(jobs)

    def attempt(idxs, workers):
        redo = []
        with ProcessPoolExecutor(max_workers=workers, mp_context=mp.get_context('fork')) as ex:
            futs = {i: ex.submit(fn, jobs[i]) for i in idxs}
            for i, f in futs.items():
                try:
                    out[i] = f.result(timeout=1500)
                except BrokenProcessPool:
                    redo.append(i)
                except Exception as e:  # noqa
                    out[i] = {'idx': i, 'error': 'job raised %s' % type(e).__name__, 'case': {'stream': 'pool', 'job': i},
                              'labels': [], 'oracle': [], 'notes': [], 'cov': {}}
        return redo
    redo = attempt(range(len(jobs)), min(nproc, len(jobs)))
    for i in redo:
        if attempt([i], 1):
            out[i] = {'idx': i, 'error': 'worker process crashed', 'case': {'stream': 'pool', 'job': i}, 'labels': [],
                      'oracle': [], 'notes': [], 'cov': {}}
    return out


def table_stream(ctx, tables=None):
    n = ctx.n(8, 80)
    jobs = []
    if tables is None:
        for k in range(n):
            t, labels, mva = gen_table(ctx.rng)
            jobs.append((k, t, labels, mva, ctx.thorough or k % 2 == 0))
    else:
        jobs = [(k, t, ['corpus'], mva, True) for k, (t, mva) in enumerate(tables)]
    results = run_pool(table_job, jobs)
    lines = [r['line'] for r in results if 'line' in r]
    outs = iter(ctx.driver.ask(lines))
    ok_all = True
    for r in results:
        for lab in r['labels']:
            ctx.count('table_label_' + lab)
        if 'error' in r and 'line' not in r:
            ctx.count('table_load_error')
            ctx.notes.append('table case %d: %s' % (r['idx'], r['error'][:160]))
            ctx.case(None)
            continue
        out = next(outs)
        ctx.case(('table', hash(r['line'])), {'labels': r['labels']} )
        if not out.startswith('ok '):
            ctx.disagree('table-load', r['case'], 'loaded', out)
            ok_all = False
            continue
        parts = out[3:].split('|')
        # the model lists devices in order of addition; compare model by model
        def by_model(s):
            d = {}
            for tok in (s.split(';') if s != '-' else []):
                d.setdefault(tok.split(':')[0], []).append(tok)
            return ';'.join(';'.join(d.get(m, [])) for m in r['order'])
        if by_model(parts[0]) != by_model(r['stored']):
            ctx.disagree('table-load', r['case'], r['stored'], parts[0])
            ok_all = False
        intviol = 'INT-OUT-OF-RANGE' in r['labels'] or any(k == 'numparam-int-bypass' for k, _ in r['oracle'])
        if 'json' in r and by_model(parts[1]) != by_model(r['json']):
            ctx.disagree('table-json-roundtrip', r['case'], r['json'], parts[1])
            ok_all = False
        if intviol and 'xlsx' in r:
            # pandas returns an integral xlsx column as ints, which bypass the corrections again (cell typing residue);
            # such tables are outside TableOk, the model implements the json behaviour
            ctx.count('table_xlsx_model_compare_skipped_intviol')
        elif 'xlsx' in r and not same_mod_floats(by_model(parts[2]), by_model(r['xlsx']), 1e-12):
            ctx.disagree('table-xlsx-roundtrip', r['case'], r['xlsx'], parts[2])
            ok_all = False
        if 'error' in r:
            ctx.notes.append('table case %d: %s' % (r['idx'], r['error'][:300]))
            ctx.count('table_job_error')
        for key, what in r['oracle']:
            ctx.oracle_fail(key, what, r['case'])
            ok_all = False
        if intviol and not any(k == 'numparam-int-bypass' for k, _ in r['oracle']):
            ctx.count('table_intviol_not_visible')
    return ok_all


# ---------------------------------------------------------------- stream 3: stock cases

STOCK_SMALL = ['5bus/pjm5bus.json', '5bus/pjm5bus.xlsx', 'ieee14/ieee14.json', 'ieee14/ieee14.raw', 'ieee14/ieee14_full.xlsx',
               'ieee14/ieee14_fault.json', 'ieee14/ieee14_shuntsw.xlsx', 'ieee14/ieee14_zip.json', 'ieee14/ieee14_pvd1.xlsx',
               'ieee14/ieee14_esst3a.xlsx', 'kundur/kundur_full.xlsx', 'kundur/kundur_full.json',
               'ieee39/ieee39_full.xlsx', 'wscc9/wscc9.xlsx', 'smib/SMIB.json', 'matpower/case14.m', 'matpower/case5.m',
               'ieee14/ieee14_ace.xlsx', 'kundur/kundur.raw']


def stock_job(args):
    rel, dyn = args
    import andes
    andes.config_logger(stream_level=50)
    quiet_numpy()
    res = {'case': {'stream': 'stock', 'case': rel}, 'oracle': [], 'notes': [], 'cov': {}}
    tmp = tempfile.mkdtemp(prefix='c13s_')
    try:
        path = andes.get_case(rel)
        kw = {}
        dyr = os.path.splitext(path)[0] + '.dyr'
        if path.endswith('.raw') and os.path.exists(dyr):
            kw['addfile'] = dyr
        os.chdir(os.path.dirname(path))
        cx = C.Ctx('C13', 'quick', 0)
        cx.known = {}
        a = load_case(path, **kw)
        for fmt, tol in (('json', 0.0), ('xlsx', 1e-12)):
            b, _ = dump_reload(a, fmt, tmp)
            compare_systems(cx, a, b, tol, '%s -> %s -> reload' % (rel, fmt), res['case'])
            a2 = load_case(path, **kw)
            compare_pflow(cx, a2, b, 1e-9, '%s -> %s -> reload' % (rel, fmt), res['case'], tds=dyn and fmt == 'json')
        res['oracle'] = [(f['key'], f['what']) for f in cx.oracle_failures]
        res['notes'] = cx.notes
        res['cov'] = cx.cov
        res['n'] = sum(m.n for m in a.models.values())
    except Exception:  # noqa
        res['error'] = traceback.format_exc()[-500:]
    finally:
        shutil.rmtree(tmp, ignore_errors=True)
    return res


def stock_stream(ctx, cases=None):
    import andes
    if cases is None:
        pool = [c for c in STOCK_SMALL if os.path.exists(andes.get_case(c, check=False))]
        cases = pool if ctx.thorough else ctx.rng.sample(pool, 2)
    results = run_pool(stock_job, [(c, True) for c in cases], nproc=3)
    ok_all = True
    for r in results:
        ctx.case(('stock', r['case']['case']), r['case'])
        ctx.count('stock_cases')
        if 'error' in r:
            ctx.notes.append('stock %s: %s' % (r['case']['case'], r['error'][-200:]))
            ctx.count('stock_job_error')
            continue
        ctx.count('stock_devices', r.get('n', 0))
        for k, v in r['cov'].items():
            ctx.cov[k] = max(ctx.cov.get(k, 0.0), v)
        ctx.notes.extend(r['notes'][:2])
        for key, what in r['oracle']:
            ctx.oracle_fail(key, what, r['case'])
            ok_all = False
    return ok_all


# ---------------------------------------------------------------- stream 4: MATPOWER

def fmt_num(x, rng):
    if float(x) == int(x) and rng.random() < 0.5:
        return '%d' % int(x)
    return repr(float(x))


def gen_mpc(rng):
    nb = rng.randint(2, 5)
    base = rng.choice([100.0, 100.0, 100.0, 50.0, 200.0])
    kv = [rng.choice([138.0, 69.0, 0.0 if rng.random() < 0.2 else 230.0]) for _ in range(nb)]
    bus, gen, br = [], [], []
    for k in range(nb):
        ty = 3 if k == 0 else rng.choice([1, 1, 2])
        pd = 0.0 if rng.random() < 0.3 else round(rng.uniform(5, 40), 2)
        qd = 0.0 if pd == 0 and rng.random() < 0.7 else round(rng.uniform(1, 10), 2)
        gs = round(rng.uniform(0, 3), 2) if rng.random() < 0.3 else 0.0
        bs = round(rng.uniform(-10, 20), 2) if rng.random() < 0.4 else 0.0
        bus.append([k + 1, ty, pd, qd, gs, bs, 1, round(rng.uniform(0.98, 1.04), 3), round(rng.uniform(-5, 5), 2) if k else 0.0,
                    kv[k], 1, 1.1, 0.9])
        if ty != 1:
            gen.append([k + 1, round(rng.uniform(5, 50), 1), 0.0, 60.0, -40.0, bus[-1][7], rng.choice([100.0, 150.0]),
                        rng.choice([1, 1, 1, 0]) if k else 1, 100.0, 0.0] + [0.0] * 11)
    pairs = [(k, k + 1) for k in range(nb - 1)] + ([(0, nb - 1)] if nb > 2 else [])
    for f, t in pairs:
        kind = rng.choice(['line', 'line', 'ratio1', 'xf', 'xfphase'])
        ratio, ang = {'line': (0.0, 0.0), 'ratio1': (1.0, 0.0), 'xf': (rng.choice([0.95, 1.03]), 0.0),
                      'xfphase': (1.0, rng.choice([2.0, -3.5]))}[kind]
        br.append([f + 1, t + 1, round(rng.uniform(0.002, 0.03), 4), round(rng.uniform(0.03, 0.2), 4),
                   round(rng.uniform(0, 0.06), 3), 100.0, 110.0, 120.0, ratio, ang, rng.choice([1, 1, 1, 0]), -360.0, 360.0])
    def block(name, rows):
        out = ['mpc.%s = [' % name]
        for i, r in enumerate(rows):
            s = '\t' + '\t'.join(fmt_num(x, rng) for x in r) + ';'
            if rng.random() < 0.2:
                s += '  % comment ' + str(i)
            out.append(s)
        out.append('];')
        return out
    lines = ['function mpc = gen', '% generated by harness/c13.py', "mpc.version = '2';", 'mpc.baseMVA = %s;' % fmt_num(base, rng),
             '%% bus data', '%\tbus_i\ttype\tPd\tQd'] + block('bus', bus) + ['%% generator data'] + block('gen', gen) + \
            ['%% branch data'] + block('branch', br)
    return {'base': base, 'bus': bus, 'gen': gen, 'branch': br, 'text': '\n'.join(lines) + '\n'}


def own_m_reader(text):
    """independent reading of a MATPOWER file (only what the generator writes and the stock cases use)"""
    out = {}
    m = re.search(r'mpc\.baseMVA\s*=\s*([^;]+);', text)
    out['baseMVA'] = float(m.group(1))
    for name in ('bus', 'gen', 'branch'):
        m = re.search(r'mpc\.%s\s*=\s*\[(.*?)\]\s*;' % name, text, re.S)
        rows = []
        for ln in (m.group(1) if m else '').split('\n'):
            ln = ln.split('%')[0]
            for part in ln.split(';'):
                if part.strip():
                    rows.append([float(x) for x in part.split()])
        out[name] = rows
    return out


def mpc_job(args):
    idx, g, extra = args
    import andes
    import numpy as np
    from andes.io import matpower
    from andes.shared import deg2rad, rad2deg
    andes.config_logger(stream_level=50)
    quiet_numpy()
    res = {'idx': idx, 'lines': [], 'impl': [], 'tol': [], 'oracle': [], 'counts': {},
           'case': {'stream': 'mpc', 'text': g['text'], 'extra': extra}}
    tmp = tempfile.mkdtemp(prefix='c13m_')
    try:
        path = os.path.join(tmp, 'gen.m')
        with open(path, 'w') as fh:
            fh.write(g['text'])
        own = own_m_reader(g['text'])
        mpc = matpower.m2mpc(path)
        for k in ('bus', 'gen', 'branch'):
            if np.array(own[k]).shape != np.array(mpc[k]).shape or not np.array_equal(np.array(own[k]), mpc[k]):
                res['oracle'].append(('mpc-parser-differs', 'm2mpc reads section %s differently from an independent reader' % k))
        if own['baseMVA'] != mpc['baseMVA']:
            res['oracle'].append(('mpc-parser-differs', 'baseMVA %r vs %r' % (mpc['baseMVA'], own['baseMVA'])))
        ss = andes.System(default_config=True, no_output=True)
        matpower.mpc2system(mpc, ss)
        for e in extra:
            ss.add('PQ', dict(e))
        ss.setup()
        base = own['baseMVA']
        hb, hd = F2H(base), F2H(deg2rad)
        sw = [int(r[0]) for r in own['bus'] if r[1] == 3]
        nextra = len(extra)
        pq_rows = list(zip(ss.PQ.bus.v, ss.PQ.p0.vin, ss.PQ.q0.vin))[:ss.PQ.n - nextra] if ss.PQ.n else []
        sh_rows = list(zip(ss.Shunt.bus.v, ss.Shunt.g.vin, ss.Shunt.b.vin, ss.Shunt.g.v, ss.Shunt.b.v)) if ss.Shunt.n else []
        for i, r in enumerate(own['bus']):
            res['lines'].append('mpb %s %s %d %d %s' % (hb, hd, int(r[0]), int(r[1]), ','.join(F2H(x) for x in
                                                                                          (r[2], r[3], r[4], r[5], r[7], r[8], r[9], r[11], r[12]))))
            B = ss.Bus
            bimpl = ','.join(F2H(x) for x in (B.Vn.vin[i], B.v0.vin[i], B.a0.vin[i], B.vmax.vin[i], B.vmin.vin[i]))
            pq = [x for x in pq_rows if x[0] == int(r[0])]
            sh = [x for x in sh_rows if x[0] == int(r[0])]
            res['impl'].append('%s %s %s' % (bimpl, ','.join(F2H(x) for x in pq[0][1:]) if pq else '-',
                                             ','.join(F2H(x) for x in sh[0][1:]) if sh else '-'))
            res['tol'].append(1e-13)
            # physical reading: MW / base, admittance at 1 pu on the system base
            if pq and not (cell_equal(pq[0][1], r[2] / base, 1e-13) and cell_equal(pq[0][2], r[3] / base, 1e-13)):
                res['oracle'].append(('mpc-load-not-physical', 'bus %d: PQ %r vs Pd/base %r' % (r[0], pq[0][1:], (r[2] / base, r[3] / base))))
            if bool(pq) != (r[2] != 0 or r[3] != 0):
                res['oracle'].append(('mpc-load-not-physical', 'bus %d: load presence' % r[0]))
            if sh and not (cell_equal(sh[0][3], r[4] / base, 1e-12) and cell_equal(sh[0][4], r[5] / base, 1e-12)):
                res['oracle'].append(('mpc-sn-default-100', 'baseMVA = %r: bus %d shunt Gs,Bs = %r,%r MW/Mvar at 1 pu is %r,%r pu on the '
                                      'system base, but the Shunt added without Sn (default 100 MVA) has g,b = %r,%r'
                                      % (base, r[0], r[4], r[5], r[4] / base, r[5] / base, sh[0][3], sh[0][4])))
        gi = 0
        for r in own['gen']:
            gi += 1
            res['lines'].append('mpg %s %s %d %d %s' % (hb, ','.join(map(str, sw)) or '-', int(r[0]), int(r[7]),
                                                       ','.join(F2H(x) for x in (r[1], r[2], r[3], r[4], r[5], r[8], r[9]))))
            isslack = gi in ss.Slack.idx.v
            M = ss.Slack if isslack else ss.PV
            u = M.idx2uid(gi)
            res['impl'].append('%d %d %s' % (1 if isslack else 0, int(M.u.vin[u]),
                                             ','.join(F2H(M.__dict__[k].vin[u]) for k in ('v0', 'p0', 'q0', 'pmax', 'pmin', 'qmax', 'qmin'))))
            res['tol'].append(0.0)
            if not cell_equal(M.p0.v[u], r[1] / base, 1e-13) or int(M.bus.v[u]) != int(r[0]):
                res['oracle'].append(('mpc-gen-not-physical', 'gen %d: p0 %r vs Pg/base %r' % (gi, M.p0.v[u], r[1] / base)))
        L = ss.Line
        for i, r in enumerate(own['branch']):
            res['lines'].append('mpl %s %s %d %d %d %s' % (hb, hd, int(r[0]), int(r[1]), int(r[10]),
                                                          ','.join(F2H(x) for x in (r[2], r[3], r[4], r[5], r[6], r[7], r[8], r[9]))))
            res['impl'].append('%d %d %d %d %s %s' % (int(L.bus1.v[i]), int(L.bus2.v[i]), int(L.u.vin[i]), int(L.trans.vin[i]),
                                                      ','.join(F2H(L.__dict__[k].vin[i]) for k in ('Sn', 'r', 'x', 'b', 'tap', 'phi', 'rate_a', 'rate_b', 'rate_c')),
                                                      ','.join(F2H(L.__dict__[k].v[i]) for k in ('r', 'x', 'b'))))
            res['tol'].append(1e-13)
            if not all(cell_equal(L.__dict__[k].v[i], r[c], 1e-12) for k, c in (('r', 2), ('x', 3), ('b', 4))):
                res['oracle'].append(('mpc-sn-default-100', 'baseMVA = %r: branch %d-%d has r,x,b = %r,%r,%r pu on the system base in the file, '
                                      'but the Line added without Sn (default 100 MVA) gets %r,%r,%r'
                                      % (base, r[0], r[1], r[2], r[3], r[4], L.r.v[i], L.x.v[i], L.b.v[i])))
            tap = 1.0 if r[8] == 0 else r[8]
            if not (cell_equal(L.tap.v[i], tap, 0) and cell_equal(L.phi.v[i], (0.0 if r[8] == 0 else r[9]) * math.pi / 180, 1e-15)):
                res['oracle'].append(('mpc-tap-not-physical', 'branch %d-%d tap/shift' % (r[0], r[1])))
        # ---- export: system2mpc vs model, then re-import and compare electrically
        m2 = matpower.system2mpc(ss)
        hr = F2H(rad2deg)
        for i in range(L.n):
            res['lines'].append('mxl %s %d %d %d %s' % (hr, int(L.bus1.v[i]), int(L.bus2.v[i]), int(L.u.v[i]),
                                                       ','.join(F2H(L.__dict__[k].v[i]) for k in ('r', 'x', 'b', 'tap', 'phi', 'rate_a', 'rate_b', 'rate_c'))))
            b = m2['branch'][i]
            res['impl'].append('%d %d %d %s' % (int(b[0]), int(b[1]), int(b[10]), ','.join(F2H(b[c]) for c in (2, 3, 4, 5, 6, 7, 8, 9))))
            res['tol'].append(0.0)
        pqs = ';'.join('%d:%d:%s:%s' % (int(b), int(u), F2H(p), F2H(q)) for b, u, p, q in
                       zip(ss.PQ.bus.v, ss.PQ.u.v, ss.PQ.p0.v, ss.PQ.q0.v)) or '-'
        for i, bid in enumerate(ss.Bus.idx.v):
            res['lines'].append('mxp %s %d %s' % (hb, int(bid), pqs))
            res['impl'].append('%s,%s' % (F2H(m2['bus'][i][2]), F2H(m2['bus'][i][3])))
            res['tol'].append(0.0)
        s2 = andes.System(default_config=True, no_output=True)
        matpower.mpc2system(m2, s2)
        s2.setup()
        bad = []

        def busload(s, attr):
            d = {}
            for b, u, p in zip(s.PQ.bus.v, s.PQ.u.v, s.PQ.__dict__[attr].v):
                d[int(b)] = d.get(int(b), 0.0) + float(u) * float(p)
            return d
        for attr in ('p0', 'q0'):
            la, lb = busload(ss, attr), busload(s2, attr)
            for b in sorted(set(la) | set(lb)):
                if not cell_equal(la.get(b, 0.0), lb.get(b, 0.0), 1e-12):
                    n_on = sum(1 for x in ss.PQ.bus.v if int(x) == b)
                    off = any(float(u) == 0 for x, u in zip(ss.PQ.bus.v, ss.PQ.u.v) if int(x) == b)
                    key = 'mpc-export-loads-last-wins' if n_on > 1 else 'mpc-export-offline-load' if off else 'mpc-roundtrip-not-equivalent'
                    bad.append((key, 'system2mpc -> mpc2system: connected %s at bus %d is %r before and %r after (%d PQ on the bus%s)'
                                % (attr, b, la.get(b, 0.0), lb.get(b, 0.0), n_on, ', one disconnected' if off else '')))
        if L.n == s2.Line.n:
            for i in range(L.n):
                if not all(cell_equal(L.__dict__[k].v[i], s2.Line.__dict__[k].v[i], 1e-12) for k in ('r', 'x', 'b', 'tap', 'phi', 'u')):
                    key = 'mpc-sn-default-100' if base != 100 else 'mpc-roundtrip-not-equivalent'
                    bad.append((key, 'system2mpc -> mpc2system on baseMVA %r: line %d r,x,b %r -> %r' %
                                (base, i, [float(L.__dict__[k].v[i]) for k in ('r', 'x', 'b')],
                                 [float(s2.Line.__dict__[k].v[i]) for k in ('r', 'x', 'b')])))
                    break
        else:
            bad.append(('mpc-roundtrip-not-equivalent', 'line count changes'))
        res['oracle'] += bad[:4]
        res['counts'] = {'mpc_base_%g' % base: 1, 'mpc_extra_loads': nextra, 'mpc_buses': len(own['bus']), 'mpc_branches': len(own['branch'])}
    except Exception:  # noqa
        res['error'] = traceback.format_exc()[-700:]
    finally:
        shutil.rmtree(tmp, ignore_errors=True)
    return res


def generic_stream(ctx, name, results, cmp=hexlist_close):
    lines = [l for r in results for l in r.get('lines', [])]
    outs = iter(ctx.driver.ask(lines))
    ok_all = True
    for r in results:
        ctx.case((name, hash(json.dumps(r['case'], sort_keys=True, default=str))), None)
        for k, v in r.get('counts', {}).items():
            ctx.count(k, v)
        if 'error' in r:
            ctx.notes.append('%s case %d: %s' % (name, r['idx'], r['error'][-300:]))
            ctx.count(name + '_job_error')
        for line, impl, tol in zip(r.get('lines', []), r.get('impl', []), r.get('tol', [])):
            out = next(outs)
            ctx.count(name + '_op_' + line.split(' ')[0])
            if not cmp(impl, out, tol):
                ctx.disagree(name, {'line': line, 'case': r['case']}, impl, out)
                ok_all = False
        seen = set()
        for key, what in r.get('oracle', []):
            if key not in seen:
                ctx.oracle_fail(key, what, r['case'])
                seen.add(key)
            ok_all = False
    return ok_all


def mpc_stream(ctx, gens=None):
    jobs = []
    if gens is None:
        for k in range(ctx.n(6, 60)):
            g = gen_mpc(ctx.rng)
            extra = []
            if ctx.rng.random() < 0.5:
                b = ctx.rng.choice(g['bus'])
                extra.append({'bus': int(b[0]), 'Vn': b[9] or 110.0, 'p0': 0.07, 'q0': 0.01,
                              'u': ctx.rng.choice([1, 1, 0])})
            jobs.append((k, g, extra))
    else:
        jobs = [(k, g, e) for k, (g, e) in enumerate(gens)]
    return generic_stream(ctx, 'mpc', run_pool(mpc_job, jobs))


# ---------------------------------------------------------------- stream 5: PSS/E RAW

def gen_raw(rng):
    mva = rng.choice([100.0, 100.0, 100.0, 50.0, 200.0])
    nb = rng.randint(3, 5)
    kvs = [rng.choice([138.0, 230.0, 69.0]) for _ in range(nb)]
    kvs[-1] = 13.8
    bus = [[k + 1, "'B%d'" % (k + 1), kvs[k], 3 if k == 0 else (2 if k == 2 else 1), 1, 1, 1,
            round(rng.uniform(0.97, 1.04), 3), round(rng.uniform(-4, 4), 2) if k else 0.0] for k in range(nb)]
    loads, shunts, gens, brs, xf2, xf3 = [], [], [], [], [], []
    for k in range(1, nb):
        for j in range(rng.choice([0, 1, 1, 2])):
            zi = rng.random() < 0.4
            loads.append([k + 1, "'%d '" % (j + 1), rng.choice([1, 1, 0]), 1, 1, round(rng.uniform(5, 40), 2), round(rng.uniform(1, 9), 2),
                          round(rng.uniform(0, 5), 2) if zi else 0.0, round(rng.uniform(0, 2), 2) if zi else 0.0,
                          round(rng.uniform(0, 5), 2) if zi else 0.0, round(rng.uniform(0, 2), 2) if zi else 0.0, 1])
    if rng.random() < 0.6:
        shunts.append([rng.randint(2, nb), "'1 '", rng.choice([1, 1, 0]), round(rng.uniform(0, 2), 2), round(rng.uniform(-5, 15), 2)])
    for k in (0, 2):
        gens.append([k + 1, "'1 '", round(rng.uniform(5, 50), 1), 0.0, 50.0, -50.0, bus[k][7], 0, rng.choice([100.0, 120.0, 80.0]),
                     0.0, rng.choice([0.2, 0.25]), 0.0, 0.0, 1.0, 1, 100.0, 100.0, 0.0, 1, 1.0])
    # branch 1-2 always a line (equal kV forced), 2-3 a two-winding transformer, the rest alternating
    kvs[1] = kvs[0]
    bus[1][2] = kvs[1]
    sh = rng.random() < 0.25
    brs.append([1, 2, "'1 '", round(rng.uniform(0.002, 0.03), 4), round(rng.uniform(0.03, 0.2), 4), round(rng.uniform(0, 0.06), 3),
                100.0, 110.0, 120.0] + ([0.001, 0.002, 0.003, 0.004] if sh else [0.0, 0.0, 0.0, 0.0]) + [rng.choice([1, 1, 0]), 1.0, 1, 1.0])
    cw, cz = rng.choice([1, 2, 3]), rng.choice([1, 1, 2])
    nom1 = rng.choice([0.0, kvs[1]])
    nom2 = rng.choice([0.0, kvs[2]])
    if cw == 2:
        w1, w2 = round(kvs[1] * rng.choice([1.0, 1.025, 0.975]), 3), round(kvs[2] * rng.choice([1.0, 0.99]), 3)
    else:
        w1, w2 = rng.choice([1.0, 1.025, 0.975]), rng.choice([1.0, 0.99])
    xf2.append({'i': 2, 'j': 3, 'cw': cw, 'cz': cz, 'cm': 1, 'mag1': 0.0, 'mag2': rng.choice([0.0, -0.01, -0.02]), 'stat': rng.choice([1, 1, 0]),
                'r12': round(rng.uniform(0.001, 0.01), 4), 'x12': round(rng.uniform(0.05, 0.2), 4),
                'sb': rng.choice([mva, 80.0, 150.0]) if cz == 2 else rng.choice([mva, 80.0]),
                'w1': w1, 'n1': nom1, 'a1': rng.choice([0.0, 0.0, 2.0, -30.0]), 'ra': 100.0, 'rb': 110.0, 'rc': 120.0, 'w2': w2, 'n2': nom2})
    if nb >= 4:
        if nb == 5 and rng.random() < 0.7:
            cz3 = rng.choice([1, 2])
            xf3.append({'i': 3, 'j': 4, 'k': 5, 'cw': 1, 'cz': cz3, 'cm': 1, 'mag2': rng.choice([0.0, 0.0, -0.015]), 'stat': 1,
                        'z': [round(rng.uniform(0.001, 0.01), 4), round(rng.uniform(0.08, 0.2), 4), rng.choice([mva, 60.0]) if cz3 == 2 else mva,
                              round(rng.uniform(0.001, 0.01), 4), round(rng.uniform(0.08, 0.2), 4), rng.choice([mva, 40.0]) if cz3 == 2 else mva,
                              round(rng.uniform(0.001, 0.01), 4), round(rng.uniform(0.08, 0.2), 4), rng.choice([mva, 30.0]) if cz3 == 2 else mva],
                        'vm': 1.01, 'an': -3.0, 'w': [rng.choice([1.0, 1.02]), rng.choice([1.0, 0.98]), 1.0]})
        else:
            for k in range(2, nb - 1):
                xf2.append({'i': k + 1, 'j': k + 2, 'cw': 1, 'cz': 1, 'cm': 1, 'mag1': 0.0, 'mag2': 0.0, 'stat': 1, 'r12': 0.002, 'x12': 0.1,
                            'sb': mva, 'w1': 1.0, 'n1': 0.0, 'a1': 0.0, 'ra': 100.0, 'rb': 100.0, 'rc': 100.0, 'w2': 1.0, 'n2': 0.0})

    def ln(vals):
        return ','.join(v if isinstance(v, str) else (repr(float(v)) if isinstance(v, float) else str(v)) for v in vals)
    out = ['0,   %s, 33, 0, 1, 60.00     / generated by harness/c13.py' % repr(mva), 'line two', 'line three']
    out += [ln(b) for b in bus] + ['0 / END OF BUS DATA, BEGIN LOAD DATA']
    out += [ln(x) for x in loads] + ['0 / END OF LOAD DATA, BEGIN FIXED SHUNT DATA']
    out += [ln(x) for x in shunts] + ['0 / END OF FIXED SHUNT DATA, BEGIN GENERATOR DATA']
    out += [ln(x) for x in gens] + ['0 / END OF GENERATOR DATA, BEGIN BRANCH DATA']
    out += [ln(x) for x in brs] + ['0 / END OF BRANCH DATA, BEGIN TRANSFORMER DATA']
    for t in xf2:
        out.append(ln([t['i'], t['j'], 0, "'1 '", t['cw'], t['cz'], t['cm'], t['mag1'], t['mag2'], 2, "'T           '", t['stat'], 1, 1.0]))
        out.append(ln([t['r12'], t['x12'], t['sb']]))
        out.append(ln([t['w1'], t['n1'], t['a1'], t['ra'], t['rb'], t['rc'], 0, 0, 1.1, 0.9, 1.1, 0.9, 33, 0, 0.0, 0.0]))
        out.append(ln([t['w2'], t['n2']]))
    for t in xf3:
        out.append(ln([t['i'], t['j'], t['k'], "'1 '", t['cw'], t['cz'], t['cm'], 0.0, t['mag2'], 2, "'T3          '", t['stat'], 1, 1.0]))
        out.append(ln(t['z'] + [t['vm'], t['an']]))
        for w in t['w']:
            out.append(ln([w, 0.0, 0.0, 100.0, 100.0, 100.0, 0, 0, 1.1, 0.9, 1.1, 0.9, 33, 0, 0.0, 0.0]))
    out += ['0 / END OF TRANSFORMER DATA, BEGIN AREA DATA', '0 / END OF AREA DATA', 'Q']
    return {'text': '\n'.join(out) + '\n', 'mva': mva}


def own_raw_reader(text):
    """independent reading of the RAW text the generator writes (v33 blocks bus..transformer)"""
    L = text.split('\n')
    mva = float(L[0].split('/')[0].split(',')[1])
    blocks, cur = [], []
    for s in L[3:]:
        s = s.strip()
        if s.startswith('Q'):
            break
        if s.startswith('0 /') or s == '0':
            blocks.append(cur)
            cur = []
            continue
        cur.append([x.strip() for x in s.split(',')])

    def num(x):
        return float(x) if not x.startswith("'") else x.strip("'").strip()
    blocks = [[[num(x) for x in r] for r in b] for b in blocks]
    tr, i, rows = [], 0, blocks[5]
    while i < len(rows):
        k = 5 if rows[i][2] != 0 else 4
        tr.append(rows[i:i + k])
        i += k
    return {'mva': mva, 'bus': blocks[0], 'load': blocks[1], 'fshunt': blocks[2], 'gen': blocks[3], 'branch': blocks[4], 'transf': tr}


def raw_job(args):
    idx, g = args
    import andes
    import numpy as np
    from andes.shared import deg2rad
    andes.config_logger(stream_level=50)
    quiet_numpy()
    res = {'idx': idx, 'lines': [], 'impl': [], 'tol': [], 'oracle': [], 'counts': {}, 'case': {'stream': 'raw', 'text': g['text']}}
    tmp = tempfile.mkdtemp(prefix='c13r_')
    try:
        path = os.path.join(tmp, 'gen.raw')
        with open(path, 'w') as fh:
            fh.write(g['text'])
        own = own_raw_reader(g['text'])
        ss = load_case(path)
        mva = own['mva']
        O = res['oracle']
        if ss.config.mva != mva:
            O.append(('raw-header', 'system base %r vs %r' % (ss.config.mva, mva)))
        kv = {int(b[0]): b[2] for b in own['bus']}
        v0 = {int(b[0]): b[7] for b in own['bus']}
        if [int(x) for x in ss.Bus.idx.v][:len(own['bus'])] != [int(b[0]) for b in own['bus']] or \
                not all(cell_equal(a, b[2], 0) for a, b in zip(ss.Bus.Vn.v, own['bus'])):
            O.append(('raw-bus-not-physical', 'bus idx / kV differ from the file'))
        hm, hd = F2H(mva), F2H(deg2rad)
        # loads
        for i, r in enumerate(own['load']):
            b = int(r[0])
            res['lines'].append('rwl %s %s %s' % (hm, F2H(v0[b]), ','.join(F2H(x) for x in (r[5], r[6], r[7], r[8], r[9], r[10]))))
            res['impl'].append('%s,%s' % (F2H(ss.PQ.p0.vin[i]), F2H(ss.PQ.q0.vin[i])))
            res['tol'].append(4e-16)
            ep = (r[5] + r[7] * v0[b] + r[9] * v0[b] ** 2) / mva
            eq = (r[6] + r[8] * v0[b] - r[10] * v0[b] ** 2) / mva
            if not (cell_equal(ss.PQ.p0.v[i], ep, 1e-13) and cell_equal(ss.PQ.q0.v[i], eq, 1e-13) and int(ss.PQ.bus.v[i]) == b
                    and float(ss.PQ.u.v[i]) == float(r[2])):
                O.append(('raw-load-not-physical', 'load %d at bus %d: p0,q0,u = %r,%r,%r; file says %r,%r,%r' %
                          (i, b, ss.PQ.p0.v[i], ss.PQ.q0.v[i], ss.PQ.u.v[i], ep, eq, r[2])))
        for i, r in enumerate(own['fshunt']):
            if not (cell_equal(ss.Shunt.g.v[i], r[3] / mva, 1e-13) and cell_equal(ss.Shunt.b.v[i], r[4] / mva, 1e-13)
                    and float(ss.Shunt.u.v[i]) == float(r[2])):
                O.append(('raw-shunt-not-physical', 'fixed shunt %d: g,b = %r,%r; file says %r,%r' %
                          (i, ss.Shunt.g.v[i], ss.Shunt.b.v[i], r[3] / mva, r[4] / mva)))
        for gi, r in enumerate(own['gen'], 1):
            M = ss.Slack if gi in ss.Slack.idx.v else ss.PV
            u = M.idx2uid(gi)
            if not (cell_equal(M.p0.v[u], r[2] / mva, 1e-13) and cell_equal(M.v0.v[u], r[6], 0) and cell_equal(M.Sn.v[u], r[8], 0)
                    and cell_equal(M.qmax.v[u], r[4] / mva, 1e-13)):
                O.append(('raw-gen-not-physical', 'generator %d' % gi))
        Lm = ss.Line
        li = 0
        for r in own['branch']:
            vals = [float(Lm.__dict__[k].v[li]) for k in ('r', 'x', 'b')]
            if not all(cell_equal(a, e, 1e-12) for a, e in zip(vals, r[3:6])):
                O.append(('raw-line-sn-default-100', 'SBASE = %r: branch %d-%d has R,X,B = %r,%r,%r pu on SBASE in the file, the Line added '
                          'without Sn (default 100 MVA) gets %r' % (mva, r[0], r[1], r[3], r[4], r[5], vals)))
            sh = [float(Lm.__dict__[k].v[li]) for k in ('g1', 'b1', 'g2', 'b2')]
            if not all(cell_equal(a, e, 1e-12) for a, e in zip(sh, r[9:13])):
                O.append(('raw-branch-shunts-dropped', 'branch %d-%d: line shunts GI,BI,GJ,BJ = %r of the file are not read (g1,b1,g2,b2 = %r)'
                          % (r[0], r[1], r[9:13], sh)))
            if float(Lm.u.v[li]) != float(r[13]) or int(Lm.bus1.v[li]) != int(r[0]):
                O.append(('raw-branch-not-physical', 'branch %d-%d status/ends' % (r[0], r[1])))
            li += 1
        for t in own['transf']:
            h = t[0]
            if len(t) == 4:
                i, j = int(h[0]), int(h[1])
                cw, cz, cm = int(h[4]), int(h[5]), int(h[6])
                z, w1, w2 = t[1], t[2], t[3]
                res['lines'].append('rwx %s %s %s %s %d,%d,%d,%d,%d,%d %s' % (
                    hm, hd, F2H(kv[i]), F2H(kv[j]), i, j, cw, cz, cm, int(h[11]),
                    ','.join(F2H(x) for x in (h[8], z[0], z[1], z[2], w1[0], w1[1], w1[2], w1[3], w1[4], w1[5], w2[0], w2[1]))))
                res['impl'].append('%d %d %d %d %s %s' % (
                    int(Lm.bus1.v[li]), int(Lm.bus2.v[li]), int(Lm.u.vin[li]), int(Lm.trans.vin[li]),
                    ','.join(F2H(Lm.__dict__[k].vin[li]) for k in ('Sn', 'r', 'x', 'b', 'tap', 'phi', 'rate_a', 'rate_b', 'rate_c')),
                    ','.join([F2H(Lm.Vn1.vin[li]), F2H(Lm.Vn2.vin[li])] + [F2H(Lm.__dict__[k].v[li]) for k in ('r', 'x', 'b')])))
                res['tol'].append(1e-13)
                res['counts']['raw_xf2_cw%d_cz%d' % (cw, cz)] = res['counts'].get('raw_xf2_cw%d_cz%d' % (cw, cz), 0) + 1
                # physical reading
                n1 = w1[1] or kv[i]
                n2 = w2[1] or kv[j]
                tap = {1: w1[0] / w2[0] if False else w1[0], 2: (w1[0] / kv[i]) / (w2[0] / kv[j]), 3: w1[0] * (n1 / kv[i]) / (n2 / kv[j])}[cw]
                if cw == 1:
                    tap = w1[0]
                scale = (mva / z[2]) if cz == 2 else 1.0
                if not cell_equal(Lm.tap.v[li], tap, 1e-13) or not cell_equal(Lm.phi.v[li], w1[2] * math.pi / 180, 1e-14):
                    O.append(('raw-xfmr-tap-not-physical', 'transformer %d-%d CW=%d: tap %r vs %r' % (i, j, cw, Lm.tap.v[li], tap)))
                if not (cell_equal(Lm.r.v[li], z[0] * scale, 1e-12) and cell_equal(Lm.x.v[li], z[1] * scale, 1e-12)):
                    O.append(('raw-xfmr-z-not-physical', 'transformer %d-%d CZ=%d SBASE1-2=%r: r,x = %r,%r, file says %r,%r on the system base'
                              % (i, j, cz, z[2], Lm.r.v[li], Lm.x.v[li], z[0] * scale, z[1] * scale)))
                if not cell_equal(Lm.b.v[li], h[8], 1e-12):
                    O.append(('raw-xfmr-mag2-winding-base', 'transformer %d-%d CZ=%d CM=1: MAG2 = %r pu on the SYSTEM base is stored as b on the '
                              'winding base SBASE1-2 = %r (system %r): system-base b = %r' % (i, j, cz, h[8], z[2], mva, Lm.b.v[li])))
                li += 1
            else:
                z = t[1]
                res['lines'].append('rw3 %s' % ','.join(F2H(x) for x in (z[0], z[1], z[3], z[4], z[6], z[7])))
                res['impl'].append(','.join([F2H(Lm.r.vin[li + k]) for k in range(3)] + [F2H(Lm.x.vin[li + k]) for k in range(3)]))
                res['tol'].append(0.0)
                cz = int(h[5])
                res['counts']['raw_xf3_cz%d' % cz] = res['counts'].get('raw_xf3_cz%d' % cz, 0) + 1
                sc = [(mva / z[2 + 3 * k]) if cz == 2 else 1.0 for k in range(3)]
                z12, z23, z31 = (complex(z[0], z[1]) * sc[0], complex(z[3], z[4]) * sc[1], complex(z[6], z[7]) * sc[2])
                star = [(z12 + z31 - z23) / 2, (z23 + z12 - z31) / 2, (z31 + z23 - z12) / 2]
                got = [complex(Lm.r.v[li + k], Lm.x.v[li + k]) for k in range(3)]
                if not all(abs(a - b) <= 1e-12 * max(abs(b), 1e-3) for a, b in zip(got, star)):
                    if cz == 2 and any(s != mva / 100.0 for s in sc):
                        O.append(('raw-3w-winding-base-ignored', '3-winding %d-%d-%d CZ=2, SBASE1-2,2-3,3-1 = %r,%r,%r (system %r): star branches '
                                  '%r, file says %r' % (h[0], h[1], h[2], z[2], z[5], z[8], mva, got, star)))
                    else:
                        O.append(('raw-line-sn-default-100', '3-winding %d-%d-%d on SBASE %r: star branches %r, file says %r'
                                  % (h[0], h[1], h[2], mva, got, star)))
                btot = sum(float(Lm.b.v[li + k]) for k in range(3))
                if h[8] != 0 and not cell_equal(btot, h[8], 1e-12):
                    O.append(('raw-3w-mag-on-all-branches', '3-winding %d-%d-%d: MAG2 = %r is attached to each of the three star branches '
                              '(total b = %r)' % (h[0], h[1], h[2], h[8], btot)))
                li += 3
        res['counts']['raw_sbase_%g' % mva] = 1
        if mva != 100.0:
            # the system base read from the file is configuration, not case data: what does a converted file describe?
            b, _ = dump_reload(ss, 'json', tmp)
            sa, va = pflow_sig(ss)
            sb, vb = pflow_sig(b)
            if sa != sb or (sa == 'ok' and float(np.max(np.abs(va[0] - vb[0]))) > 1e-9):
                O.append(('dump-loses-system-base', 'RAW with SBASE = %r converted to json and read back: the base is not in the file, the '
                          'reloaded system uses 100 MVA with the same per-unit numbers; power flow %s vs %s, |dV| = %s' %
                          (mva, sa, sb, 'n/a' if sa != 'ok' or sb != 'ok' else '%.3g' % float(np.max(np.abs(va[0] - vb[0]))))))
        res['counts']['raw_loads'] = len(own['load'])
    except Exception:  # noqa
        res['error'] = traceback.format_exc()[-700:]
    finally:
        shutil.rmtree(tmp, ignore_errors=True)
    return res


def raw_stream(ctx, gens=None):
    if gens is None:
        gens = [gen_raw(ctx.rng) for _ in range(ctx.n(6, 60))]
    return generic_stream(ctx, 'raw', run_pool(raw_job, list(enumerate(gens))))


# ---------------------------------------------------------------- list-valued parameters (real code only)

def list_param_stream(ctx):
    """ShuntSw gs/bs/ns are list literals written with np.array2string"""
    import andes
    tmp = tempfile.mkdtemp(prefix='c13l_')
    try:
        a = load_case(andes.get_case('ieee14/ieee14_shuntsw.xlsx'), setup=False)
        v = 0.0123456789012 if ctx.rng.random() < 0.7 else 0.025
        a.add('ShuntSw', dict(bus=4, Vn=69.0, gs='[0.0, 0.0]', bs='[%r, 0.05]' % v, ns='[2, 1]', name='gen'))
        a.setup()
        case = {'stream': 'list', 'bs': '[%r, 0.05]' % v}
        ctx.case(('list', v), case)
        for fmt in (('json', 'xlsx') if ctx.thorough else ('json',)):
            b, _ = dump_reload(a, fmt, tmp)
            compare_systems(ctx, a, b, 1e-12, 'ieee14_shuntsw + one generated ShuntSw -> %s -> reload' % fmt, case)
    finally:
        shutil.rmtree(tmp, ignore_errors=True)


# ---------------------------------------------------------------- entry points

def corpus_replay(ctx):
    d = os.path.join(C.ROOT, 'corpus', 'c13')
    if not os.path.isdir(d):
        return
    for f in sorted(os.listdir(d)):
        if f.endswith('.json'):
            rep = json.load(open(os.path.join(d, f)))
            ctx.count('corpus_replayed')
            replay(ctx, rep, quiet=True)


def run(ctx):
    import andes
    andes.config_logger(stream_level=50)
    quiet_numpy()
    corpus_replay(ctx)
    sanitize_stream(ctx)
    table_stream(ctx)
    mpc_stream(ctx)
    raw_stream(ctx)
    list_param_stream(ctx)
    stock_stream(ctx)


def search(ctx):
    ctx.tier = 'thorough'
    table_stream(ctx)
    mpc_stream(ctx)
    raw_stream(ctx)


def replay(ctx, rep, quiet=False):
    """re-run the oracle of the stream that produced `rep['case']`; True iff the property holds on it"""
    import andes
    andes.config_logger(stream_level=50)
    case = rep.get('case') or {}
    st = case.get('stream')
    n0 = len(ctx.oracle_failures) + len(ctx.known_hits)
    if st == 'sanitize':
        d, fl, v = eval(case['default'], {'nan': float('nan'), 'inf': float('inf')}), tuple(case['flags']), \
            eval(case['value'], {'nan': float('nan'), 'inf': float('inf')})
        r = real_sanitize(d, fl, v)
        if not isinstance(r, str):
            r2 = real_sanitize(d, fl, r[1])
            if isinstance(r2, str) or not cell_equal(r2[1], r[1], 0):
                ctx.oracle_fail(rep.get('key', 'numparam-int-bypass'), 'stored %r, re-added %r' % (r[1], r2), case)
    elif st == 'table':
        table_stream(ctx, tables=[(case['json'], case.get('mva', 100.0))])
    elif st == 'stock':
        stock_stream(ctx, cases=[case['case']])
    elif st == 'mpc':
        own = own_m_reader(case['text'])
        mpc_stream(ctx, gens=[({'text': case['text'], 'bus': own['bus'], 'base': own['baseMVA']}, case.get('extra', []))])
    elif st == 'raw':
        raw_stream(ctx, gens=[{'text': case['text']}])
    elif st == 'list':
        list_param_stream(ctx)
    else:
        if not quiet:
            print('replay: unknown stream in', str(case)[:200])
        return True
    bad = len(ctx.oracle_failures) + len(ctx.known_hits) - n0
    if not quiet:
        for f in (ctx.oracle_failures + ctx.known_hits)[-3:]:
            print('replay:', f['key'], '-', f['what'][:300])
    return bad == 0
