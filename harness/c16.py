"""C16 — results do not depend on solver back-end, acceleration options or repetition.

Lean: Andes/Props/C16.lean (model Andes/Model/SolverCache.lean).
Tie (1) `solver-cache`: random histories of small exact integer matrices (same pattern / new values / new
pattern / singular / regular again) and flag writes through the three REAL workers of
andes.linsolvers.solverbase.Solver, one forked child per history, C-library entry points wrapped so that the
call sequence of every operation is observed; call sequence and returned vector (identified by comparison
with the exact rational solutions of every matrix of the history) are compared with the Lean model.
Tie (2) `routine-refresh`: the REAL PFlow.nr_step / daeint.step on stock cases with a recording worker;
flag writes / Jacobian rebuilds / solve kind per iteration are compared with `pfStepOps` / `tdsIterOps`.
Oracle: every call documented to factorise returns x with A x = b for the current matrix (exact), a
singular matrix is reported (NaN / exception); power-flow solutions and TDS end states agree across
{klu, umfpack, spsolve} x linsolve x ipadd x Newton variant; a run repeated in a fresh interpreter is
bit-identical."""
import glob
import json
import os
import random
import subprocess
import sys

from harness import common as C
from harness import solver_stub as S

PROP_MODULES = ['Andes.Props.C16']
RULE = ('case = one history for one worker: (library, dimension 2-4, 2-6 integer matrices drawn as same-pattern-new-values / '
        'new-pattern / singular (zero row or zero column; same or new pattern) variants of a base '
        'matrix, 1-2 right-hand sides, 2-12 operations solve/linsolve/clear/factorize=True/new_A=True); distinct = distinct '
        'history; non-trivial = at least two solve/linsolve calls on different matrices; plus one case per Newton iteration '
        'of the real PFlow/TDS runs (routine-refresh stream)')
ASSUMPTIONS = [
    'klu/umfpack/SuperLU are abstract: sol A b is "what the LU factors of A give"; theorems use the contract A*(sol A b)=b for '
    'regular A (proved for the 2x2 rational instance, tested against exact rational solutions in the correspondence)',
    'a numeric factorisation with a symbolic object of another pattern that the library does not reject has outcome `ub` in the '
    'model (observed: segmentation fault or wrong vector for KLU; UMFPACK rejects 99.9 % of random pattern changes, the rest is '
    'passed to the model as the observed `und` list)',
    'singular matrices in the generated histories have a zero row or a zero column (explicit zeros or entries removed), so that every '
    'LU variant meets an exactly zero pivot; general rank-deficient matrices are NOT generated: UMFPACK was observed to return '
    '1e16-sized vectors for a 4x4 matrix with two equal rows (rounding hides the zero pivot) - floating-point residue',
    'SciPy spsolve (SpSolve.linsolve) on a singular matrix returns NaN or raises RuntimeError from inside SuperLU depending on the '
    'matrix; both count as the outcome `fail` (the model says NaN)',
    'bit-identical repetition, agreement "to solver precision" across back-ends and numba are tested (numba is not installed), not proved',
]
CORPUS = os.path.join(C.ROOT, 'corpus', 'c16')
LIBS = ['klu', 'umfpack', 'spsolve']
VALS = [-4, -3, -2, -1, 1, 2, 3, 4]


# ------------------------------------------------------------------ generator

def _sorted_ents(d):
    return [[i, j, d[(i, j)]] for (i, j) in sorted(d, key=lambda ij: (ij[1], ij[0]))]


def _regular(n, d):
    return S.solve_exact(n, _sorted_ents(d), [1] * n) is not None


def _draw_regular(rng, n, pat):
    for _ in range(60):
        d = {ij: rng.choice(VALS) for ij in pat}
        if _regular(n, d):
            return d
    return None


def _base_pattern(rng, n):
    pat = set((i, i) for i in range(n))
    dens = rng.choice([0.2, 0.5, 0.8, 1.0])
    for i in range(n):
        for j in range(n):
            if i != j and rng.random() < dens:
                pat.add((i, j))
    if rng.random() < 0.3:          # a permuted "diagonal"
        perm = list(range(n))
        rng.shuffle(perm)
        pat = set((perm[i], j) for (i, j) in pat)
    return pat


def _new_pattern(rng, n, pat):
    pat = set(pat)
    for _ in range(rng.choice([1, 1, 2, 3])):
        ij = (rng.randrange(n), rng.randrange(n))
        if ij in pat and len(pat) > n:
            pat.discard(ij)
        else:
            pat.add(ij)
    return pat


def _singular(rng, n, d, keep_pattern):
    """a singular variant that is singular in floating point as well"""
    d = dict(d)
    kind = rng.choice(['zero-row', 'zero-col'])
    if kind == 'zero-row':
        r = rng.randrange(n)
        for ij in list(d):
            if ij[0] == r:
                if keep_pattern:
                    d[ij] = 0
                else:
                    del d[ij]
    elif kind == 'zero-col':
        c = rng.randrange(n)
        for ij in list(d):
            if ij[1] == c:
                if keep_pattern:
                    d[ij] = 0
                else:
                    del d[ij]
    if not d:
        d[(0, 0)] = 0
    if _regular(n, d):
        r = rng.randrange(n)
        for ij in list(d):
            if ij[0] == r:
                d[ij] = 0
    return d, kind


def gen_stream(rng, lib=None):
    lib = lib or rng.choice(LIBS)
    n = rng.choice([2, 3, 3, 4])
    mode = rng.choice(['same-pattern', 'same-pattern', 'mixed', 'mixed', 'regular-only'])
    base_pat = _base_pattern(rng, n)
    base = _draw_regular(rng, n, base_pat)
    while base is None:
        base_pat = _base_pattern(rng, n)
        base = _draw_regular(rng, n, base_pat)
    mats, kinds = [base], ['base']
    for _ in range(rng.choice([1, 2, 3, 4, 5])):
        r = rng.random()
        src = rng.choice(mats)
        if mode == 'same-pattern':
            kind = 'values' if r < 0.6 else 'singular-same'
        elif mode == 'regular-only':
            kind = 'values' if r < 0.5 else 'pattern'
        else:
            kind = 'values' if r < 0.3 else ('pattern' if r < 0.6 else ('singular-same' if r < 0.8 else 'singular-new'))
        if kind == 'values':
            d = _draw_regular(rng, n, set(src)) or dict(src)
        elif kind == 'pattern':
            d = None
            for _ in range(20):
                d = _draw_regular(rng, n, _new_pattern(rng, n, set(src)))
                if d is not None:
                    break
            if d is None:
                d, kind = dict(src), 'values'
        elif kind == 'singular-same':
            d, k2 = _singular(rng, n, src, True)
            kind += ':' + k2
        else:
            d, k2 = _singular(rng, n, src, False)
            kind += ':' + k2
        mats.append(d)
        kinds.append(kind)
    rhs = []
    for _ in range(rng.choice([1, 1, 2])):
        b = [rng.choice([-3, -2, -1, 1, 2, 3, 4, 5]) for _ in range(n)]
        rhs.append(b)
    ops = []
    cur = 0
    for _ in range(rng.choice([2, 3, 4, 6, 8, 12])):
        r = rng.random()
        if r < 0.62:
            kind = 's'
        elif r < 0.78:
            kind = 'l'
        elif r < 0.85:
            kind = 'c'
        elif r < 0.92:
            kind = 'f'
        else:
            kind = 'n'
        if kind in 'sl':
            m = rng.random()
            if m < 0.45:
                cur = min(cur + 1, len(mats) - 1)
            elif m < 0.6:
                cur = rng.randrange(len(mats))
            ops.append([kind, cur, rng.randrange(len(rhs))])
        else:
            ops.append([kind])
    if not any(o[0] in 'sl' for o in ops):
        ops.append(['s', 0, 0])
    return {'lib': lib, 'n': n, 'mode': mode, 'kinds': kinds,
            'mats': [_sorted_ents(d) for d in mats], 'rhs': rhs, 'ops': ops}


# ------------------------------------------------------------------ stream (1): solver-cache

def _run_batch(sts):
    try:
        return S.run_batch(sts)
    except Exception as e:      # tool problem, not an outcome
        return ['ERR ' + repr(e)] * len(sts)


def run_streams(streams, procs=12, batch=10):
    S.install()
    batches = [streams[i:i + batch] for i in range(0, len(streams), batch)]
    if len(batches) < 3:
        res = [_run_batch(b) for b in batches]
    else:
        import multiprocessing as mp
        with mp.get_context('fork').Pool(procs) as pool:
            res = pool.map(_run_batch, batches, chunksize=1)
    return [o for b in res for o in b]


def canon(lib, op, word):
    """scipy.sparse.linalg.spsolve on a singular matrix returns NaN (MatrixRankWarning) or raises RuntimeError from inside
    SuperLU ('failed to factorize matrix ... dsnode_bmod.c'), depending on the matrix: one outcome `fail` (model: NaN)"""
    if lib == 'spsolve' and op[0] == 'l' and word.split('|')[1] in ('nan', 'raise'):
        return 'Q|fail'
    return word


def nontrivial(st):
    used = set(o[1] for o in st['ops'] if o[0] in 'sl')
    return len(used) >= 2


def check_streams(ctx, streams, label='solver-cache'):
    obs_all = run_streams(streams)
    lines, keep = [], []
    for st, obs in zip(streams, obs_all):
        if isinstance(obs, str):
            raise RuntimeError('stream runner failed: ' + obs)
        words, und = S.impl_words(st, obs)
        lines.append(S.model_line(st, und))
        keep.append((st, obs, words, und))
    outs = ctx.driver.ask(lines)
    fails = []
    for (st, obs, words, und), out in zip(keep, outs):
        model = [canon(st['lib'], op, w) for op, w in zip(st['ops'], out.split(' ')[:len(words)])]
        words = [canon(st['lib'], op, w) for op, w in zip(st['ops'], words)]
        ctx.traces += 1
        case = {k: st[k] for k in ('lib', 'n', 'mats', 'rhs', 'ops')}
        ctx.case(json.dumps(case, sort_keys=True) if nontrivial(st) else None,
                 {'stream': case, 'observed': words[:6]})
        ctx.count('lib:' + st['lib'])
        ctx.count('n:%d' % st['n'])
        ctx.count('mode:' + st.get('mode', 'corpus'))
        for k in st.get('kinds', []):
            ctx.count('matrix:' + k.split(':')[0])
        for op, w in zip(st['ops'], words):
            ctx.count('op:' + op[0])
            tr, res = w.split('|')
            ctx.count('calls:%s:%s' % (st['lib'], tr))
            ctx.count('outcome:' + (res if not res.startswith('v:') else 'vector'))
        for op, o in zip(st['ops'], obs):
            if 'U' in o['trace']:
                w, tags = S.classify(st, op, o['res'])
                what = 'crash' if w == 'crash' else ('correct' if op[1] in tags else ('nan' if w == 'nan' else 'wrong-vector'))
                ctx.count('ub-call-outcome:%s:%s' % (st['lib'], what))
                break
        for o in obs:
            if o['res'][0] == 'exc':
                ctx.count('exception:' + o['res'][1])
        if und and st['lib'] == 'umfpack':
            ctx.count('umfpack-pattern-change-not-rejected', len(und))
        if words != model:
            ctx.disagree(label, case, ' '.join(words)[:1500], ' '.join(model)[:1500])
        for key, what, i in S.oracle(st, obs):
            fails.append((0 if 'interpreter dies' in what else 1, key, what, dict(case, failing_op=i)))
    fails.sort(key=lambda f: f[0])      # the replay stored per finding is a crashing history when there is one
    for _, key, what, case in fails:
        ctx.oracle_fail(key, what, case)


# ------------------------------------------------------------------ csc conversion (tested)

def check_csc(ctx, streams):
    import numpy as np
    from kvxopt import spmatrix
    from andes.linsolvers.scipy import spmatrix_to_csc
    for st in streams:
        n = st['n']
        for ents in st['mats']:
            A = spmatrix([float(e[2]) for e in ents], [e[0] for e in ents], [e[1] for e in ents], (n, n), 'd')
            D = np.zeros((n, n))
            for i, j, v in ents:
                D[i, j] += v
            ctx.count('csc_conversions')
            if not np.array_equal(spmatrix_to_csc(A).toarray(), D):
                ctx.oracle_fail('csc-conversion', 'spmatrix_to_csc changed the matrix', {'n': n, 'ents': ents})


# ------------------------------------------------------------------ stream (2): routines on stock cases

PF_CASES = ['ieee14/ieee14_full.xlsx', 'kundur/kundur_full.xlsx', '5bus/pjm5bus.xlsx']


class Rec:
    """stands in for `solver.worker`: logs flag writes and solve calls, forwards to the real worker"""

    def __init__(self, real, log):
        object.__setattr__(self, '_real', real)
        object.__setattr__(self, '_log', log)

    def __setattr__(self, k, v):
        if k in ('factorize', 'new_A') and v is True:
            self._log.append('f' if k == 'factorize' else 'n')
        setattr(self._real, k, v)

    def __getattr__(self, k):
        return getattr(self._real, k)

    def solve(self, A, b):
        cb = self.__dict__.get('_cb')
        if cb:
            cb()
        self._log.append('s')
        return self._real.solve(A, b)

    def linsolve(self, A, b):
        cb = self.__dict__.get('_cb')
        if cb:
            cb()
        self._log.append('l')
        return self._real.linsolve(A, b)


def _load(cfg):
    import andes
    andes.config_logger(stream_level=50)
    d = os.path.join(C.WORK, 'c16-rc')
    os.makedirs(d, exist_ok=True)
    rc = os.path.join(d, 'rc_%d.rc' % os.getpid())
    with open(rc, 'w') as fh:
        fh.write('[System]\nipadd = %d\n[PFlow]\nsparselib = %s\nlinsolve = %d\nmethod = %s\nn_factorize = %d\n'
                 '[TDS]\nsparselib = %s\nlinsolve = %d\nhonest = %d\ntf = %s\n[EIG]\nsparselib = %s\nlinsolve = %d\n'
                 % (cfg['ipadd'], cfg['lib'], cfg['linsolve'], cfg['method'], cfg['nf'],
                    cfg['lib'], cfg['linsolve'], cfg.get('honest', 0), cfg.get('tf', 0), cfg['lib'], cfg['linsolve']))
    ss = andes.load(andes.get_case(cfg['case']), no_output=True, config_path=rc)
    os.remove(rc)
    return ss


def run_routine(cfg):
    """real PFlow (and TDS when cfg['tf'] > 0) with a recording worker; returns observations"""
    import numpy as np
    try:
        ss = _load(cfg)
        log = []
        ju = ss.j_update

        def j_update(*a, **k):
            log.append('J')
            return ju(*a, **k)
        ss.j_update = j_update
        pf = ss.PFlow
        pf.solver.worker = Rec(pf.solver.worker, log)
        steps = []
        nr = pf.nr_step

        def nr_step():
            k, ni = len(log), pf.niter
            r = nr()
            steps.append([ni, ''.join(log[k:])])
            return r
        pf.nr_step = nr_step
        ok = bool(pf.run())
        out = {'cfg': cfg, 'pf_ok': ok, 'pf_steps': steps, 'pf_lib': pf.solver.sparselib,
               'pf_xy': [C.f2h(v) for v in np.concatenate([ss.dae.x, ss.dae.y])]}
        if cfg.get('eig') and ok:
            # eigenvalue analysis through the configured back-end, and the same state matrix computed densely here
            import io
            import contextlib
            from kvxopt import matrix as _mat
            with contextlib.redirect_stdout(io.StringIO()):
                eok = bool(ss.EIG.run())
            mu = np.array(ss.EIG.mu).ravel()
            dae = ss.dae
            fx, fy, gx, gy = (np.array(_mat(getattr(dae, k))) for k in ('fx', 'fy', 'gx', 'gy'))
            Tf = np.array(dae.Tf, dtype=float)
            out['eig_zero_T'] = int((Tf == 0).sum())
            ref = np.linalg.eigvals((fx - fy @ np.linalg.solve(gy, gx)) / np.where(Tf == 0, 1.0, Tf)[:, None])
            key = lambda z: (round(z.real, 6), round(abs(z.imag), 6))     # noqa
            out.update({'eig_ok': eok, 'eig_lib': ss.EIG.solver.sparselib,
                        'eig_mu': [[float(z.real), float(abs(z.imag))] for z in sorted(mu, key=key)],
                        'eig_ref': [[float(z.real), float(abs(z.imag))] for z in sorted(ref, key=key)]})
            return out
        if cfg.get('tf', 0) > 0 and ok:
            tds = ss.TDS
            tds.config.no_tqdm = 1
            tlog = []
            rec = Rec(tds.solver.worker, tlog)
            tds.solver.worker = rec
            iters = []
            ss.j_update = lambda *a, **k: (tlog.append('J'), ju(*a, **k))[1]
            dae = ss.dae

            def cb():
                # the state `daeint.step` evaluated its `reason` on (nothing in between changes it)
                iters.append([bool(dae.t == 0), bool(tds.config.honest), bool(tds.custom_event), bool(tds.last_converged),
                              int(tds.niter), bool(dae.t - tds._last_switch_t < 0.1), len(tlog)])
            object.__setattr__(rec, '_cb', cb)
            tok = bool(tds.run(no_summary=True))
            # ops of iteration i: what was logged since the previous solve call up to and including this one
            prev = 0
            for it in iters:
                end = it[6] + 1
                it[6] = ''.join(tlog[prev:end])
                prev = end
            out.update({'tds_ok': tok, 'tds_iters': iters, 'tds_lib': tds.solver.sparselib, 'tds_t': C.f2h(float(dae.t)),
                        'tds_xy': [C.f2h(v) for v in np.concatenate([dae.x, dae.y])]})
        return out
    except Exception:       # noqa
        import traceback
        return {'cfg': cfg, 'error': traceback.format_exc()[-1500:]}


def _routine_worker(cfg):
    return run_routine(cfg)


def run_routines(cfgs, procs=12):
    import multiprocessing as mp
    with mp.get_context('fork').Pool(min(procs, max(1, len(cfgs))), maxtasksperchild=1) as pool:
        return pool.map(_routine_worker, cfgs, chunksize=1)


def routine_cfgs(ctx):
    rng = ctx.rng
    allc = []
    for case in PF_CASES:
        for lib in LIBS:
            for lin in (0, 1):
                for ipadd in (1, 0):
                    for method, nf in (('NR', 4), ('dishonest', 1), ('dishonest', 2), ('dishonest', 4)):
                        allc.append({'case': case, 'lib': lib, 'linsolve': lin, 'ipadd': ipadd, 'method': method, 'nf': nf})
    if ctx.thorough:
        cfgs = allc
    else:
        # the reference configuration of every case + a seeded sample that still covers every library
        cfgs = [c for c in allc if c['lib'] == 'klu' and c['linsolve'] == 0 and c['ipadd'] == 1 and c['method'] == 'NR']
        rest = [c for c in allc if c not in cfgs]
        rng.shuffle(rest)
        for lib in LIBS:
            cfgs += [c for c in rest if c['lib'] == lib][:3]
    cfgs = [dict(c) for c in cfgs]
    # time-domain runs: one case, every library (+ every linsolve / honest variant in the thorough tier)
    tcases = ['kundur/kundur_full.xlsx', 'ieee14/ieee14_full.xlsx']
    for case in (tcases if ctx.thorough else [rng.choice(tcases)]):
        tf = 1.3 if case.startswith('ieee14') else 2.2
        variants = [(lib, lin, h) for lib in LIBS for lin in (0, 1) for h in (0, 1)]
        if not ctx.thorough:
            variants = [(lib, rng.choice([0, 1]), 0) for lib in LIBS] + [(rng.choice(LIBS), 0, 1)]
        for lib, lin, h in variants:
            cfgs.append({'case': case, 'lib': lib, 'linsolve': lin, 'ipadd': rng.choice([0, 1]), 'method': 'NR', 'nf': 4,
                         'tf': tf, 'honest': h})
    # eigenvalue analysis of one case through the SuiteSparse back-ends, both entry points (the SciPy back-end does
    # not accept the matrix right-hand side EIG hands it: not part of the comparison)
    for lib in ('klu', 'umfpack'):
        for lin in (0, 1):
            cfgs.append({'case': 'kundur/kundur_full.xlsx', 'lib': lib, 'linsolve': lin, 'ipadd': 1, 'method': 'NR', 'nf': 4, 'eig': 1})
    return cfgs


def _close(a, b, tol):
    return all((x == y) or abs(x - y) <= tol * (1 + abs(y)) for x, y in zip(a, b)) and len(a) == len(b)


def np_flat(pairs):
    return [v for p in pairs for v in p]


def check_routines(ctx):
    cfgs = routine_cfgs(ctx)
    res = run_routines(cfgs)
    lines, exp = [], []
    by_case = {}
    for r in res:
        cfg = r['cfg']
        if 'error' in r:
            ctx.count('routine_error')
            ctx.oracle_fail('routine-exception:' + r['error'].strip().split('\n')[-1][:60],
                            'the real routine raised: ' + r['error'].strip().split('\n')[-1][:200], cfg)
            continue
        ctx.count('pflow_runs')
        ctx.count('pflow:%s:lin%d:ipadd%d:%s' % (cfg['lib'], cfg['linsolve'], cfg['ipadd'], cfg['method']))
        if r['pf_lib'] != cfg['lib']:
            ctx.oracle_fail('sparselib-config-ignored', 'PFlow solver is %s although %s was configured'
                            % (r['pf_lib'], cfg['lib']), cfg)
        for ni, ops in r['pf_steps']:
            lines.append('pfs %d %d %d %d' % (cfg['method'] == 'dishonest', cfg['nf'], ni, cfg['linsolve']))
            exp.append(('pflow-refresh', dict(cfg, niter=ni), ops))
            ctx.count('pflow_iterations')
            ctx.count('pflow-ops:' + ops)
            # property side: a rebuilt Jacobian must be followed by a refresh request before the solve
            if 'J' in ops and not ('n' in ops or 'f' in ops):
                ctx.oracle_fail('jacobian-update-without-refresh', 'PFlow.nr_step rebuilt the Jacobian without '
                                'requesting a refresh from the solver', dict(cfg, niter=ni))
        if cfg.get('eig'):
            ctx.count('eig_runs')
            if 'eig_mu' in r and r.get('eig_zero_T', 0) == 0:
                a = np_flat(r['eig_mu'])
                b = np_flat(r['eig_ref'])
                d = max([abs(p - q) for p, q in zip(a, b)] + [0.0]) if len(a) == len(b) else float('inf')
                ctx.cov['max_eig_vs_dense_reference'] = max(ctx.cov.get('max_eig_vs_dense_reference', 0.0), d)
                if not r['eig_ok'] or d > 1e-6 * (1 + max(abs(x) for x in b)):
                    ctx.oracle_fail('eig-depends-on-backend', 'eigenvalues through %s (linsolve=%d) differ by %.3g from the dense '
                                    'computation of T^-1(fx - fy gy^-1 gx) of the same operating point (run ok: %s)'
                                    % (cfg['lib'], cfg['linsolve'], d, r['eig_ok']), cfg)
            continue
        by_case.setdefault(cfg['case'], []).append(r)
        if 'tds_iters' in r:
            ctx.count('tds_runs')
            for it in r['tds_iters']:
                lines.append('tdi %d %d %d %d %d %d %d' % (it[0], it[1], it[2], it[3], it[4], it[5], cfg['linsolve']))
                exp.append(('tds-refresh', dict(cfg, state=it[:6]), it[6]))
                ctx.count('tds_iterations')
                ctx.count('tds-ops:' + it[6])
                if 'J' in it[6] and not ('n' in it[6] or 'f' in it[6]):
                    ctx.oracle_fail('jacobian-update-without-refresh', 'daeint.step rebuilt the Jacobian without '
                                    'requesting a refresh from the solver', dict(cfg, state=it[:6]))
    outs = ctx.driver.ask(lines)
    for (stream, case, ops), out in zip(exp, outs):
        # model words: n / f flag writes, sNEW|sOLD|lNEW|lOLD|sAC|lAC; the code: J = j_update ran
        impl = []
        fresh = 'J' in ops
        for ch in ops:
            if ch in 'nf':
                impl.append(ch)
            elif ch in 'sl':
                impl.append(ch + ('AC' if stream == 'tds-refresh' else ('NEW' if fresh else 'OLD')))
        ctx.case(None)
        ctx.traces += 1
        if ','.join(impl) != out or (fresh != (('n' in ops) or ('f' in ops))):
            ctx.disagree(stream, case, ops + ' -> ' + ','.join(impl), out)
    # cross-configuration agreement (tested): same case, every back-end / option
    maxd = {'pflow': 0.0, 'tds': 0.0}
    for case, rs in by_case.items():
        ref = rs[0]
        rx = [C.h2f(h) for h in ref['pf_xy']]
        for r in rs:
            cfg = r['cfg']
            if r['pf_ok'] != ref['pf_ok']:
                ctx.oracle_fail('pflow-convergence-depends-on-backend', 'power flow converged=%s with %s but %s with the reference'
                                % (r['pf_ok'], cfg, ref['pf_ok']), cfg)
                continue
            x = [C.h2f(h) for h in r['pf_xy']]
            tol = 1e-8 if cfg['method'] == 'NR' else 1e-5
            d = max([abs(a - b) for a, b in zip(x, rx)] + [0.0])
            maxd['pflow'] = max(maxd['pflow'], d)
            ctx.count('pflow_cross_checks')
            if not _close(x, rx, tol):
                ctx.oracle_fail('pflow-solution-depends-on-backend', 'power-flow solution differs by %.3g between %s and the '
                                'reference configuration' % (d, cfg), cfg)
        trs = [r for r in rs if 'tds_xy' in r]
        for r in trs[1:]:
            a = [C.h2f(h) for h in r['tds_xy']]
            b = [C.h2f(h) for h in trs[0]['tds_xy']]
            d = max([abs(p - q) for p, q in zip(a, b)] + [0.0])
            maxd['tds'] = max(maxd['tds'], d)
            ctx.count('tds_cross_checks')
            if r['tds_ok'] != trs[0]['tds_ok'] or r['tds_t'] != trs[0]['tds_t'] or not _close(a, b, 1e-5):
                ctx.oracle_fail('tds-trajectory-depends-on-backend', 'TDS end state differs by %.3g between %s and %s'
                                % (d, r['cfg'], trs[0]['cfg']), r['cfg'])
    ctx.cov['max_cross_backend_difference'] = maxd
    return res


# ------------------------------------------------------------------ repetition in a fresh interpreter (tested)

def fresh_run(cfg):
    env = dict(os.environ)
    p = subprocess.run([sys.executable, '-m', 'harness.c16', '--fresh', json.dumps(cfg)], stdout=subprocess.PIPE,
                       stderr=subprocess.PIPE, text=True, env=env, cwd=C.ROOT, timeout=900)
    for line in p.stdout.split('\n'):
        if line.startswith('FRESH '):
            return json.loads(line[6:])
    return {'error': 'rc=%d %s' % (p.returncode, p.stderr[-400:])}


def check_repetition(ctx, res):
    from concurrent.futures import ThreadPoolExecutor
    cands = [r for r in res if 'error' not in r and 'tds_xy' in r] or [r for r in res if 'error' not in r]
    if not cands:
        return
    k = ctx.n(2, 6)
    ctx.rng.shuffle(cands)
    picks = cands[:k]
    jobs = [r['cfg'] for r in picks for _ in range(2)]
    with ThreadPoolExecutor(max_workers=8) as ex:
        outs = list(ex.map(fresh_run, jobs))
    for i, r in enumerate(picks):
        a, b = outs[2 * i], outs[2 * i + 1]
        ctx.count('fresh_process_pairs')
        ctx.case(None)
        if 'error' in a or 'error' in b:
            raise RuntimeError('fresh-process run failed: %s %s' % (a.get('error'), b.get('error')))
        for key in ('pf_xy', 'tds_xy', 'tds_t'):
            if a.get(key) != b.get(key):
                ctx.oracle_fail('repetition-not-bit-identical', '%s differs between two fresh processes for %s'
                                % (key, r['cfg']), r['cfg'])
            if a.get(key) != r.get(key):
                ctx.oracle_fail('repetition-not-bit-identical', '%s differs between a fresh process and the pooled run for %s'
                                % (key, r['cfg']), r['cfg'])


# ------------------------------------------------------------------ entry points

def corpus_streams():
    return [json.load(open(f)) for f in sorted(glob.glob(os.path.join(CORPUS, '*.json')))]


def run(ctx):
    import andes
    andes.config_logger(stream_level=50)
    streams = corpus_streams()
    ctx.count('corpus', len(streams))
    import time
    n = ctx.n(900, 12000)
    streams += [gen_stream(ctx.rng) for _ in range(n)]
    t0 = time.time()
    check_streams(ctx, streams)
    t1 = time.time()
    check_csc(ctx, streams[:ctx.n(200, 2000)])
    res = check_routines(ctx)
    t2 = time.time()
    check_repetition(ctx, res)
    ctx.cov['phase_s'] = {'solver-cache': round(t1 - t0, 1), 'routines': round(t2 - t1, 1), 'repetition': round(time.time() - t2, 1)}
    src = C.REPO + '/andes/linsolvers/'
    ctx.cov['source_hashes'] = {
        'SuiteSparseSolver.solve': C.hash_source(src + 'suitesparse.py', 'SuiteSparseSolver.solve'),
        'SuiteSparseSolver.clear': C.hash_source(src + 'suitesparse.py', 'SuiteSparseSolver.clear'),
        'UMFPACKSolver.linsolve': C.hash_source(src + 'suitesparse.py', 'UMFPACKSolver.linsolve'),
        'KLUSolver.linsolve': C.hash_source(src + 'suitesparse.py', 'KLUSolver.linsolve'),
        'SpSolve': C.hash_source(src + 'scipy.py', 'SpSolve'),
        'spmatrix_to_csc': C.hash_source(src + 'scipy.py', 'spmatrix_to_csc'),
        'Solver': C.hash_source(src + 'solverbase.py', 'Solver'),
        'PFlow.nr_step': C.hash_source(C.REPO + '/andes/routines/pflow.py', 'PFlow.nr_step'),
        'ImplicitIter.step': C.hash_source(C.REPO + '/andes/routines/daeint.py', 'ImplicitIter.step'),
    }


def search(ctx):
    """something broke: look harder for a history on which the property fails on the real code"""
    rng = random.Random(ctx.seed * 7919 + 16)
    streams = []
    for d in ctx.disagreements[:60]:
        if isinstance(d['case'], dict) and 'ops' in d['case']:
            streams.append(d['case'])
    streams += [gen_stream(rng) for _ in range(ctx.n(3000, 12000))]
    for st, obs in zip(streams, run_streams(streams)):
        if isinstance(obs, str):
            continue
        for key, what, i in S.oracle(st, obs):
            ctx.oracle_fail(key, what, dict({k: st[k] for k in ('lib', 'n', 'mats', 'rhs', 'ops')}, failing_op=i))


def replay(ctx, rep):
    case = rep['case']
    if 'ops' not in case:
        r = run_routines([case])[0]
        print(json.dumps({k: v for k, v in r.items() if k in ('pf_ok', 'pf_steps', 'tds_ok', 'error')})[:600])
        return 'error' not in r
    obs = S.run_stream(case)
    words, und = S.impl_words(case, obs)
    print('   observed:', ' '.join(words))
    bad = S.oracle(case, obs)
    for key, what, i in bad:
        print('  ', key, 'op', i, what)
    return not bad


if __name__ == '__main__':
    if len(sys.argv) >= 3 and sys.argv[1] == '--fresh':
        r = run_routine(json.loads(sys.argv[2]))
        print('FRESH ' + json.dumps({k: r.get(k) for k in ('pf_xy', 'tds_xy', 'tds_t', 'error') if k in r}))
