"""C10 — random systems built through the REAL andes.System, addressed by the real setup() and the addressing
part of TDS.init(); canonical dump of every address / name / link; property oracle.  No edits to /repo."""
import json
import re
import traceback

# models used by the generator, in dependency order.  (model, kind of idx the IdxParams without a declared
# target refer to).  Everything else about a model (IdxParam targets, mandatory flags, variables, external
# variables, flags) is read from the real model classes at run time.
ORDER = [
    'Area', 'Bus', 'PQ', 'PV', 'Slack', 'Shunt', 'ShuntTD', 'Line', 'Jumper', 'Fortescue',
    'Motor3', 'Motor5', 'Node', 'Ground', 'R', 'L', 'C', 'RCp', 'RCs', 'RLs', 'RLCs', 'RLCp',
    'COI', 'GENCLS', 'GENROU',
    'TG2', 'TGOV1', 'TGOV1DB', 'TGOV1N', 'TGOV1NDB', 'IEEEG1', 'IEESGO', 'GAST', 'HYGOV', 'HYGOVDB', 'HYGOV4',
    'EXDC2', 'IEEEX1', 'ESDC1A', 'ESDC2A', 'EXST1', 'ESST3A', 'SEXS', 'IEEET1', 'EXAC1', 'EXAC2', 'EXAC4',
    'ESST4B', 'AC8B', 'IEEET3', 'ESAC1A', 'ESST1A', 'ESAC5A', 'IEEEVC',
    'BusFreq', 'BusROCOF', 'PMU', 'PLL1', 'PLL2', 'IEEEST', 'ST2CUT',
    'ZIP', 'FLoad', 'ACE', 'ACEc',
    'REGCA1', 'REGCP1', 'REGCV1', 'REGCV2', 'REGF1', 'REGF2', 'REGF3',
    'REECA1', 'REECA1E', 'REPCA1', 'WTDTA1', 'WTDS', 'WTARA1', 'WTARV1', 'WTPTA1', 'WTTQA1',
    'PVD1', 'ESD1', 'EV1', 'EV2', 'DGPRCT1', 'DGPRCTExt',
    'Toggle', 'Fault',
]
# targets of IdxParams whose class declares none
UNTYPED = {
    ('Fault', 'bus'): 'Bus', ('BusFreq', 'bus'): 'Bus', ('BusROCOF', 'bus'): 'Bus', ('PMU', 'bus'): 'Bus',
    ('PLL1', 'bus'): 'Bus', ('PLL2', 'bus'): 'Bus',
    ('REGCA1', 'gen'): 'StaticGen', ('REGCP1', 'gen'): 'StaticGen', ('REGCV1', 'gen'): 'StaticGen',
    ('REGCV2', 'gen'): 'StaticGen', ('REGF1', 'gen'): 'StaticGen', ('REGF2', 'gen'): 'StaticGen',
    ('REGF3', 'gen'): 'StaticGen', ('PVD1', 'gen'): 'StaticGen', ('ESD1', 'gen'): 'StaticGen',
    ('EV1', 'gen'): 'StaticGen', ('EV2', 'gen'): 'StaticGen',
    ('WTDTA1', 'ree'): 'RenExciter', ('WTDS', 'ree'): 'RenExciter', ('WTARA1', 'rego'): 'RenGovernor',
    ('WTARV1', 'rego'): 'RenGovernor', ('WTPTA1', 'rea'): 'RenAerodynamics', ('WTTQA1', 'rep'): 'RenPitch',
    ('DGPRCT1', 'dev'): 'DG', ('DGPRCTExt', 'dev'): 'DG',
}
FORCE_MANDATORY = {('Line', 'bus1'), ('Line', 'bus2'), ('Jumper', 'bus1'), ('Jumper', 'bus2'),
                   ('DGPRCT1', 'busfreq'), ('DGPRCTExt', 'busfreq')}
SKIP_OPTIONAL = {('ST2CUT', 'busr'), ('ST2CUT', 'busr2'), ('Bus', 'zone'), ('Bus', 'owner'), ('PQ', 'owner'),
                 ('Line', 'owner'), ('Node', 'area'), ('Node', 'zone'), ('Node', 'owner'),
                 ('GENCLS', 'coi2'), ('GENROU', 'coi2'), ('REGCV1', 'coi2'), ('REGCV2', 'coi2'),
                 ('Alter', 'attr')}

_META = None


_BASE = None
_USE_BASE = False


def new_system():
    """a fresh real System with the generated code loaded.  Inside a forked one-shot worker the pristine system
    built once by the parent is used (each worker process handles exactly one case)."""
    global _BASE
    if _USE_BASE and _BASE is not None:
        ss, _BASE = _BASE, None
        return ss
    import andes
    ss = andes.System(no_output=True, default_config=True)      # __init__ loads the generated code (undill)
    return ss


def meta():
    """IdxParam targets / group of every generator model, from the real classes"""
    global _META
    if _META is None:
        from andes.core.param import IdxParam
        from andes.core.service import DataSelect
        ss = new_system()
        m = {}
        for name in ORDER:
            mdl = ss.models[name]
            ips, mand = [], []
            for k, p in mdl.params.items():
                if isinstance(p, IdxParam):
                    tgt = p.model if p.model is not None else UNTYPED.get((name, k))
                    ips.append((k, tgt, bool(p.get_property('mandatory')) or (name, k) in FORCE_MANDATORY,
                                bool(p.get_property('unique'))))
                elif p.get_property('mandatory') and k not in ('idx', 'model'):
                    mand.append(k)
            dsel = [sv.optional.name for sv in mdl.__dict__.values() if isinstance(sv, DataSelect)]
            m[name] = {'group': mdl.group, 'idx_params': ips, 'mandatory': mand, 'dataselect': dsel,
                       'vars': list(mdl.cache.all_vars.keys())}
        groups = {}
        for gname, g in ss.groups.items():
            groups[gname] = list(g.models.keys())
        _META = {'models': m, 'groups': groups}
    return _META


# ------------------------------------------------------------------ generator

STRS = ['B', 'dev', 'x.y', 'a-b', 'G_1', 'Unit_A_', '_u', 'Z9']


def _mk_idx(rng, model, group, style, k, used):
    """a fresh user idx of the given style, unique in the group (ints and strings are different keys)"""
    for _ in range(50):
        r = rng.random()
        st = style
        if style == 'mixed':
            st = rng.choice(['int', 'str', 'auto', 'modelstr'])
        if st == 'auto':
            return None
        if st == 'int':
            v = rng.choice([k + 1, rng.randrange(1, 40), rng.randrange(100, 100000), -rng.randrange(1, 9), 0])
        elif st == 'modelstr':
            v = rng.choice(['%s_%d' % (model, rng.randrange(1, 30)), '%s%d' % (model, k), 'my%s_%d_x' % (model, k),
                            '%s_%d' % (group, rng.randrange(1, 30))])
        else:
            v = rng.choice(STRS) + (str(rng.randrange(0, 30)) if r < 0.8 else '')
            if r > 0.93:
                v = str(rng.randrange(0, 12))        # a numeric-looking string next to integers
        if v not in used:
            return v
    return None


def gen_case(rng, size=None):
    """a random system as a list of add operations in a random order"""
    M = meta()
    size = size or rng.choice(['tiny', 'small', 'small', 'medium', 'medium', 'large'])
    scale = {'tiny': 1, 'small': 2, 'medium': 4, 'large': 7}[size]
    nb = rng.randrange(1, 2 + 2 * scale)
    # which models take part
    p_dyn = rng.choice([0.0, 0.1, 0.25, 0.5])
    chosen = {}
    for name in ORDER:
        if name == 'Bus':
            chosen[name] = nb
        elif name == 'Slack':
            chosen[name] = 1 if rng.random() < 0.9 else 0
        elif name in ('PQ', 'PV', 'Line'):
            chosen[name] = rng.randrange(0, 2 + scale)
        elif name in ('GENCLS', 'GENROU'):
            chosen[name] = rng.randrange(0, 1 + scale) if rng.random() < max(p_dyn, 0.3) * 2 else 0
        else:
            chosen[name] = rng.randrange(1, 2 + scale // 2) if rng.random() < p_dyn else 0
    styles = {}
    for g in M['groups']:
        styles[g] = rng.choice(['auto', 'int', 'str', 'modelstr', 'mixed', 'mixed'])
    used = {g: set() for g in M['groups']}      # user-given idx per group
    have = {g: [] for g in M['groups']}         # idx usable as reference target, per group
    have_m = {}
    adds = []
    taken = {}
    auto_n = {g: 0 for g in M['groups']}
    for name in ORDER:
        info = M['models'][name]
        g = info['group']
        for k in range(chosen.get(name, 0)):
            params = {pn: 1.0 for pn in info['mandatory']}
            ok = True
            for (pn, tgt, mand, uniq) in info['idx_params']:
                if name == 'Toggle' and pn == 'dev':
                    cand = [(mn, i) for mn in ('Line', 'PQ', 'GENROU', 'Shunt') for i in have_m.get(mn, [])]
                    if not cand:
                        ok = False
                        break
                    mn, i = rng.choice(cand)
                    params['model'] = mn
                    params['dev'] = i
                    continue
                if tgt is None:
                    if mand:
                        ok = False
                        break
                    continue
                pool = have_m.get(tgt, []) if tgt in M['models'] else have.get(tgt, [])
                if tgt not in M['models'] and tgt not in M['groups']:
                    pool = []
                if uniq:
                    pool = [x for x in pool if json.dumps(x) not in taken.setdefault((name, pn), set())]
                if mand:
                    if not pool:
                        ok = False
                        break
                    params[pn] = rng.choice(pool)
                    taken.setdefault((name, pn), set()).add(json.dumps(params[pn]))
                elif (name, pn) not in SKIP_OPTIONAL and pool and rng.random() < 0.5:
                    v = rng.choice(pool)
                    if pn in info['dataselect'] and not isinstance(v, int) and rng.random() < 0.9:
                        # a string idx in an optional field read through DataSelect makes setup() raise
                        # (finding dataselect-string-idx); keep that to a small share of the cases
                        continue
                    params[pn] = v
            if not ok:
                continue
            idx = _mk_idx(rng, name, g, styles[g], k, used[g])
            if idx is None:
                # predict the automatic idx only to be able to reference it: the real code decides (replayed
                # through System.add, which returns the idx it used)
                adds.append({'model': name, 'idx': None, 'params': params, 'ref': 'auto%d' % len(adds)})
            else:
                used[g].add(idx)
                adds.append({'model': name, 'idx': idx, 'params': params, 'ref': None})
            # references to auto-named devices are expressed through the placeholder
            token = idx if idx is not None else {'auto': adds[-1]['ref']}
            have[g].append(token)
            have_m.setdefault(name, []).append(token)
    # insertion order: devices are added in a random order, but a device referring to an auto-named one
    # must come after it (its idx is only known once the real code assigned it)
    order = list(range(len(adds)))
    mode = rng.choice(['sorted', 'shuffled', 'reversed-ish'])
    if mode != 'sorted':
        rng.shuffle(order)
    pos = {a['ref']: i for i, a in enumerate(adds) if a['ref']}
    done, seq = set(), []

    def visit(i):
        if i in done:
            return
        done.add(i)
        for v in adds[i]['params'].values():
            if isinstance(v, dict):
                visit(pos[v['auto']])
        seq.append(i)
    for i in order:
        visit(i)
    case = {'adds': [adds[i] for i in seq]}
    names = [n for n in ORDER if chosen.get(n, 0)]
    pc = rng.choice([0.0, 0.0, 0.15, 0.5])
    case['collate'] = sorted(n for n in names if rng.random() < pc)
    # Output rows
    outs = []
    for _ in range(rng.choice([0, 0, 1, 2, 4])):
        mn = rng.choice(names + ['Nope'])
        vs = M['models'].get(mn, {'vars': []})['vars']
        var = rng.choice(vs + [None, None, 'nosuch']) if vs else None
        devs = [a for a in case['adds'] if a['model'] == mn]
        dev = None
        if devs and rng.random() < 0.5:
            d = rng.choice(devs)
            dev = d['idx'] if d['idx'] is not None else {'auto': d['ref']}
        elif rng.random() < 0.1:
            dev = 'ghost'
        outs.append([mn, var, dev])
    case['outputs'] = outs
    case['nget'] = rng.choice([4, 8, 16])
    case['gseed'] = rng.randrange(1 << 30)
    case['size'] = size
    if rng.random() < 0.4:
        # a history BEFORE set-up: quantities are read through the index lists, then some references are re-pointed
        case['pre'] = {'seed': rng.randrange(1 << 30), 'reads': rng.random() < 0.9, 'repoint': rng.choice([1, 2, 3])}
    return case


def apply_pre(ss, case, auto):
    """the pre-set-up history of `case['pre']` on the real System: (1) read a group / model quantity through every
    index list (the list object itself, as the linking code does), (2) re-point up to `repoint` references in place
    to another existing device of the same class through the public `alter`; the case is updated so that the GIVEN
    value of the field is the re-pointed one"""
    import random
    from andes.core.param import IdxParam
    pre = case['pre']
    rng = random.Random(pre['seed'])

    def res(v):
        return auto[v['auto']] if isinstance(v, dict) else v

    def read_all():
        for m in ss.models.values():
            if m.n == 0:
                continue
            for pn, p in m.params.items():
                if isinstance(p, IdxParam) and p.model is not None and (p.model in ss.groups or p.model in ss.models):
                    tgt = ss.groups[p.model] if p.model in ss.groups else ss.models[p.model]
                    for an in (False, True):        # the way a mandatory link asks; if that raises, the way an optional one does
                        try:
                            tgt.get(src='u', idx=p.v, attr='v', allow_none=an, default=0)
                            break
                        except Exception:     # noqa  (dangling / incompatible references are judged elsewhere)
                            pass
    if pre['reads']:
        read_all()
    done = 0
    order = list(range(len(case['adds'])))
    rng.shuffle(order)

    def through_group(k):
        m_ = ss.models[case['adds'][k]['model']]
        return 0 if any(isinstance(p_, IdxParam) and p_.model in ss.groups and case['adds'][k]['params'].get(n_) is not None
                        for n_, p_ in m_.params.items()) else 1
    order.sort(key=through_group)       # references resolved through a GROUP first (stable: random within each class)
    for k_ in order:
        if done >= pre['repoint']:
            break
        a = case['adds'][k_]
        m = ss.models[a['model']]
        my = auto.get('#%d' % k_)
        for pn, v in list(a['params'].items()):
            p = m.params.get(pn)
            if not isinstance(p, IdxParam) or p.model is None or v is None:
                continue
            if p.model not in ss.models and p.model not in ss.groups:
                continue
            cur = owner_of(ss, p.model, res(v))
            if len(cur) != 1:
                continue
            others = [j for j in cur[0][0].idx.v if not (j == res(v) and type(j) is type(res(v)))]
            if p.get_property('unique'):
                # a reference that must be unique within the model: only targets no other device of the model names
                taken = list(p.v)
                others = [j for j in others if not any(j == t and type(j) is type(t) for t in taken)]
            if not others:
                continue
            new = rng.choice(others)
            try:
                m.alter(pn, my, new)
            except Exception:     # noqa
                continue
            if p.get_property('unique') and sum(1 for t in p.v if t == new) > 1:
                # (an explicit idx that collided was renamed by System.add: the requested names do not tell which
                # targets are free) -- keep the data valid: undo
                m.alter(pn, my, res(v))
                continue
            a['params'][pn] = new
            done += 1
            break
    if pre['reads'] and done:
        pass
    return done


def finder_case(rng):
    """directed: devices whose OPTIONAL index field is resolved by a DeviceFinder (FLoad.busf, ACEc.busf, PVD1.busf)
    on one bus -- some leave the field empty (a meter is found or added for the bus), some name an existing meter
    on another bus explicitly -- in a random order, with and without a meter already sitting on the shared bus"""
    def ix(kind, k):
        st = rng.choice(['int', 'str', 'auto'])
        return {'int': 10 * (k + 1) + rng.randrange(0, 9), 'str': '%s_%d' % (kind, k + rng.randrange(1, 5)), 'auto': None}[st]
    adds = []

    def add(model, idx, params):
        ref = None if idx is not None else 'auto%d' % len(adds)
        adds.append({'model': model, 'idx': idx, 'params': params, 'ref': ref})
        return idx if idx is not None else {'auto': ref}
    nb = rng.choice([2, 3])
    buses = [add('Bus', ix('B', k), {}) for k in range(nb)]
    add('Slack', None, {'bus': buses[0]})
    shared, other = buses[0], buses[1]
    pq = add('PQ', ix('PQ', 0), {'bus': shared})
    remote = add('BusFreq', rng.choice(['BF_remote', 77, None]), {'bus': other})
    if rng.random() < 0.4:
        add('BusFreq', None, {'bus': shared})            # a meter already on the shared bus: found, not added
    kind = rng.choice(['FLoad', 'FLoad', 'ACEc', 'PVD1'])
    users = []
    pattern = rng.choice([[0, 1], [1, 0], [0, 1, 0], [0, 0, 1], [1, 0, 1], [0, 1, 1]])   # 1 = explicit field
    if kind == 'PVD1':
        pv = add('PV', ix('G', 0), {'bus': shared})
    for e in pattern:
        if kind == 'FLoad':
            prm = {'pq': pq}
        elif kind == 'ACEc':
            prm = {'bus': shared}
        else:
            prm = {'bus': shared, 'gen': pv, 'pqflag': 1.0}
        if e:
            prm['busf'] = remote
        users.append(add(kind, None, prm))
    return {'adds': adds, 'collate': [], 'outputs': [], 'nget': 4, 'gseed': rng.randrange(1 << 30), 'size': 'finder'}


def select_case(rng):
    """directed: an OPTIONAL remote index field read through a DataSelect (PVD1.igreg) that is given, empty, or the
    numeric index 0 (a valid idx: several stock cases number their buses from 0)"""
    adds = []

    def add(model, idx, params):
        ref = None if idx is not None else 'auto%d' % len(adds)
        adds.append({'model': model, 'idx': idx, 'params': params, 'ref': ref})
        return idx if idx is not None else {'auto': ref}
    zero_at = rng.choice([0, 1, 2])
    buses = [add('Bus', 0 if k == zero_at else 10 + 3 * k, {}) for k in range(3)]
    add('Slack', None, {'bus': buses[0]})
    for k in rng.sample(range(3), 3):
        own = buses[k]
        pv = add('PV', None, {'bus': own})
        prm = {'bus': own, 'gen': pv, 'pqflag': 1.0}
        r = rng.random()
        if r < 0.7:
            prm['igreg'] = buses[(k + rng.choice([1, 2])) % 3]     # a remote bus, sometimes the one with idx 0
        add('PVD1', None, prm)
    return {'adds': adds, 'collate': [], 'outputs': [], 'nget': 4, 'gseed': rng.randrange(1 << 30), 'size': 'select'}


# ------------------------------------------------------------------ real code

def build(case):
    """add the devices through the real System.add in the given order; returns (system, auto map)"""
    ss = new_system()
    auto = {}

    def res(v):
        return auto[v['auto']] if isinstance(v, dict) else v
    for k_, a in enumerate(case['adds']):
        pd = {k: res(v) for k, v in a['params'].items()}
        if a['idx'] is not None:
            pd['idx'] = a['idx']
        got = ss.add(a['model'], pd)
        auto['#%d' % k_] = got        # the idx the device really has (a requested idx that collides is replaced)
        if a['ref']:
            auto[a['ref']] = got
    for n in case.get('collate', []):
        ss.models[n].flags.collate = True
    for (mn, var, dev) in case.get('outputs', []):
        ss.add('Output', {'model': mn, 'varname': var, 'dev': res(dev)})
    return ss, auto


def enc_idx(i):
    import numpy as np
    if i is None:
        return 'n'
    if isinstance(i, (str, np.str_)):
        return 's' + str(i)
    if isinstance(i, (bool, np.bool_)):
        raise ValueError('bool idx')
    if isinstance(i, (int, np.integer)):
        return 'i%d' % int(i)
    if isinstance(i, (float, np.floating)) and float(i) == int(i):
        return 'i%d' % int(i)
    raise ValueError('idx %r' % (i,))


def flat(v):
    import numpy as np
    out = []
    for x in v:
        if isinstance(x, (list, tuple, np.ndarray)):
            out += flat(x)
        else:
            out.append(x)
    return out


def lst(xs):
    xs = list(xs)
    return ','.join(xs) if xs else '-'


def model_line(ss, case, gets):
    """the structure of the real system as the input of the Lean model (taken after link_ext_param /
    find_devices, before any address exists: idx lists, variable names, indexer values, flags)"""
    parts = []
    for name, m in ss.models.items():
        if not hasattr(m, 'idx') or (m.n == 0 and not m.cache.vars_ext and not m.states and not m.algebs):
            continue
        exts = []
        for en, e in m.cache.vars_ext.items():
            if e.indexer is None:
                ix = '*'
            else:
                ix = lst(enc_idx(i) for i in flat(e.indexer.v))
            exts.append('~'.join([en, e.v_code, e.model, e.src, '1' if e.e_str is not None else '0',
                                  '1' if e.allow_none else '0', ix]))
        parts.append(':'.join([name, m.group,
                               ('1' if m.flags.pflow else '0') + ('1' if m.flags.tds else '0') +
                               ('1' if m.flags.collate else '0') + ('1' if m.in_use else '0'),
                               lst(enc_idx(i) for i in m.idx.v), lst(m.states.keys()), lst(m.algebs.keys()),
                               '/'.join(exts) if exts else '-']))
    outs = []
    for mn, var, dev in zip(ss.Output.model.v, ss.Output.varname.v, ss.Output.dev.v):
        outs.append('~'.join([str(mn), '*' if var is None else str(var), '*' if dev is None else enc_idx(dev)]))
    return 'addr %s %s %s' % ('|'.join(parts), ';'.join(outs) if outs else '-', ';'.join(gets) if gets else '-')


def nats(a):
    a = [int(x) for x in a]
    return ','.join(str(x) for x in a) if a else '-'


def dump(ss):
    import numpy as np
    d = ss.dae
    out = [str(d.n), str(d.m), str(d.p), str(d.q)]
    for name, m in ss.models.items():
        if not hasattr(m, 'idx') or (m.n == 0 and not m.cache.vars_ext and not m.states and not m.algebs):
            continue
        out.append(name + ('+' if m.flags.address else '-'))
        for vn, v in list(m.states.items()) + list(m.algebs.items()):
            out.append('%s.%s=%s' % (name, vn, nats(v.a)))
        for vn, v in m.cache.vars_ext.items():
            out.append('%s.%s=%s@%s' % (name, vn, nats(v.a), nats(getattr(v, 'r', []))))
    return ' '.join(out) + ' X ' + ';'.join(d.x_name) + ' Y ' + ';'.join(d.y_name)


def make_gets(ss, case):
    """sampled Model.get / Group.get(attr='a') calls, incl. a few unknown idx"""
    import random
    rng = random.Random(case['gseed'])
    gets = []
    mods = [m for m in ss.models.values() if hasattr(m, 'idx') and m.n > 0 and (m.states or m.algebs)]
    for _ in range(case['nget'] if mods else 0):
        m = rng.choice(mods)
        vs = [(k, 'x') for k in m.states] + [(k, 'y') for k in m.algebs]
        vn, code = rng.choice(vs)
        k = rng.choice([1, 1, 2, 3])
        ids = [rng.choice(m.idx.v) for _ in range(k)]
        if rng.random() < 0.08:
            ids[rng.randrange(len(ids))] = rng.choice(['ghost', 987654, None])
        grp = ss.groups[m.group]
        if rng.random() < 0.5:
            gets.append(('M', m.class_name, code, vn, ids))
        else:
            # through the group: any member model that has the variable
            an = rng.random() < 0.3
            gets.append(('G', m.group, code, vn, an, ids))
    return gets


def enc_get(g):
    if g[0] == 'M':
        return '~'.join(['M', g[1], g[2], g[3], lst(enc_idx(i) for i in g[4])])
    return '~'.join(['G', g[1], g[2], g[3], '1' if g[4] else '0', lst(enc_idx(i) for i in g[5])])


def do_get(ss, g):
    import numpy as np
    try:
        if g[0] == 'M':
            r = ss.models[g[1]].get(g[3], list(g[4]), 'a')
        else:
            # the group API does not take the kind; the model resolves `src` among states or algebs by name
            r = ss.groups[g[1]].get(g[3], list(g[5]), 'a', allow_none=g[4], default=0)
        r = np.asarray(r)
        n_ids = len(g[4] if g[0] == 'M' else g[5])
        if r.dtype == object or r.ndim != 1 or len(r) != n_ids or np.any(np.isnan(r.astype(float))):
            return 'E'
        return nats(r)
    except (KeyError, IndexError, TypeError, ValueError):
        return 'E'


def tds_address_part(ss):
    """exactly the addressing statements of TDS.init (andes/routines/tds.py:206-208)"""
    ss.set_address(models=ss.exist.pflow_tds)
    ss.set_dae_names(models=ss.exist.tds)
    ss.set_output_subidx(models=ss.exist.pflow_tds)


def classify_setup_exception(e, msg, tb):
    """known mechanisms by which a valid system with string / mixed indices cannot be set up"""
    if isinstance(e, ValueError) and 'could not convert string to float' in msg and 'group.py' in tb \
            and 'link_external' in tb:
        return ('group-get-mixed-idx-types', 'Group.get types its result by the first value, so an idx-valued '
                'parameter whose devices mix numeric and string indices cannot be borrowed through a group')
    if isinstance(e, KeyError) and re.search(r'idx=-?\d+\.0\b', msg):
        return ('group-get-coerces-numeric-string', 'Group.get stored a digit-string idx into a float array (typed '
                'by the first, numeric, value); the borrowed index field now names no device (or another one)')
    if isinstance(e, TypeError) and 'isnan' in msg and 'service.py' in tb:
        return ('dataselect-string-idx', 'DataSelect calls np.isnan on a string index given for an optional '
                'index field')
    return None


def run_case(case):
    """returns dict(line=model input, impl=canonical output of the real code, oracle=[(key, what)], stats)"""
    import logging
    import numpy as np
    try:
        ss, auto = build(case)
        repointed = apply_pre(ss, case, auto) if case.get('pre') else 0
    except IndexError as e:
        if 'Unique parameter' in str(e) and 'duplicate value' in str(e):
            # invalid DATA, reported by the library when the device is added (or re-pointed): a refusal, not a violation
            return {'line': None, 'impl': None, 'oracle': [], 'setup_failed': ['duplicate value in a unique reference: refused'], 'stats': {}}
        raise
    errs = []

    class H(logging.Handler):
        def emit(self, rec):
            if rec.levelno >= logging.ERROR:
                errs.append(rec.getMessage()[:200])
    h = H()
    logging.getLogger('andes').addHandler(h)
    try:
        ok = ss.setup()
    except IndexError as e:
        logging.getLogger('andes').removeHandler(h)
        if 'Unique parameter' in str(e) and 'duplicate value' in str(e):
            # invalid DATA, reported by the library: two devices name the same target in a field declared unique (an
            # explicit idx that collides with an automatic one is renamed by System.add, and a reference written for it
            # then names the other device).  A refusal, not a violation.
            return {'line': None, 'impl': None, 'oracle': [], 'setup_failed': ['duplicate value in a unique reference: refused'], 'stats': {}}
        raise
    except (ValueError, TypeError, KeyError) as e:
        logging.getLogger('andes').removeHandler(h)
        msg = repr(e)
        tb = traceback.format_exc()
        key = classify_setup_exception(e, msg, tb)
        if key is None:
            raise
        return {'line': None, 'impl': None, 'stats': {}, 'oracle': [(key[0], 'setup() raised %s: %s' % (msg[:140], key[1]))]}
    bad = []
    if not ok:
        logging.getLogger('andes').removeHandler(h)
        return {'line': None, 'impl': None, 'oracle': [], 'setup_failed': errs[:3], 'stats': {}}
    gets = make_gets(ss, case)
    line = model_line(ss, case, [enc_get(g) for g in gets])
    dA = dump(ss)
    bad += oracle(ss, 'setup', ss.exist.pflow)
    snapshot = {(n, vn): np.array(v.a) for n, m in ss.models.items() for vn, v in m.cache.vars_int.items()}
    nA, mA = ss.dae.n, ss.dae.m
    try:
        tds_address_part(ss)
        o = 'O %s %s' % (nats(ss.Output.xidx), nats(ss.Output.yidx))
    except IndexError:
        o = 'O E E'
    logging.getLogger('andes').removeHandler(h)
    dB = dump(ss)
    bad += oracle(ss, 'tds', ss.exist.pflow_tds)
    bad += oracle_second_phase(ss, snapshot, nA, mA)
    incompatible = set()
    for e in errs:
        mm = re.match(r"Error: <(\w+)> cannot retrieve <(\w+)> from <(\w+)> using <(\w+)>:\s+KeyError\('(\w+)'\)", e)
        if mm and mm.group(5) == ss.models[mm.group(1)].__dict__[mm.group(2)].src:
            incompatible.add((mm.group(1), mm.group(2)))      # the target device's model has no such variable
        else:
            bad.append(('link-error-logged', 'set_address logged an error and went on: ' + e))
    bad += oracle_links(ss, incompatible)
    bad += oracle_inputs(ss, case, auto)
    bad += oracle_values(ss)
    g = 'G ' + ' '.join(do_get(ss, x) for x in gets)
    impl = 'A %s | B %s | %s | %s' % (dA, dB, o, g)
    nm = sum(1 for m in ss.models.values() if m.n > 0)
    stats = {'models': nm, 'devices': sum(m.n for m in ss.models.values()), 'n': int(ss.dae.n), 'm': int(ss.dae.m),
             'nA': int(nA), 'mA': int(mA),
             'ext': sum(len(m.cache.vars_ext) for m in ss.models.values() if m.n > 0),
             'zero_models_with_vars': sum(1 for m in ss.models.values() if m.n == 0),
             'collated': sum(1 for m in ss.models.values() if m.n > 0 and m.flags.collate),
             'idx_int': sum(1 for m in ss.models.values() if hasattr(m, 'idx') for i in m.idx.v if not isinstance(i, str)),
             'idx_str': sum(1 for m in ss.models.values() if hasattr(m, 'idx') for i in m.idx.v if isinstance(i, str)),
             'group_links': sum(1 for m in ss.models.values() if m.n > 0 for e in m.cache.vars_ext.values()
                                if e.model in ss.groups),
             'model_links': sum(1 for m in ss.models.values() if m.n > 0 for e in m.cache.vars_ext.values()
                                if e.model in ss.models),
             'gets': len(gets), 'incompatible_links': len(incompatible),
             'pre_history': 1 if case.get('pre') else 0, 'repointed_references': repointed}
    return {'line': line, 'impl': impl, 'oracle': bad, 'stats': stats}


# ------------------------------------------------------------------ property oracle (independent of the Lean model)

def expected_name(var, model, idx):
    """the name the property asks for: `<var> <Model> <idx>` of the owner (the documented form; an idx that
    already carries the model name is not repeated; LaTeX-safe underscores)"""
    s = idx if (isinstance(idx, str) and model in idx) else '%s %s' % (model, idx)
    return '%s %s' % (var, s.replace('_', ' '))


def oracle(ss, phase, models):
    """every slot of dae.x / dae.y is owned by exactly one (model, variable, device); every internal variable
    of every device of the addressed models owns one; the slot's name is that of the owner"""
    bad = []
    for code, size, names in (('x', ss.dae.n, ss.dae.x_name), ('y', ss.dae.m, ss.dae.y_name)):
        owner = {}
        if len(getattr(ss.dae, code)) != size or len(names) != size:
            bad.append(('array-size', '%s: len(dae.%s)=%d, names=%d, counter=%d'
                        % (phase, code, len(getattr(ss.dae, code)), len(names), size)))
        for mn, m in ss.models.items():
            vs = m.states if code == 'x' else m.algebs
            for vn, v in vs.items():
                if mn in models:
                    if len(v.a) != m.n:
                        bad.append(('var-without-slot', '%s: %s.%s has %d addresses for %d devices'
                                    % (phase, mn, vn, len(v.a), m.n)))
                for d, a in enumerate(v.a):
                    a = int(a)
                    if a in owner:
                        bad.append(('slot-owned-twice', '%s: dae.%s[%d] owned by %r and %r'
                                    % (phase, code, a, owner[a], (mn, vn, d))))
                    owner[a] = (mn, vn, d)
                    if not 0 <= a < size:
                        bad.append(('address-out-of-range', '%s: %s.%s[%d] = %d outside [0,%d)'
                                    % (phase, mn, vn, d, a, size)))
        missing = [a for a in range(size) if a not in owner]
        if missing:
            bad.append(('slot-unowned', '%s: dae.%s slots %r have no owner' % (phase, code, missing[:5])))
        for a, (mn, vn, d) in owner.items():
            if 0 <= a < len(names):
                exp = expected_name(vn, mn, ss.models[mn].idx.v[d])
                if names[a] != exp:
                    bad.append(('name-not-owner', '%s: %s_name[%d] = %r, owner is %r' % (phase, code, a, names[a], exp)))
    return bad[:6]


def oracle_second_phase(ss, snap, nA, mA):
    bad = []
    newx, newy = [], []
    for mn, m in ss.models.items():
        for vn, v in m.cache.vars_int.items():
            old = snap[(mn, vn)]
            if len(old) and not (len(old) == len(v.a) and (old == v.a).all()):
                bad.append(('address-moved', 'second phase changed %s.%s: %r -> %r' % (mn, vn, old[:4], v.a[:4])))
            if not len(old):
                (newx if v.v_code == 'x' else newy).extend(int(a) for a in v.a)
    if sorted(newx) != list(range(nA, ss.dae.n)):
        bad.append(('second-phase-not-filling', 'new state addresses are not exactly [%d,%d)' % (nA, ss.dae.n)))
    if sorted(newy) != list(range(mA, ss.dae.m)):
        bad.append(('second-phase-not-filling', 'new algebraic addresses are not exactly [%d,%d)' % (mA, ss.dae.m)))
    return bad[:4]


def owner_of(ss, target, idx):
    """the device named by an index field, found by scanning the idx lists (no uid dict, no get())"""
    if target in ss.models:
        cands = [ss.models[target]]
    else:
        cands = list(ss.groups[target].models.values())
    def same(j, i):
        if isinstance(j, str) or isinstance(i, str):
            return isinstance(j, str) and isinstance(i, str) and str(j) == str(i)
        return j == i
    hits = [(m, k) for m in cands for k, j in enumerate(m.idx.v) if same(j, idx)]
    return hits


def oracle_links(ss, incompatible=()):
    """an external variable / parameter resolves to the device named by the index field"""
    import numpy as np
    from andes.core.param import ExtParam, IdxParam
    from andes.core.service import DeviceFinder, DataSelect
    bad = []
    for mn, m in ss.models.items():
        if m.n == 0 or not hasattr(m, 'idx'):
            continue
        for en, e in m.cache.vars_ext.items():
            if e.indexer is None or (mn, en) in incompatible:
                continue
            ids = flat(e.indexer.v)
            given = set()
            if isinstance(e.indexer, DataSelect):
                # an optional index field that was given (any value other than None / NaN, the number 0 included) is
                # the index to follow; the fall-back field is used only where it was not given
                for k, (gv, fb) in enumerate(zip(e.indexer.optional.v, e.indexer.fallback.v)):
                    if k >= len(ids):
                        break
                    if gv is not None and not (isinstance(gv, float) and gv != gv):
                        if len(owner_of(ss, e.model, gv)) == 1:
                            ids[k] = gv
                            given.add(k)
                    else:
                        ids[k] = fb
            if isinstance(e.indexer, DeviceFinder):
                # the finder may only fill in EMPTY or INVALID fields: a field that was given and names an existing
                # device of the target is the index the borrowed variable has to follow
                for k, gv in enumerate(e.indexer.u.v):
                    if gv is not None and k < len(ids) and len(owner_of(ss, e.model, gv)) == 1:
                        ids[k] = gv
                        given.add(k)
            if len(ids) != len(e.a):
                bad.append(('ext-length', '%s.%s: %d addresses for %d indices' % (mn, en, len(e.a), len(ids))))
                continue
            for k, i in enumerate(ids):
                if i is None:
                    continue
                hits = owner_of(ss, e.model, i)
                if len(hits) != 1:
                    bad.append(('ext-owner-ambiguous', '%s.%s idx %r names %d devices of %s' % (mn, en, i, len(hits), e.model)))
                    continue
                om, u = hits[0]
                src = om.__dict__[e.src]
                if len(src.a) <= u or int(src.a[u]) != int(e.a[k]):
                    bad.append(('given-index-field-overridden' if k in given else 'ext-wrong-device', '%s.%s[%d] (idx %r) has address %d, %s.%s of that device has %s'
                                % (mn, en, k, i, int(e.a[k]), om.class_name, e.src,
                                   int(src.a[u]) if len(src.a) > u else None)))
        for pn, p in m.params_ext.items():
            if p.indexer is None:
                continue
            ids = list(p.indexer.v)
            for k, i in enumerate(ids):
                if i is None:
                    continue
                hits = owner_of(ss, p.model, i)
                if len(hits) != 1:
                    continue
                om, u = hits[0]
                src = om.__dict__.get(p.src)
                if isinstance(src, IdxParam) and k < len(p.v) and u < len(src.v):
                    a, b = p.v[k], src.v[u]
                    if isinstance(a, np.generic):
                        a = a.item()
                    if (isinstance(a, str) != isinstance(b, str)) or a != b:
                        key = 'group-get-coerces-numeric-string' if isinstance(b, str) and not isinstance(a, str) \
                            else 'extparam-wrong-device'
                        bad.append((key, '%s.%s[%d] borrowed through %s idx %r is %r, the index field %s.%s of that '
                                    'device is %r' % (mn, pn, k, p.model, i, a, om.class_name, p.src, b)))
                    continue
                vin = getattr(src, 'vin', None)
                if vin is None or getattr(p, 'vin', None) is None or len(vin) <= u or k >= len(p.vin):
                    continue
                a, b = p.vin[k], vin[u]
                if isinstance(a, (float, np.floating)) and not (a == b or (a != a and b != b)):
                    bad.append(('extparam-wrong-device', '%s.%s[%d] (idx %r) = %r, %s.%s of that device = %r'
                                % (mn, pn, k, i, a, om.class_name, p.src, b)))
    return bad[:6]


def oracle_inputs(ss, case, auto):
    """an index field that was GIVEN and names an existing device of its target still names that device after
    setup and addressing (services such as DeviceFinder may only fill in empty or invalid fields), and the
    variables borrowed through it sit on that device's slots"""
    from andes.core.param import IdxParam
    bad = []

    def res(v):
        return auto[v['auto']] if isinstance(v, dict) else v

    def same(j, i):
        if isinstance(j, str) or isinstance(i, str):
            return isinstance(j, str) and isinstance(i, str) and j == i
        return j == i
    for k_, a in enumerate(case['adds']):
        m = ss.models[a['model']]
        my = auto.get('#%d' % k_)
        pos = [k for k, j in enumerate(m.idx.v) if same(j, my)]
        if len(pos) != 1:
            continue
        for pn, v in a['params'].items():
            p = m.params.get(pn)
            if not isinstance(p, IdxParam) or p.model is None or v is None:
                continue
            want = res(v)
            if p.model not in ss.models and p.model not in ss.groups:
                continue
            if len(owner_of(ss, p.model, want)) != 1:
                continue
            got = p.v[pos[0]]
            if hasattr(got, 'item'):
                got = got.item()
            if not same(got, want):
                bad.append(('given-index-field-overridden', '%s %r was given %s=%r, which names an existing %s; after '
                            'setup the field reads %r and its borrowed variables follow that device'
                            % (a['model'], my, pn, want, p.model, got)))
    return bad[:4]


def oracle_values(ss):
    """a value read through the model, through its group, or through the global vector is the same number"""
    import numpy as np
    bad = []
    ss.dae.x[:] = 1000.0 + np.arange(ss.dae.n)
    ss.dae.y[:] = 5000.0 + np.arange(ss.dae.m)
    ss.store_adder_setter(models=ss.exist.pflow_tds)     # the statement that follows the address part in TDS.init
    ss.vars_to_models()
    for mn, m in ss.models.items():
        if m.n == 0 or mn not in ss.exist.pflow_tds or not hasattr(m, 'idx'):
            continue
        grp = ss.groups[m.group]
        for vn, v in m.cache.vars_int.items():
            arr = ss.dae.x if v.v_code == 'x' else ss.dae.y
            for d, i in enumerate(m.idx.v):
                g = arr[v.a[d]]
                a = m.get(vn, i, 'v')
                b = grp.get(vn, i, 'v')
                if not (a == g and b == g):
                    bad.append(('value-differs', '%s.%s of device %r: model %r, group %r, dae.%s[%d] %r'
                                % (mn, vn, i, a, b, v.v_code, int(v.a[d]), g)))
                    break
        for en, e in m.cache.vars_ext.items():
            arr = ss.dae.x if e.v_code == 'x' else ss.dae.y
            if e.n and not (np.asarray(e.v) == arr[e.a]).all():
                bad.append(('ext-value-differs', '%s.%s values differ from dae.%s at its addresses' % (mn, en, e.v_code)))
    return bad[:4]


def worker(case):
    try:
        return case, run_case(case), None
    except Exception:
        return case, None, traceback.format_exc()[-1800:]


def worker_forked(case):
    global _USE_BASE
    _USE_BASE = True
    return worker(case)


def run_many(cases, procs=12):
    import multiprocessing as mp
    global _BASE
    if len(cases) < 4:
        return [worker(c) for c in cases]
    meta()
    _BASE = new_system()
    try:
        with mp.get_context('fork').Pool(procs, maxtasksperchild=1) as pool:
            return pool.map(worker_forked, cases, chunksize=1)
    finally:
        _BASE = None
