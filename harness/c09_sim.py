"""C09, in-simulation clause: at every stored instant of a real TDS run a state behind an anti-windup limiter
lies in [lower - tol, upper + tol], and a pegged state has zero derivative (dae.f) and sits on the limit.

Stock cases with anti-windup limiters are loaded, the limits of a few devices are tightened around the
initial operating point (so that the disturbance already in the case drives the states into them) and
TDS.itm_step is wrapped on the instance to inspect the limiter after every accepted step."""
import numpy as np

CASES = ['kundur/kundur_full.xlsx', 'ieee14/ieee14_full.xlsx']
TF = {0: 2.6, 1: 1.6}


def gen(rng):
    case = rng.randrange(len(CASES))
    return {'kind': 'sim', 'case': case, 'tf': TF[case] + rng.choice([0.0, 0.4]),
            'which': rng.randrange(8), 'devs': [rng.randrange(8) for _ in range(rng.choice([1, 2, 3]))],
            'side': rng.choice(['upper', 'lower', 'both']), 'delta': rng.choice([1e-4, 1e-3, 1e-2, 5e-2]),
            'tstep': rng.choice([1 / 30, 1 / 60, 0.05])}


def run_one(sc):
    """returns (fails, stats)"""
    import andes
    ss = andes.load(andes.get_case(CASES[sc['case']]), no_output=True, default_config=True, setup=True)
    ss.PFlow.run()
    ss.TDS.config.tf = sc['tf']
    ss.TDS.config.tstep = sc['tstep']
    ss.TDS.config.no_tqdm = 1
    ss.TDS.init()
    aws = list(ss.antiwindups)
    aw = aws[sc['which'] % len(aws)]
    n = aw.owner.n
    x0 = np.array(aw.state.v)
    for d in sc['devs']:
        i = d % n
        if sc['side'] in ('upper', 'both') and not aw.no_upper and aw.sign_upper.v == 1 and isinstance(aw.upper.v, np.ndarray):
            aw.upper.v[i] = min(aw.upper.v[i], x0[i] + sc['delta'])
        if sc['side'] in ('lower', 'both') and not aw.no_lower and aw.sign_lower.v == 1 and isinstance(aw.lower.v, np.ndarray):
            aw.lower.v[i] = max(aw.lower.v[i], x0[i] - sc['delta'])
    tol = float(ss.TDS.config.tol)
    fails = []
    stats = {'steps': 0, 'pegged_instants': 0, 'released': 0}
    was_pegged = {}
    orig = ss.TDS.itm_step

    def lim_of(a, name, sign):
        v = a.__dict__[name].v
        v = v if isinstance(v, np.ndarray) else v * np.ones(a.owner.n)
        return -v if sign == -1 else v

    def inspect():
        stats['steps'] += 1
        for a in aws:
            up = lim_of(a, 'upper', a.sign_upper.v)
            lo = lim_of(a, 'lower', a.sign_lower.v)
            x = np.array(a.state.v)
            online = np.array(a.owner.u.v) != 0
            for i in range(a.owner.n):
                if not online[i] or lo[i] > up[i]:
                    continue
                name = '%s.%s[%d]' % (a.owner.class_name, a.name, i)
                if (not a.no_upper and x[i] > up[i] + 10 * tol) or (not a.no_lower and x[i] < lo[i] - 10 * tol):
                    fails.append(('sim-state-outside-limits', '%s = %r outside [%r, %r] at t=%r' % (name, x[i], lo[i], up[i], float(ss.dae.t))))
                if a.zi[i] == 0:
                    stats['pegged_instants'] += 1
                    was_pegged[name] = True
                    f = ss.dae.f[a.state.a[i]]
                    if f != 0:
                        fails.append(('sim-pegged-derivative-nonzero', '%s pegged but dae.f = %r at t=%r' % (name, f, float(ss.dae.t))))
                    lim = up[i] if a.zu[i] else lo[i]
                    if abs(x[i] - lim) > 10 * tol:
                        fails.append(('sim-pegged-not-at-limit', '%s pegged at %r, limit %r at t=%r' % (name, x[i], lim, float(ss.dae.t))))
                    if a.zl[i] + a.zu[i] + a.zi[i] != 1:
                        fails.append(('sim-flags-not-onehot', '%s flags %r %r %r' % (name, a.zi[i], a.zl[i], a.zu[i])))
                elif was_pegged.get(name):
                    stats['released'] += 1
                    was_pegged[name] = False

    def wrapped(*a, **k):
        ok = orig(*a, **k)
        if ok:
            inspect()
        return ok
    ss.TDS.itm_step = wrapped
    ss.TDS.run(no_summary=True)
    seen = {}
    for k, w in fails:
        seen.setdefault(k, w)
    stats['completed'] = bool(ss.exit_code == 0)
    return list(seen.items()), stats


def run(ctx):
    n = ctx.n(6, 40)
    for _ in range(n):
        sc = gen(ctx.rng)
        try:
            fails, stats = run_one(sc)
        except Exception as e:   # a crash of the simulator is not this property's business
            ctx.count('sim:exception:' + type(e).__name__)
            continue
        ctx.traces += 1
        ctx.case(('sim', str(sorted(sc.items()))) if stats['pegged_instants'] else None)
        ctx.count('kind:sim')
        ctx.count('sim:steps', stats['steps'])
        ctx.count('sim:pegged_instants', stats['pegged_instants'])
        ctx.count('sim:released', stats['released'])
        ctx.count('sim:completed' if stats['completed'] else 'sim:stopped_early')
        for key, what in fails:
            ctx.oracle_fail(key, what, sc)


def replay(sc):
    fails, _ = run_one(sc)
    return fails
