"""C06 — scheduled events fire exactly once at their exact time; the time grid is exact.

Lean: Andes/Props/C06.lean (model Andes/Model/TdsLoop.lean + Events.lean, scalar ℚ).
Tie: the REAL TDS.run()/calc_h/do_switch/store_switch_times/Toggle call-backs are driven with scripted
integrator verdicts; stamps, step sizes, switch index, event log are compared bit-for-bit with the
model executed by the Lean driver on the same schedule and verdicts."""
import glob
import json
import os
import random

from harness import common as C
from harness import tds_stub as T

PROP_MODULES = ['Andes.Props.C06']
RULE = ('scenario = (case, t0, tf segments, tstep, fixt, shrinkt, system frequency, 0-7 Toggle events at '
        'structured times incl. t0, tf, coincident, +-eps neighbours, off-grid, >10 s, negative, beyond tf, '
        'disabled, scripted integrator verdicts incl. failure bursts / NaN / criterion trip / rejected first step); '
        'distinct = distinct scenario; non-trivial = at least one accepted step and (an event inside the span or a '
        'rejected step or a resumed segment)')
ASSUMPTIONS = [
    'theorems are over exact rationals; IEEE rounding of t+(s-t) is exercised by the bit-exact correspondence only',
    'the integrator is an arbitrary verdict sequence in the model; in the correspondence itm_step is a stub on the instance',
    'Hyp.sw_pos excludes a switch time at t0=0 (known finding event-at-t0, Lean witness event_at_t0_never_fires)',
]
CORPUS = os.path.join(C.ROOT, 'corpus', 'c06')


def corpus_scenarios():
    out = []
    for f in sorted(glob.glob(os.path.join(CORPUS, '*.json'))):
        out.append(json.load(open(f)))
    return out


def nontrivial(sc, obs):
    if not obs['stamps']:
        return False
    inside = any(0 < e['t'] <= obs['stamps'][-1] for e in sc['events'])
    rejected = any(v[0] in 'fng' for v in obs['verdicts'])
    return inside or rejected or len(sc['tfs']) > 1


def check_scenarios(ctx, scenarios, oracle=T.oracle_c06, stream='tds-loop'):
    res = T.run_many(scenarios)
    lines, idx = [], []
    for i, (sc, obs, err) in enumerate(res):
        if err is not None:
            ctx.count('impl_exception')
            ctx.oracle_fail('exception:' + err.strip().split('\n')[-1][:80],
                            'the real TDS loop raised: ' + err.strip().split('\n')[-1][:200], sc)
            continue
        lines.append(T.model_line(sc, obs))
        lines.append(T.tog_line(sc, obs))
        idx.append(i)
    outs = ctx.driver.ask(lines)
    for k, i in enumerate(idx):
        sc, obs, _ = res[i]
        impl = T.impl_line(obs)
        model = outs[2 * k]
        ctx.traces += 1
        sig = json.dumps(sc, sort_keys=True)
        ctx.case(sig if nontrivial(sc, obs) else None,
                 {'scenario': sc, 'stamps': obs['stamps'][:8], 'events': obs['events'][:4],
                  'verdicts': obs['verdicts'][:12]})
        ctx.count('vmode:' + sc['vmode'])
        ctx.count('segments:%d' % len(sc['tfs']))
        ctx.count('events:%d' % len(sc['events']))
        ctx.count('steps_accepted', len(obs['stamps']))
        ctx.count('steps_rejected', sum(1 for v in obs['verdicts'] if v[0] in 'fng'))
        ctx.count('switch_actions', len(obs['events']))
        ctx.count('busted' if obs['segs'][-1]['busted'] else ('success' if obs['segs'][-1]['ok'] else 'stopped_short'))
        if impl != model:
            ctx.disagree(stream, sc, impl[:2000], model[:2000])
        impl_u = ''.join(str(int(x)) for x in obs['line_u'])
        if impl_u != outs[2 * k + 1]:
            ctx.disagree('toggle-effect', sc, impl_u, outs[2 * k + 1])
        for key, what in oracle(sc, obs):
            ctx.oracle_fail(key, what, sc)
    return res


def check_switch_times(ctx, n):
    """System.store_switch_times against Tds.switchTimes on raw time lists (no simulation)"""
    import numpy as np
    import andes
    ss = andes.load(andes.get_case(T.CASES[0]), setup=False, no_output=True, default_config=True)
    ss.setup()
    lines, exp = [], []
    rng = ctx.rng
    for _ in range(n):
        k = rng.choice([0, 1, 2, 3, 5, 8])
        times = []
        for _ in range(k):
            r = rng.random()
            if r < 0.3 and times:
                times.append(times[rng.randrange(len(times))] + rng.choice([0, 1e-4, -1e-4, 2e-4]))
            elif r < 0.5:
                times.append(rng.choice([0.0, 1e-4, -1e-4, 1.0, 2.0, -1.0, 10.0001]))
            else:
                times.append(round(rng.uniform(-0.5, 12), rng.choice([1, 3, 6])))
        times = [t + 0.0 for t in times]   # no negative zero: its sign is not observable in the schedule
        now = rng.choice([0.0, 0.0, 0.0, 1.0, 0.5])
        ss.switch_dict.clear()
        ss.dae.t = np.array(now)

        class M:
            class_name = 'Toggle'

            def __init__(self, t):
                self.t = t

            def get_times(self):
                return [np.array(self.t)] if self.t else []
        got = ss.store_switch_times({'Toggle': M(times)})
        lines.append('swt %s %s %s' % (C.f2h(1e-4), C.f2h(now), ','.join(C.f2h(t) for t in times) or '-'))
        exp.append(','.join(C.f2h(float(x)) for x in got) or '-')
        ctx.count('switch_time_lists')
        # oracle: strictly increasing, contains every time >= now
        g = [float(x) for x in got]
        if any(not a < b for a, b in zip(g, g[1:])):
            ctx.oracle_fail('switch-times-unsorted', 'store_switch_times returned a non-increasing list', times)
        for t in times:
            if t >= now and t not in g:
                ctx.oracle_fail('switch-time-missing', 'event time %r missing from switch_times' % t, times)
    outs = ctx.driver.ask(lines)
    for ln, e, o in zip(lines, exp, outs):
        ctx.evaluations += 1
        if e != o:
            ctx.disagree('store_switch_times', ln, e, o)


def run(ctx):
    import andes
    andes.config_logger(stream_level=50)
    n = ctx.n(260, 2600)
    scs = corpus_scenarios()
    ctx.count('corpus', len(scs))
    scs += [T.gen_scenario(ctx.rng) for _ in range(n)]
    check_scenarios(ctx, scs)
    check_switch_times(ctx, ctx.n(300, 3000))
    ctx.cov['source_hashes'] = {
        'TDS.calc_h': C.hash_source(C.REPO + '/andes/routines/tds.py', 'TDS.calc_h'),
        'TDS.run': C.hash_source(C.REPO + '/andes/routines/tds.py', 'TDS.run'),
        'TDS.do_switch': C.hash_source(C.REPO + '/andes/routines/tds.py', 'TDS.do_switch'),
        'System.store_switch_times': C.hash_source(C.REPO + '/andes/system.py', 'System.store_switch_times'),
        'Toggle._u_switch': C.hash_source(C.REPO + '/andes/models/timer.py', 'Toggle._u_switch'),
    }


def search(ctx):
    """something broke: look harder for an input on which the property fails on the real code"""
    rng = random.Random(ctx.seed * 7919 + 17)
    scs = []
    for d in ctx.disagreements[:40]:
        if isinstance(d['case'], dict) and 'events' in d['case']:
            scs.append(d['case'])
    scs += [T.gen_scenario(rng) for _ in range(ctx.n(600, 3000))]
    res = T.run_many(scs)
    for sc, obs, err in res:
        if err is not None:
            continue
        for key, what in T.oracle_c06(sc, obs):
            ctx.oracle_fail(key, what, sc)


def replay(ctx, rep):
    sc = rep['case']
    sc2, obs, err = T._worker(sc)
    if err:
        print(err)
        return False
    bad = T.oracle_c06(sc, obs)
    for key, what in bad:
        print('  ', key, what)
    return not bad
