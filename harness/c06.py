"""C06 — scheduled events fire exactly once at their exact time; the time grid is exact.

Lean: Andes/Props/C06.lean (model Andes/Model/TdsLoop.lean + Events.lean, scalar ℚ).
Tie: the REAL TDS.run()/calc_h/do_switch/store_switch_times/Toggle call-backs are driven with scripted
integrator verdicts; stamps, step sizes, switch index, event log are compared bit-for-bit with the
model executed by the Lean driver on the same schedule and verdicts."""
import glob
import json
import os
import random

from harness import common as C
from harness import tds_stub as T

PROP_MODULES = ['Andes.Props.C06']
RULE = ('scenario = (case, t0, tf segments, tstep, fixt, shrinkt, system frequency, 0-7 Toggle events at '
        'structured times incl. t0, tf, coincident, +-eps neighbours, off-grid, >10 s, negative, beyond tf, '
        'disabled, scripted integrator verdicts incl. failure bursts / NaN / criterion trip / rejected first step); '
        'distinct = distinct scenario; non-trivial = at least one accepted step and (an event inside the span or a '
        'rejected step or a resumed segment)')
ASSUMPTIONS = [
    'theorems are over exact rationals; IEEE rounding of t+(s-t) is exercised by the bit-exact correspondence only',
    'the integrator is an arbitrary verdict sequence in the model; in the correspondence itm_step is a stub on the instance',
    'Hyp.sw_pos excludes a switch time at t0=0 (known finding event-at-t0, Lean witness event_at_t0_never_fires)',
]
CORPUS = os.path.join(C.ROOT, 'corpus', 'c06')


def corpus_scenarios():
    out = []
    for f in sorted(glob.glob(os.path.join(CORPUS, '*.json'))):
        out.append(json.load(open(f)))
    return out


def nontrivial(sc, obs):
    if not obs['stamps']:
        return False
    inside = any(0 < e['t'] <= obs['stamps'][-1] for e in sc['events'])
    rejected = any(v[0] in 'fng' for v in obs['verdicts'])
    return inside or rejected or len(sc['tfs']) > 1


def check_scenarios(ctx, scenarios, oracle=T.oracle_c06, stream='tds-loop'):
    res = T.run_many(scenarios)
    lines, idx = [], []
    for i, (sc, obs, err) in enumerate(res):
        if err is not None:
            ctx.count('impl_exception')
            ctx.oracle_fail('exception:' + err.strip().split('\n')[-1][:80],
                            'the real TDS loop raised: ' + err.strip().split('\n')[-1][:200], sc)
            continue
        lines.append(T.model_line(sc, obs))
        lines.append(T.tog_line(sc, obs))
        idx.append(i)
    outs = ctx.driver.ask(lines)
    for k, i in enumerate(idx):
        sc, obs, _ = res[i]
        impl = T.impl_line(obs)
        model = outs[2 * k]
        ctx.traces += 1
        sig = json.dumps(sc, sort_keys=True)
        ctx.case(sig if nontrivial(sc, obs) else None,
                 {'scenario': sc, 'stamps': obs['stamps'][:8], 'events': obs['events'][:4],
                  'verdicts': obs['verdicts'][:12]})
        ctx.count('vmode:' + sc['vmode'])
        ctx.count('segments:%d' % len(sc['tfs']))
        ctx.count('events:%d' % len(sc['events']))
        ctx.count('steps_accepted', len(obs['stamps']))
        ctx.count('steps_rejected', sum(1 for v in obs['verdicts'] if v[0] in 'fng'))
        ctx.count('switch_actions', len(obs['events']))
        ctx.count('busted' if obs['segs'][-1]['busted'] else ('success' if obs['segs'][-1]['ok'] else 'stopped_short'))
        if impl != model:
            ctx.disagree(stream, sc, impl[:2000], model[:2000])
        impl_u = ''.join(str(int(x)) for x in obs['line_u'])
        if impl_u != outs[2 * k + 1]:
            ctx.disagree('toggle-effect', sc, impl_u, outs[2 * k + 1])
        for key, what in oracle(sc, obs):
            ctx.oracle_fail(key, what, sc)
    return res


def check_switch_times(ctx, n):
    """System.store_switch_times against Tds.switchTimes on raw time lists (no simulation)"""
    import numpy as np
    import andes
    ss = andes.load(andes.get_case(T.CASES[0]), setup=False, no_output=True, default_config=True)
    ss.setup()
    lines, exp = [], []
    rng = ctx.rng
    for _ in range(n):
        k = rng.choice([0, 1, 2, 3, 5, 8])
        times = []
        for _ in range(k):
            r = rng.random()
            if r < 0.3 and times:
                times.append(times[rng.randrange(len(times))] + rng.choice([0, 1e-4, -1e-4, 2e-4]))
            elif r < 0.5:
                times.append(rng.choice([0.0, 1e-4, -1e-4, 1.0, 2.0, -1.0, 10.0001]))
            else:
                times.append(round(rng.uniform(-0.5, 12), rng.choice([1, 3, 6])))
        times = [t + 0.0 for t in times]   # no negative zero: its sign is not observable in the schedule
        now = rng.choice([0.0, 0.0, 0.0, 1.0, 0.5])
        ss.switch_dict.clear()
        ss.dae.t = np.array(now)

        class M:
            class_name = 'Toggle'

            def __init__(self, t):
                self.t = t

            def get_times(self):
                return [np.array(self.t)] if self.t else []
        got = ss.store_switch_times({'Toggle': M(times)})
        lines.append('swt %s %s %s' % (C.f2h(1e-4), C.f2h(now), ','.join(C.f2h(t) for t in times) or '-'))
        exp.append(','.join(C.f2h(float(x)) for x in got) or '-')
        ctx.count('switch_time_lists')
        # oracle: strictly increasing, contains every time >= now
        g = [float(x) for x in got]
        if any(not a < b for a, b in zip(g, g[1:])):
            ctx.oracle_fail('switch-times-unsorted', 'store_switch_times returned a non-increasing list', times)
        for t in times:
            if t >= now and t not in g:
                ctx.oracle_fail('switch-time-missing', 'event time %r missing from switch_times' % t, times)
    outs = ctx.driver.ask(lines)
    for ln, e, o in zip(lines, exp, outs):
        ctx.evaluations += 1
        if e != o:
            ctx.disagree('store_switch_times', ln, e, o)


# ------------------------------------------------------------------ time-series updates on the real integrator

TS_SCRIPT = r"""
import sys, json, os, warnings, io, contextlib
warnings.simplefilter('ignore')
import numpy as np, pandas as pd, andes
andes.config_logger(stream_level=50)
spec = json.loads(sys.argv[1])
ss = andes.load(andes.get_case('ieee14/ieee14_timeseries.xlsx'), setup=False, no_output=True, default_config=True)
series = {}
first = pd.read_excel(andes.get_case('ieee14/pqts.xlsx'), sheet_name='PQTS')
series['PQ_1'] = [[float(t), float(p)] for t, p in zip(first['t'], first['p'])]
for k, sr in enumerate(spec['series']):
    f = os.path.join(spec['dir'], 'ts%d.csv' % k)
    pd.DataFrame({'t': [r[0] for r in sr['rows']], 'p': [r[1] for r in sr['rows']], 'q': [0.1] * len(sr['rows'])}).to_csv(f, index=False)
    ss.add('TimeSeries', dict(idx='TSx%d' % k, mode=1, path=f, sheet='-', fields='p,q', tkey='t', model='PQ', dev=sr['dev'],
                              dests='Ppf,Qpf', u=sr.get('u', 1)))
    if sr.get('u', 1):
        series[sr['dev']] = [list(map(float, r)) for r in sr['rows']]
    else:
        series[sr['dev']] = []
ss.setup()
ss.PFlow.run()
c = ss.TDS.config; c.no_tqdm = 1; c.criteria = 0; c.tstep = spec['tstep']; c.fixt = spec['fixt']
devs = sorted(series)
rec = []
orig = ss.TDS.itm_step
def wrap():
    ok = orig()
    if ok:
        rec.append([float(ss.dae.t)] + [float(ss.PQ.get(src='Ppf', idx=d, attr='v')) for d in devs])
    return ok
ss.TDS.itm_step = wrap
ends = []
sink = io.StringIO()
for tf in spec['tfs']:
    c.tf = tf
    with contextlib.redirect_stdout(sink):
        ok = ss.TDS.run()
    ends.append([bool(ok), float(ss.dae.t)] + [float(ss.PQ.get(src='Ppf', idx=d, attr='v')) for d in devs])
print(json.dumps({'devs': devs, 'series': series, 'rec': rec, 'ends': ends, 'stamps': [float(t) for t in ss.dae.ts.t],
                  'p0': [float(ss.PQ.get(src='p0', idx=d, attr='v')) for d in devs]}))
"""


def ts_job(spec):
    import subprocess
    import sys
    p = subprocess.run([sys.executable, '-c', TS_SCRIPT, json.dumps(spec)], stdout=subprocess.PIPE, stderr=subprocess.PIPE,
                       text=True, timeout=1800)
    if p.returncode != 0:
        return {'error': p.stderr[-500:]}
    return json.loads(p.stdout.strip().split('\n')[-1])


def ts_stream(ctx, n):
    """several time-series devices with different stamp sets (shared, off-grid, beyond tf, disabled) on different loads,
    the real integrator, resumed segments: every stamp inside the run is a stored step time, each load holds the row
    of ITS OWN series from that instant on, and nothing else changes it"""
    import multiprocessing as mp
    import shutil
    import tempfile
    tmp = tempfile.mkdtemp(prefix='c06ts-', dir=C.WORK)
    specs = []
    for k in range(n):
        rng = ctx.rng
        pool = [round(rng.uniform(0.2, 2.4), rng.choice([1, 2, 3])) for _ in range(5)] + [1.0, 1.5, 2.0, rng.uniform(0.3, 2.3)]
        series = []
        for j, dev in enumerate(rng.sample(['PQ_2', 'PQ_3', 'PQ_4', 'PQ_5'], rng.choice([1, 2, 2, 3]))):
            st = sorted(set(rng.sample(pool, rng.choice([1, 2, 3]))))
            if rng.random() < 0.2:
                st.append(5.0)       # beyond the end of the run: never applied
            rows = [[t, round(0.3 + 0.1 * i + 0.05 * j, 3)] for i, t in enumerate(st)]
            if len(rows) > 1 and rng.random() < 0.4:
                rng.shuffle(rows)        # a data sheet whose rows were entered out of chronological order
            series.append({'dev': dev, 'rows': rows, 'u': 0 if rng.random() < 0.12 else 1})
        cut = round(rng.uniform(0.4, 2.2), rng.choice([1, 2]))
        d = os.path.join(tmp, 'j%d' % k)
        os.makedirs(d)
        specs.append({'series': series, 'tfs': [2.6] if rng.random() < 0.5 else [cut, 2.6], 'tstep': rng.choice([1 / 30, 0.05, 0.1]),
                      'fixt': rng.choice([1, 1, 0]), 'dir': d})
    with mp.get_context('fork').Pool(min(6, max(1, len(specs)))) as pool:
        res = pool.map(ts_job, specs)
    shutil.rmtree(tmp, ignore_errors=True)
    for sp, r in zip(specs, res):
        case = {'stream': 'time-series', 'spec': {k: v for k, v in sp.items() if k != 'dir'}}
        ctx.case(json.dumps(case, sort_keys=True), case)
        ctx.count('timeseries_runs')
        if 'error' in r:
            ctx.oracle_fail('timeseries-run-raises', 'a run with time-series devices raised: ' + r['error'][-200:], case)
            continue
        tf = sp['tfs'][-1]
        stamps = r['stamps']
        if any(b <= a for a, b in zip(stamps, stamps[1:])):
            ctx.oracle_fail('stamps-not-increasing', 'stored time stamps are not strictly increasing in a run with time series', case)
        if not r['ends'][-1][0] or r['ends'][-1][1] != tf:
            ctx.oracle_fail('success-not-at-tf', 'a run with time series did not end at tf: %r' % r['ends'][-1][:2], case)
            continue
        for di, dev in enumerate(r['devs']):
            rows = r['series'][dev]
            rounded = False
            for t, _ in rows:
                if 0 < t <= tf:
                    ctx.count('timeseries_stamps')
                    if t not in stamps:
                        if any(abs(st_ - t) <= 4e-16 * max(1.0, abs(t)) for st_ in stamps):
                            # the step clipped to h = s - t lands one ulp beside the stamp s: the known floating-point
                            # finding; the update scheduled at s is then never applied (its time is never "now")
                            rounded = True
                            ctx.oracle_fail('switch-time-rounding', 'floating point: the step clipped to the time-series stamp %r of %s lands one '
                                            'ulp beside it; the update scheduled there is never applied' % (t, dev), case)
                        else:
                            ctx.oracle_fail('step-crosses-event', 'no stored step ends exactly at the time-series stamp %r of %s' % (t, dev), case)
            if rounded:
                continue
            # a step that ends at time t was solved with the rows whose stamp is < t (the update is applied after the
            # step that lands on its stamp); at the end of a run the rows with stamp <= t have been applied
            def want(t, strict):
                v = r['p0'][di]
                for ts_, p_ in sorted(rows):
                    if ts_ < t or (not strict and ts_ == t):
                        v = p_
                return v
            for row in r['rec']:
                if abs(row[1 + di] - want(row[0], True)) > 1e-12:
                    ctx.oracle_fail('timeseries-value-wrong', 'load %s holds Ppf = %r during the step ending at t = %r; its own series says %r'
                                    % (dev, row[1 + di], row[0], want(row[0], True)), case)
                    break
            for e in r['ends']:
                if abs(e[2 + di] - want(e[1], False)) > 1e-12:
                    ctx.oracle_fail('timeseries-value-wrong', 'after the run to t = %r load %s holds Ppf = %r; its own series says %r'
                                    % (e[1], dev, e[2 + di], want(e[1], False)), case)
                    break


def run(ctx):
    import andes
    andes.config_logger(stream_level=50)
    n = ctx.n(260, 2600)
    scs = corpus_scenarios()
    ctx.count('corpus', len(scs))
    scs += [T.gen_scenario(ctx.rng) for _ in range(n)]
    check_scenarios(ctx, scs)
    check_switch_times(ctx, ctx.n(300, 3000))
    ts_stream(ctx, ctx.n(5, 30))
    ctx.cov['source_hashes'] = {
        'TDS.calc_h': C.hash_source(C.REPO + '/andes/routines/tds.py', 'TDS.calc_h'),
        'TDS.run': C.hash_source(C.REPO + '/andes/routines/tds.py', 'TDS.run'),
        'TDS.do_switch': C.hash_source(C.REPO + '/andes/routines/tds.py', 'TDS.do_switch'),
        'System.store_switch_times': C.hash_source(C.REPO + '/andes/system.py', 'System.store_switch_times'),
        'Toggle._u_switch': C.hash_source(C.REPO + '/andes/models/timer.py', 'Toggle._u_switch'),
    }


def search(ctx):
    """something broke: look harder for an input on which the property fails on the real code"""
    rng = random.Random(ctx.seed * 7919 + 17)
    scs = []
    for d in ctx.disagreements[:40]:
        if isinstance(d['case'], dict) and 'events' in d['case']:
            scs.append(d['case'])
    scs += [T.gen_scenario(rng) for _ in range(ctx.n(600, 3000))]
    res = T.run_many(scs)
    for sc, obs, err in res:
        if err is not None:
            continue
        for key, what in T.oracle_c06(sc, obs):
            ctx.oracle_fail(key, what, sc)


def replay(ctx, rep):
    sc = rep['case']
    sc2, obs, err = T._worker(sc)
    if err:
        print(err)
        return False
    bad = T.oracle_c06(sc, obs)
    for key, what in bad:
        print('  ', key, what)
    return not bad
