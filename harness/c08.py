"""C08 — eigenvalue analysis reports the true small-signal modes of the DAE.

Lean: Andes/Props/C08.lean (model Andes/Model/Eig.lean over exact rationals, solver / LAPACK as parameters).
Tie: random small dyadic matrices are injected as dae.fx/fy/gx/gy/Tf of a real System and run through the REAL
EIG.calc_As / _reduce / _reorder / find_zero_states; EIG._store_stats, EIG.calc_pfactor (np.linalg.eig output
fed to both sides as |W|, |N|) and the `most associated` selection of EIG.report are called on the real object;
the same data go through the model (`andes_driver eigas|eigst|eigpf|eigam|eigsw`) and are compared: counts,
indices, names, error kinds exactly; matrix values against the model's exact rationals with a stated tolerance.
Oracle (independent of the model, numpy/scipy only): every reported eigenvalue is a generalised eigenvalue of
the pencil ([[fx,fy],[gx,gy]], diag(T,0)) and their number is the number of non-zero time constants; the
state matrix equals T^-1 (fx - fy gy^-1 gx); counts sum to n; rows of the participation matrix are >= 0 and
sum to 1; the named state carries the largest true participation; a sweep uses the swept time constant."""
import ast
import glob
import json
import os
from fractions import Fraction

import numpy as np

from harness import common as C

PROP_MODULES = ['Andes.Props.C08']
RULE = ('case = (stream, data): calc_As on injected dyadic matrices (n<=8 states, m<=8 algebraic, 0-3 zero time '
        'constants at random positions, gy well conditioned); _store_stats on eigenvalue lists with real parts at '
        '0, +-tol, +-tol(1+-eps), random tol>=0; calc_pfactor/report on random dyadic state matrices; stock cases '
        'kundur_full (+ieee14_full in thorough) incl. a sweep; distinct = distinct input; non-trivial = n>=2 and '
        '(for calc_As) m>=1')
ASSUMPTIONS = [
    'theorems are over exact rationals / arbitrary fields; LAPACK eig, the sparse solver and IEEE rounding are '
    'runtime residue checked a posteriori (residual, solver contract checked exactly by the driver)',
    'calc_As values: |impl - model| <= 1e-9 (1 + max|model|) cond; cases with cond(gy) or cond(second block) > 1e6 skipped and counted',
    'calc_pfactor values are compared after np.round(.,5): |impl - model| <= 0.5e-5 + 1e-9',
    'the model carries both variants of _store_stats / calc_pfactor; the variant is chosen by inspecting the current source',
    'zero time constants: only the hypothesis-free algebra (zero_T_states_are_algebraic) is proved; the code as '
    'written violates it (Lean counterexamples, oracle keys zeroT-*)',
]
CORPUS = os.path.join(C.ROOT, 'corpus', 'c08')


def eig_py():
    """the source file of the EIG routine that is actually imported"""
    import andes.routines.eig as E
    return E.__file__

STOCK = 'kundur/kundur_full.xlsx'


# ------------------------------------------------------------------ source inspection (variant of the model)

def source_variants():
    """which form of the two one-line defects does the CURRENT source have?  c = as on the pinned tree,
    s = as the property needs it"""
    tree = ast.parse(open(eig_py()).read())
    neg, pf = 'c', 'c'
    for node in ast.walk(tree):
        if isinstance(node, ast.FunctionDef) and node.name == '_store_stats':
            for a in ast.walk(node):
                if isinstance(a, ast.Assign) and isinstance(a.targets[0], ast.Attribute) and a.targets[0].attr == 'n_negative':
                    for cmpn in ast.walk(a.value):
                        if isinstance(cmpn, ast.Compare) and isinstance(cmpn.ops[0], ast.Lt):
                            rhs = cmpn.comparators[0]
                            neg = 's' if isinstance(rhs, ast.UnaryOp) and isinstance(rhs.op, ast.USub) else 'c'
        if isinstance(node, ast.FunctionDef) and node.name == 'calc_pfactor':
            for a in ast.walk(node):
                if isinstance(a, ast.AugAssign) and isinstance(a.op, ast.Div) and isinstance(a.target, ast.Subscript):
                    sl = a.target.slice
                    if isinstance(sl, ast.Tuple) and len(sl.elts) == 2:
                        pf = 's' if isinstance(sl.elts[1], ast.Slice) and not isinstance(sl.elts[0], ast.Slice) else 'c'
    return neg, pf


def sweep_variant():
    """c = as on the pinned tree (dae.Tf is only written by the first TDS.init); s = the sweep refreshes the time
    constants itself (calls System._store_tf or resets TDS.initialized)"""
    tree = ast.parse(open(eig_py()).read())
    for node in ast.walk(tree):
        if isinstance(node, ast.FunctionDef) and node.name == 'sweep':
            for a in ast.walk(node):
                if isinstance(a, ast.Attribute) and a.attr == '_store_tf':
                    return 's'
                if isinstance(a, ast.Assign) and isinstance(a.targets[0], ast.Attribute) and a.targets[0].attr == 'initialized':
                    return 's'
    return 'c'


# ------------------------------------------------------------------ helpers

def _fail(ctx, key, what, case):
    ctx.count('oracle:' + key)
    ctx.oracle_fail(key, what, case)


def H(a):
    a = np.asarray(a, float).ravel()
    return ','.join(C.f2h(x) for x in a) if a.size else '-'


def fracs(s):
    return [] if s == '-' else [Fraction(x) for x in s.split(',')]


def dy(rng, scale=4):
    """small dyadic number (exact in binary floating point)"""
    return rng.randint(-4 * scale, 4 * scale) / rng.choice([1, 2, 4, 8])


def sp(A):
    from kvxopt import spmatrix
    A = np.asarray(A, float)
    I, J = np.nonzero(A)
    return spmatrix(A[I, J].tolist(), I.tolist(), J.tolist(), A.shape, 'd')


def dense(M):
    from kvxopt import matrix
    return np.array(matrix(M), dtype=float).reshape(M.size) if M.size[0] * M.size[1] else np.zeros(M.size)


class Real:
    """one real System whose dae blocks are overwritten; EIG methods are the real ones"""

    def __init__(self):
        import andes
        import andes.routines.eig as E
        self.E = E
        self.ss = andes.load(andes.get_case(STOCK), no_output=True, default_config=True)
        self.eig = self.ss.EIG

    def inject(self, c):
        d = self.ss.dae
        n, m = c['n'], c['m']
        d.n, d.m = n, m
        d.fx, d.fy, d.gx, d.gy = sp(np.reshape(c['fx'], (n, n))), sp(np.reshape(c['fy'], (n, m))), \
            sp(np.reshape(c['gx'], (m, n))), sp(np.reshape(c['gy'], (m, m)))
        # the time-constant vector of a live system is one persistent array that Model.set / alter update IN PLACE;
        # the injection keeps the same array object whenever the size allows, so anything EIG remembers about it
        # between calls is exercised with changed contents
        if isinstance(d.Tf, np.ndarray) and d.Tf.dtype == float and len(d.Tf) == n:
            d.Tf[:] = np.array(c['Tf'], float)
        else:
            d.Tf = np.array(c['Tf'], float)
        d.x_name = ['x%d' % i for i in range(n)]

    def calc_as(self, c):
        self.inject(c)
        self.eig.Asc = None
        try:
            As = self.eig.calc_As()
        except IndexError:
            return {'err': 'index'}
        except TypeError as e:
            return {'err': 'dims' if 'incompatible dimensions' in str(e) else 'exc:TypeError'}
        except Exception as e:   # noqa
            return {'err': 'exc:' + type(e).__name__}
        out = {'As': dense(As), 'names': [int(str(s)[1:]) for s in self.eig.x_name],
               'Asc': None if self.eig.Asc is None else dense(self.eig.Asc)}
        if out['Asc'] is not None and hasattr(self.eig, 'As_perm'):
            nz = self.eig.nz_counts
            out['blk'] = dense(self.eig.As_perm)[nz:, nz:]
        return out


def gen_as(rng):
    n = rng.choice([1, 2, 2, 3, 3, 4, 5, 6, 8])
    m = rng.choice([1, 1, 2, 3, 4, 6, 8])
    fx = [dy(rng) if rng.random() < 0.8 else 0.0 for _ in range(n * n)]
    fy = [dy(rng) if rng.random() < 0.7 else 0.0 for _ in range(n * m)]
    gx = [dy(rng) if rng.random() < 0.7 else 0.0 for _ in range(m * n)]
    # gy: strictly diagonally dominant (non-singular, well conditioned), sparse off-diagonals
    gy = np.zeros((m, m))
    for i in range(m):
        for j in range(m):
            if i != j and rng.random() < 0.5:
                gy[i, j] = dy(rng, 1)
        gy[i, i] = (np.abs(gy[i]).sum() + rng.choice([1, 2, 4, 0.5])) * rng.choice([1, -1])
    k = rng.choice([0, 0, 0, 1, 1, 2, 3])
    k = min(k, n)
    z = set(rng.sample(range(n), k))
    # (a few tiny but NON-zero time constants: powers of two, so that 1/T stays exact)
    Tf = [0.0 if i in z else (rng.choice([2.0 ** -30, 2.0 ** -34, 2.0 ** -27]) if rng.random() < 0.06 else
                              rng.choice([1, 2, 4, 8, 0.5, 16, 3, 5, 10, 0.25])) for i in range(n)]
    return {'kind': 'as', 'n': n, 'm': m, 'fx': fx, 'fy': fy, 'gx': gx, 'gy': gy.ravel().tolist(), 'Tf': Tf}


def as_line(c):
    return 'eigas %d %d %s %s %s %s %s' % (c['n'], c['m'], H(c['fx']), H(c['fy']), H(c['gx']), H(c['gy']), H(c['Tf']))


def pencil_ok(c, mus):
    """every mu is a generalised eigenvalue of (J, E): smallest singular value of J - mu E vanishes"""
    n, m = c['n'], c['m']
    J = np.block([[np.reshape(c['fx'], (n, n)), np.reshape(c['fy'], (n, m))],
                  [np.reshape(c['gx'], (m, n)), np.reshape(c['gy'], (m, m))]])
    Ed = np.concatenate([np.array(c['Tf'], float), np.zeros(m)])
    worst = 0.0
    for mu in mus:
        Mx = J - mu * np.diag(Ed)
        s = np.linalg.svd(Mx, compute_uv=False)
        worst = max(worst, s[-1] / (1e-300 + s[0]))
    return worst


def oracle_as(c, out):
    """property on the real result, numpy only; returns [(key, what)]"""
    n, m = c['n'], c['m']
    Tf = np.array(c['Tf'], float)
    z = np.where(Tf == 0)[0]
    nzn = n - len(z)
    tail = len(z) > 0 and list(z) == list(range(nzn, n))
    if 'err' in out:
        if len(z) == 0:
            return [('calc-as-raises', 'calc_As raised %s without zero time constants' % out['err'])]
        return [('zeroT-reorder-raises', 'calc_As raised (%s) for Tf with zeros at %s' % (out['err'], list(z)))]
    As = out['As']
    bad = []
    if not np.all(np.isfinite(As)):
        return [('state-matrix-not-finite', 'calc_As returned inf/nan entries (Tf zeros at %s)' % list(z))]
    if len(z) == 0:
        fx, fy, gx, gy = (np.reshape(c[k], s) for k, s in (('fx', (n, n)), ('fy', (n, m)), ('gx', (m, n)), ('gy', (m, m))))
        ref = (fx - fy @ np.linalg.solve(gy, gx)) / Tf[:, None]
        if As.shape != ref.shape or np.abs(As - ref).max() > 1e-8 * (1 + np.abs(ref).max()):
            bad.append(('state-matrix-wrong', 'As differs from T^-1(fx - fy gy^-1 gx)'))
    if As.shape != (nzn, nzn):
        bad.append(('zeroT-reorder-wrong', 'As is %s for %d non-zero time constants' % (As.shape, nzn)))
        return bad
    if nzn == 0:
        return bad
    mus = np.linalg.eigvals(As)
    w = pencil_ok(c, mus)
    # LAPACK's eigenvalues of a badly row-scaled As (a time constant of 1e-9 next to ones of order one) carry an absolute
    # error of about eps * |As|, i.e. eps / Tmin: the residual tolerance grows with it (the exact-arithmetic correspondence
    # of the state matrix itself is not affected)
    tmin = min([abs(t) for t in c['Tf'] if t != 0] or [1.0])
    ptol = 1e-7 * max(1.0, 1e-7 / tmin)
    if w > ptol:
        if len(z) == 0:
            bad.append(('modes-not-pencil', 'an eigenvalue of As is not a generalised eigenvalue (rel. smin %.2e)' % w))
        else:
            # which mechanism?  undo the second division by T
            nT = Tf[Tf != 0]
            w2 = pencil_ok(c, np.linalg.eigvals(As * nT[:, None])) if tail else 1.0
            if tail and w2 <= 1e-7:
                bad.append(('zeroT-double-division', 'zero-T states already last: eigenvalues of As are wrong, those of '
                            'diag(T) As are the generalised eigenvalues (second division by T); rel. smin %.2e' % w))
            else:
                bad.append(('zeroT-reorder-wrong', 'Tf zeros at %s: eigenvalues of the reported As are not generalised '
                            'eigenvalues of the DAE pencil (rel. smin %.2e)' % (list(z), w)))
    return bad


def check_as(ctx, real, cases):
    outs = ctx.driver.ask([as_line(c) for c in cases])
    for c, mo in zip(cases, outs):
        out = real.calc_as(c)
        n, m = c['n'], c['m']
        nzero = sum(1 for t in c['Tf'] if t == 0)
        ctx.case(json.dumps(c, sort_keys=True) if n >= 2 else None, {'case': c, 'model': mo[:200]})
        ctx.count('as:n=%d' % n)
        ctx.count('as:m=%d' % m)
        ctx.count('as:zeroT=%d' % nzero)
        parts = mo.split(' ')
        if parts[0] == 'err':
            ctx.count('as:model-' + parts[1])
            if parts[1] == 'singular2':
                ctx.count('as:skipped-singular-second-block')   # real result is solver garbage
            elif out.get('err') != parts[1]:
                ctx.disagree('calc_As-error', c, out.get('err', 'ok'), parts[1])
        elif parts[0] != 'ok':
            ctx.disagree('calc_As-protocol', c, 'n/a', mo[:100])
        else:
            ctx.count('as:model-ok')
            if 'err' in out:
                ctx.disagree('calc_As-error', c, out['err'], 'ok')
            else:
                dim = int(parts[1])
                names = [] if parts[2] == '-' else [int(x) for x in parts[2].split(',')]
                Am = np.array([float(x) for x in fracs(parts[3])]).reshape(dim, dim) if dim else np.zeros((0, 0))
                if parts[4] != '1':
                    ctx.disagree('solver-contract', c, 'n/a', 'gaussSolve contract check failed')
                cond = np.linalg.cond(np.reshape(c['gy'], (m, m)))
                if 'blk' in out and out['blk'].size:
                    cond = max(cond, np.linalg.cond(out['blk']))
                if not np.all(np.isfinite(out['As'])):
                    ctx.disagree('calc_As-values', c, 'non-finite entries', 'finite')
                elif out['As'].shape != (dim, dim):
                    ctx.disagree('calc_As-dim', c, str(out['As'].shape), str(dim))
                elif out['names'] != names:
                    ctx.disagree('calc_As-names', c, str(out['names']), str(names))
                elif cond > 1e6:
                    ctx.count('as:skipped-illcond')
                elif dim and np.abs(out['As'] - Am).max() > 1e-9 * (1 + np.abs(Am).max()) * max(1.0, cond):
                    ctx.disagree('calc_As-values', c, out['As'].ravel().tolist(), Am.ravel().tolist())
                if parts[5] != '-' and out.get('Asc') is not None:
                    Ac = np.array([float(x) for x in fracs(parts[5])]).reshape(n, n)
                    if np.abs(out['Asc'] - Ac).max() > 1e-9 * (1 + np.abs(Ac).max()) * max(1.0, np.linalg.cond(np.reshape(c['gy'], (m, m)))):
                        ctx.disagree('calc_As-Asc', c, out['Asc'].ravel().tolist(), Ac.ravel().tolist())
        for key, what in oracle_as(c, out):
            _fail(ctx, key, what, c)


# ------------------------------------------------------------------ _store_stats

def gen_st(rng):
    tol = rng.choice([1e-6, 1e-6, 1e-6, 0.0, 1e-3, 0.5, 1e-9])
    k = rng.choice([1, 2, 3, 5, 8, 13])
    re = []
    for _ in range(k):
        r = rng.random()
        if r < 0.25:
            re.append(rng.choice([0.0, tol, -tol, tol / 2, -tol / 2, np.nextafter(tol, 1), np.nextafter(-tol, -1),
                                  np.nextafter(tol, 0), np.nextafter(-tol, 0)]))
        elif r < 0.4:
            re.append(rng.choice([-1, 1]) * 10.0 ** rng.randint(-9, -3))
        else:
            re.append(round(rng.uniform(-5, 1), rng.choice([0, 2, 6])))
    im = [rng.choice([0.0, round(rng.uniform(-10, 10), 3)]) for _ in range(k)]
    return {'kind': 'st', 'tol': tol, 're': [float(x) + 0.0 for x in re], 'im': im}


def real_stats(real, c):
    e = real.eig
    old = e.config.tol
    e.config.tol = c['tol']
    e.mu = np.array(c['re']) + 1j * np.array(c['im'])
    e._store_stats()
    e.config.tol = old
    return int(e.n_positive), int(e.n_zeros), int(e.n_negative)


def oracle_st(c, got):
    if sum(got) != len(c['re']):
        return [('counts-overlap', 'n_positive + n_zeros + n_negative = %d + %d + %d for %d eigenvalues (tol=%g)'
                 % (got + (len(c['re']), c['tol'])))]
    return []


def check_st(ctx, real, cases, vneg):
    outs = ctx.driver.ask(['eigst %s %s %s' % (vneg, C.f2h(c['tol']), H(c['re'])) for c in cases])
    for c, mo in zip(cases, outs):
        got = real_stats(real, c)
        near = any(abs(r) <= c['tol'] for r in c['re'])
        ctx.case(json.dumps(c, sort_keys=True) if len(c['re']) >= 2 else None, {'case': c, 'impl': got})
        ctx.count('st:near-zero' if near else 'st:all-away')
        if '%d %d %d' % got != mo:
            ctx.disagree('_store_stats', c, '%d %d %d' % got, mo)
        for key, what in oracle_st(c, got):
            _fail(ctx, key, what, c)


# ------------------------------------------------------------------ calc_pfactor + report

def gen_pf(rng):
    n = rng.choice([1, 2, 2, 3, 3, 4, 5, 6, 8])
    A = [dy(rng) if rng.random() < 0.8 else 0.0 for _ in range(n * n)]
    return {'kind': 'pf', 'n': n, 'As': A}


def real_pf(real, c):
    n = c['n']
    A = np.reshape(np.array(c['As'], float), (n, n))
    cap = {}
    e = real.eig
    try:
        mu, pf, N, W = e.calc_pfactor(A.copy())
    except Exception as ex:   # noqa
        return {'err': type(ex).__name__}
    if not np.all(np.isfinite(pf)) or np.linalg.cond(N) > 1e8:
        return {'err': 'illcond'}
    # the selection of EIG.report, on the real object, with the file writer captured
    E = real.E
    old_dump, old_no = E.dump_data, real.ss.files.no_output
    E.dump_data = lambda text, header, rowname, data, path: cap.update(data=data)
    e.mu, e.pfactors, e.N, e.W = mu, pf, N, W
    try:
        e.report(x_name=['x%d' % i for i in range(n)])
    finally:
        E.dump_data = old_dump
    assoc = [int(str(s)[1:]) for s in cap['data'][3][0]]
    return {'A': A, 'mu': mu, 'pf': np.array(pf), 'N': N, 'W': W, 'assoc': assoc}


def oracle_pf(c, r):
    n = c['n']
    bad = []
    A, mu, N, pf = r['A'], r['mu'], r['N'], r['pf']
    if np.abs(A @ N - N * mu[None, :]).max() > 1e-8 * (1 + np.abs(A).max()) * np.linalg.cond(N):
        bad.append(('eig-residual', 'As N != N diag(mu)'))
    Wt = np.linalg.inv(N).T
    P = (np.abs(Wt) * np.abs(N)).T          # [mode, state]
    P = P / P.sum(axis=1)[:, None]
    if pf.min() < 0:
        bad.append(('pfactor-negative', 'negative participation factor'))
    rs = pf.sum(axis=1)
    wrong_rows = np.abs(rs - 1).max() > n * 5e-6 + 1e-9
    wrong_name = any(P[k, r['assoc'][k]] < P[k].max() - 2e-5 for k in range(n))
    if wrong_rows or wrong_name:
        bad.append(('pfactor-normalised-by-wrong-mode',
                    'participation rows sum to %s%s' % (np.round(rs, 4).tolist()[:6],
                                                       '; most associated state of a mode is not its largest participant' if wrong_name else '')))
    return bad


def check_pf(ctx, real, cases, vpf):
    res = [real_pf(real, c) for c in cases]
    lines, idx = [], []
    for i, (c, r) in enumerate(zip(cases, res)):
        ctx.case(json.dumps(c, sort_keys=True) if c['n'] >= 2 and 'err' not in r else None, {'case': c})
        ctx.count('pf:n=%d' % c['n'])
        if 'err' in r:
            ctx.count('pf:skipped-' + r['err'])
            continue
        ctx.count('pf:complex-modes' if np.abs(r['mu'].imag).max() > 0 else 'pf:real-modes')
        lines.append('eigpf %s %d %s %s' % (vpf, c['n'], H(np.abs(r['W'])), H(np.abs(r['N']))))
        for k in range(c['n']):
            lines.append('eigam %s' % H(r['pf'][k]))
        idx.append(i)
    outs = ctx.driver.ask(lines)
    p = 0
    for i in idx:
        c, r = cases[i], res[i]
        n = c['n']
        Pm = np.array([float(x) for x in fracs(outs[p].split(' ')[0])]).reshape(n, n)
        if np.abs(Pm - r['pf']).max() > 0.5e-5 + 1e-9:
            ctx.disagree('calc_pfactor', c, r['pf'].ravel().tolist(), Pm.ravel().tolist())
        am = [int(x) for x in outs[p + 1:p + 1 + n]]
        if am != r['assoc']:
            ctx.disagree('most-associated', c, r['assoc'], am)
        p += 1 + n
        for key, what in oracle_pf(c, r):
            _fail(ctx, key, what, c)


# ------------------------------------------------------------------ stock cases: EIG.run and EIG.sweep on the real system

def dense_sp(M):
    from kvxopt import matrix
    return np.array(matrix(M), dtype=float)


def stock(ctx, case, vneg, vpf, sweep=True, test_init=1):
    import andes
    ss = andes.load(andes.get_case(case), no_output=True, default_config=True)
    ss.PFlow.run()
    # (with test_init = 0 the initialisation test, which happens to evaluate the Jacobians, is skipped: the routine
    # has to linearise at the initial point by itself)
    ss.TDS.config.test_init = test_init
    e = ss.EIG
    c = {'kind': 'stock', 'case': case, 'test_init': test_init}
    try:
        ok = e.run()
    except Exception as ex:   # noqa
        _fail(ctx, 'eig-run-raises', 'EIG.run raised %s on %s' % (type(ex).__name__, case), c)
        return
    ctx.case('stock:%s:%d' % (case, test_init), {'case': case, 'n': int(ss.dae.n), 'm': int(ss.dae.m), 'ok': bool(ok), 'test_init': test_init})
    d = ss.dae
    n, m = d.n, d.m
    As_reported = np.array(e.As, dtype=float)
    # the reference uses Jacobians evaluated HERE at the current operating point, not whatever the routine left in dae
    ss.TDS.fg_update(ss.exist.pflow_tds)
    ss.j_update(ss.exist.pflow_tds)
    cc = {'n': n, 'm': m, 'fx': dense_sp(d.fx).ravel(), 'fy': dense_sp(d.fy).ravel(), 'gx': dense_sp(d.gx).ravel(),
          'gy': dense_sp(d.gy).ravel(), 'Tf': np.array(d.Tf, float)}
    out = {'As': As_reported, 'names': []}
    ctx.count('stock:zeroT=%d' % int((d.Tf == 0).sum()))
    for key, what in oracle_as(cc, out):
        _fail(ctx, key, '%s: %s' % (case, what), c)
    mu = np.array(e.mu).ravel()
    got = (int(e.n_positive), int(e.n_zeros), int(e.n_negative))
    st = {'tol': e.config.tol, 're': mu.real.tolist(), 'im': mu.imag.tolist()}
    mo = ctx.driver.ask(['eigst %s %s %s' % (vneg, C.f2h(st['tol']), H(st['re']))])[0]
    if '%d %d %d' % got != mo:
        ctx.disagree('_store_stats', c, '%d %d %d' % got, mo)
    for key, what in oracle_st(st, got):
        _fail(ctx, key, '%s: %s' % (case, what), c)
    pf = np.array(e.pfactors)
    k = len(mu)
    N, W = np.array(e.N), np.array(e.W)
    mo = ctx.driver.ask(['eigpf %s %d %s %s' % (vpf, k, H(np.abs(W)), H(np.abs(N)))])[0]
    Pm = np.array([float(x) for x in fracs(mo.split(' ')[0])]).reshape(k, k)
    if np.abs(Pm - pf).max() > 0.5e-5 + 1e-9:
        ctx.disagree('calc_pfactor', c, 'max diff %g' % np.abs(Pm - pf).max(), 'stock')
    assoc = [int(np.argmax(pf[i])) for i in range(k)]
    r = {'A': np.array(e.As, dtype=float), 'mu': mu, 'N': N, 'pf': pf, 'assoc': assoc}
    for key, what in oracle_pf({'n': k}, r):
        _fail(ctx, key, '%s: %s' % (case, what), c)
    rerun_after_alter(ctx, ss, case)
    if sweep:
        sweep_check(ctx, ss, case)


def rerun_after_alter(ctx, ss, case):
    """EIG.run, alter a time constant through the public alter(), EIG.run again on the same System: the second
    state matrix is T^-1 (fx - fy gy^-1 gx) with the CURRENT time constants"""
    if not (hasattr(ss, 'GENROU') and ss.GENROU.n and ss.TDS.initialized):
        return
    e, d = ss.EIG, ss.dae
    c = {'kind': 'rerun-after-alter', 'case': case}
    a = int(ss.GENROU.omega.a[0])
    m0 = float(ss.GENROU.M.v[0])
    ss.GENROU.alter('M', ss.GENROU.idx.v[0], float(ss.GENROU.M.vin[0]) * 0.25)
    try:
        e.run()
    except Exception as ex:   # noqa
        _fail(ctx, 'eig-run-raises', 'second EIG.run raised %s on %s' % (type(ex).__name__, case), c)
        return
    finally:
        pass
    ctx.case('rerun:' + case, {'case': case, 'M_before': m0, 'M_after': float(ss.GENROU.M.v[0]), 'Tf': float(d.Tf[a])})
    ctx.count('rerun_after_alter')
    if float(d.Tf[a]) != float(ss.GENROU.M.v[0]):
        ctx.count('rerun:Tf-not-updated')     # C11's subject; the oracle below uses dae.Tf as it is
    cc = {'n': d.n, 'm': d.m, 'fx': dense_sp(d.fx).ravel(), 'fy': dense_sp(d.fy).ravel(), 'gx': dense_sp(d.gx).ravel(),
          'gy': dense_sp(d.gy).ravel(), 'Tf': np.array(d.Tf, float)}
    for key, what in oracle_as(cc, {'As': np.array(e.As, dtype=float), 'names': []}):
        _fail(ctx, key, '%s, second run after alter(M): %s' % (case, what), c)
    ss.GENROU.alter('M', ss.GENROU.idx.v[0], float(ss.GENROU.M.vin[0]) * 4.0)


def sweep_check(ctx, ss, case):
    """EIG.sweep over the inertia of the first GENROU on the real system (initialised or not)"""
    if not (hasattr(ss, 'GENROU') and ss.GENROU.n):
        return
    e = ss.EIG
    c = {'kind': 'sweep', 'case': case, 'initialised': bool(ss.TDS.initialized)}
    vals = [2.0, 4.0, 8.0]
    used = []
    init0 = bool(ss.TDS.initialized)
    # before TDS.init the states have no addresses and dae.Tf does not exist (the model ignores the value then)
    tf0 = float(ss.dae.Tf[int(ss.GENROU.omega.a[0])]) if init0 else 0.0
    orig = e.calc_As

    def wrap(*aa, **kk):
        used.append(float(ss.dae.Tf[int(ss.GENROU.omega.a[0])]))
        return orig(*aa, **kk)
    e.calc_As = wrap
    try:
        res = e.sweep(ss.GENROU.M, ss.GENROU.idx.v[0], vals)
    finally:
        del e.calc_As
    ctx.case('sweep:%s:%d' % (case, init0), {'case': case, 'values': vals, 'Tf_used': used, 'initialised': init0})
    ctx.count('sweep:initialised=%d' % init0)
    # the model is told whether TDS was initialised and which Tf was stored; it predicts the Tf of every round
    mo = ctx.driver.ask(['eigsw %d %s %s' % (int(init0), C.f2h(tf0), H(vals))])[0]
    if sweep_variant() == 's':
        mo = ','.join(str(Fraction(v)) for v in vals)      # a sweep that refreshes dae.Tf: the identity specification
        ctx.count('sweep:source-refreshes-Tf')
    if fracs(mo) != [Fraction(x) for x in used]:
        ctx.disagree('sweep-Tf', c, used, mo)
    if used != vals:
        same = all(np.allclose(np.sort_complex(res[0]['mu']), np.sort_complex(res[i]['mu'])) for i in res)
        _fail(ctx, 'sweep-stale-time-constants',
                        '%s: EIG.sweep over GENROU.M=%s used dae.Tf=%s at the rotor-speed state%s'
                        % (case, vals, used, ' and returned identical eigenvalues for every value' if same else ''), c)


# ------------------------------------------------------------------ entry points

def corpus_cases():
    out = []
    for f in sorted(glob.glob(os.path.join(CORPUS, '*.json'))):
        out.append(json.load(open(f)))
    return out


def run_cases(ctx, real, cases, vneg, vpf):
    check_as(ctx, real, [c for c in cases if c['kind'] == 'as'])
    check_st(ctx, real, [c for c in cases if c['kind'] == 'st'], vneg)
    check_pf(ctx, real, [c for c in cases if c['kind'] == 'pf'], vpf)


def run(ctx):
    import andes
    andes.config_logger(stream_level=50)
    vneg, vpf = source_variants()
    ctx.cov['source_variant'] = {'_store_stats.n_negative': 'pinned (< +tol)' if vneg == 'c' else 'fixed (< -tol)',
                                 'calc_pfactor.normalise': 'pinned (column)' if vpf == 'c' else 'fixed (row)'}
    stock(ctx, STOCK, vneg, vpf)
    stock(ctx, STOCK, vneg, vpf, sweep=False, test_init=0)
    fresh = andes.load(andes.get_case(STOCK), no_output=True, default_config=True)
    fresh.PFlow.run()
    sweep_check(ctx, fresh, STOCK)     # TDS not yet initialised: the first value is analysed, the others are not
    if ctx.thorough:
        stock(ctx, 'ieee14/ieee14_full.xlsx', vneg, vpf, sweep=False)
        stock(ctx, 'kundur/kundur_sexs.xlsx', vneg, vpf)
    real = Real()
    cs = corpus_cases()
    ctx.count('corpus', len(cs))
    run_cases(ctx, real, cs, vneg, vpf)
    rng = ctx.rng
    cases = [gen_as(rng) for _ in range(ctx.n(160, 1600))]
    cases += [gen_st(rng) for _ in range(ctx.n(300, 3000))]
    cases += [gen_pf(rng) for _ in range(ctx.n(60, 600))]
    run_cases(ctx, real, cases, vneg, vpf)
    ctx.traces = ctx.evaluations
    ctx.cov['source_hashes'] = {k: C.hash_source(eig_py(), 'EIG.' + k) for k in
                                ('calc_As', '_reduce', '_reorder', 'find_zero_states', '_store_stats', 'calc_pfactor',
                                 'report', 'sweep')}


def search(ctx):
    import random
    rng = random.Random(ctx.seed * 7919 + 8)
    real = Real()
    vneg, vpf = source_variants()
    cases = [d['case'] for d in ctx.disagreements[:40] if isinstance(d['case'], dict) and d['case'].get('kind') in ('as', 'st', 'pf')]
    cases += [gen_as(rng) for _ in range(ctx.n(400, 2000))] + [gen_st(rng) for _ in range(ctx.n(400, 2000))] \
        + [gen_pf(rng) for _ in range(ctx.n(100, 500))]
    for c in cases:
        for key, what in oracle_case(real, c):
            _fail(ctx, key, what, c)


def oracle_case(real, c):
    if c['kind'] == 'as':
        return oracle_as(c, real.calc_as(c))
    if c['kind'] == 'st':
        return oracle_st(c, real_stats(real, c))
    if c['kind'] == 'pf':
        r = real_pf(real, c)
        return [] if 'err' in r else oracle_pf(c, r)
    return []


def replay(ctx, rep):
    import andes
    andes.config_logger(stream_level=50)
    c = rep.get('case', rep)       # a corpus file is accepted as well
    if c.get('kind') in ('stock', 'sweep'):
        vneg, vpf = source_variants()
        stock(ctx, c['case'], vneg, vpf)
        fresh = andes.load(andes.get_case(c['case']), no_output=True, default_config=True)
        fresh.PFlow.run()
        sweep_check(ctx, fresh, c['case'])
        bad = [(f['key'], f['what']) for f in ctx.oracle_failures + ctx.known_hits]
        if rep.get('key'):
            bad = [b for b in bad if b[0] == rep['key']] or bad
    else:
        bad = oracle_case(Real(), c)
    for key, what in bad:
        print('  ', key, what)
    return not bad
