"""Drive the REAL `TDS.run()` (store, do_switch, calc_h, resume, event call-backs) with the integrator
verdicts scripted from a PRNG: `tds.itm_step` is replaced on the instance by a stub that behaves like
`ImplicitIter.step` as far as the loop can see (sets niter / converged / busted, returns the flag).
No change to /repo is needed.  Used by C06, C14, C15, C17, C04."""
import io
import contextlib
import json
import os
import random

from harness.common import f2h

CASES = ['5bus/pjm5bus.xlsx', 'ieee14/ieee14_full.xlsx']


def gen_scenario(rng, allow_findings=True, max_events=7, profile=None):
    """one structured, mostly-valid scenario (plain JSON-able dict)"""
    sc = {}
    sc['case'] = 0 if rng.random() < 0.85 else 1
    sc['sysfreq'] = rng.choice([60, 60, 50, 20])
    sc['t0'] = 0.0 if rng.random() < 0.9 else rng.choice([0.5, 1.0])
    tf = rng.choice([0.05, 0.1, 0.3, 0.5, 1.0, 1.0, 2.0, 2.5, 12.0]) if rng.random() < 0.7 \
        else round(rng.uniform(0.02, 3.0), rng.choice([2, 3, 5]))
    sc['tstep'] = rng.choice([1 / 30, 1 / 30, 1 / 120, 0.01, 0.1, 0.0333, 0.5, 1 / 60, 0.004])
    if rng.random() < 0.04:
        sc['tstep'] = rng.choice([0.0, -1.0])
    elif rng.random() < 0.05:
        # a fixed step below the floor the routine estimates for itself (deltatmin = min(period / 500, span / 2000)):
        # valid input (the routine only warns); a few thousand scripted steps
        sc['tstep'] = rng.choice([2.5e-5, 2e-5, 1.25e-5])
        tf = rng.choice([0.06, 0.08])          # span / 2000 > tstep
    sc['fixt'] = 1 if rng.random() < 0.6 else 0
    sc['shrinkt'] = 1 if rng.random() < 0.9 else 0
    # segments (resume): strictly useful splits plus degenerate ones
    nseg = rng.choice([1, 1, 1, 2, 2, 3])
    # events
    ev = []
    k = rng.choice([0, 1, 1, 2, 2, 3, 4, max_events])
    for _ in range(k):
        r = rng.random()
        if r < 0.45:
            t = round(rng.uniform(0.0, tf), rng.choice([1, 2, 3, 4, 6]))
        elif r < 0.55:
            t = rng.choice([1e-4, 2e-4, 1e-3, 0.003, 0.01, 0.0123])
        elif r < 0.62:
            t = tf
        elif r < 0.68 and ev:
            t = ev[rng.randrange(len(ev))]['t'] + rng.choice([0.0, 1e-4, -1e-4, 2e-4, 5e-5])
        elif r < 0.74:
            t = rng.choice([10.0, 10.5, 11.0001, 11.9999]) if tf > 10 else tf / 3
        elif r < 0.80:
            t = tf + rng.choice([1e-4, 0.5, 100.0])
        elif r < 0.85:
            t = rng.choice([-1.0, -0.5, -1e-4])
        elif r < 0.90 and allow_findings:
            t = 0.0
        else:
            t = rng.choice([k / 30 for k in range(1, 30)]) * (tf if tf < 1 else 1)
        ev.append({'t': float(t), 'u': 0 if rng.random() < 0.12 else 1, 'line': rng.randrange(5)})
    sc['events'] = ev
    tfs = []
    if nseg == 1:
        tfs = [tf]
    else:
        cuts = set()
        for _ in range(nseg - 1):
            r = rng.random()
            if r < 0.4 and ev:
                e = ev[rng.randrange(len(ev))]['t']
                cuts.add(e + rng.choice([0.0, -1e-4, 1e-4, -5e-5, 5e-5, -1e-3, 1e-3]))
            elif r < 0.5:
                cuts.add(tf)     # "extend" to the same end time
            else:
                cuts.add(round(rng.uniform(0.0, tf), rng.choice([2, 3, 5])))
        tfs = sorted(c for c in cuts if c > 0) + [tf]
        if rng.random() < 0.1:
            tfs.append(tfs[0])   # an end time in the past
    sc['tfs'] = [float(x) for x in tfs]
    if sc['t0'] >= min(sc['tfs']):
        sc['t0'] = 0.0
    # verdict script parameters
    sc['vmode'] = rng.choice(['accept', 'accept', 'mixed', 'mixed', 'bursts', 'firstfail', 'nan', 'crit'])
    if not allow_findings and sc['vmode'] == 'firstfail':
        sc['vmode'] = 'mixed'
    sc['vseed'] = rng.randrange(1 << 30)
    sc['save_every'] = 1
    # `refresh_event = 1` re-collects the switch times at every accepted step; with unchanged timers this must
    # be observationally identical to the default
    sc['refresh_event'] = 1 if rng.random() < 0.25 else 0
    # a custom event flag raised during some steps (as a perturbation file would do), and check_conn on/off
    sc['custom_rate'] = rng.choice([0.0, 0.0, 0.05, 0.2])
    sc['check_conn'] = 1 if rng.random() < 0.8 else 0
    if profile:
        sc.update(profile)
    return sc


class Script:
    """lazily generated verdict sequence (deterministic from vseed)"""

    def __init__(self, mode, vseed):
        self.rng = random.Random(vseed)
        self.mode = mode
        self.k = 0
        self.burst = 0
        self.log = []
        self.custom_rate = 0.0
        self.last_custom = False

    BUDGET = 2500

    def next(self, allow_custom=True):
        r = self.rng
        mode = self.mode
        if self.k >= self.BUDGET:
            # keep runs short: from here on every step converges quickly (the step size grows again)
            self.k += 1
            self.log.append('c3')
            self.last_custom = False
            return True, 3, False, False
        conv, nan, crit = True, False, False
        niter = r.choice([1, 2, 3, 5, 6, 7, 9, 14, 15, 16, 20]) if r.random() < 0.8 else r.randrange(0, 25)
        if mode == 'accept':
            pass
        elif mode == 'mixed':
            conv = r.random() > 0.08
        elif mode == 'bursts':
            if self.burst > 0:
                self.burst -= 1
                conv = False
            elif r.random() < 0.1:
                self.burst = r.choice([1, 2, 5, 30, 80])
                conv = False
        elif mode == 'firstfail':
            conv = not (self.k == 0 or r.random() < 0.1)
        elif mode == 'nan':
            conv = r.random() > 0.1
            nan = (not conv) and r.random() < 0.3
        elif mode == 'crit':
            crit = r.random() < 0.03
        self.k += 1
        custom = False
        if self.custom_rate and not crit and not nan and r.random() < self.custom_rate and allow_custom:
            # (a custom event raised exactly at a scheduled event time would run that event's action twice;
            # the generator keeps the two kinds of events apart)
            custom = True
        code = ('x' if crit else ('e' if custom else 'c')) if conv else ('n' if nan else ('g' if custom else 'f'))
        self.log.append('%s%d' % (code, niter))
        self.last_custom = custom
        return conv, niter, nan, crit


_sys_cache = {}


def build_system(sc):
    import andes
    ss = andes.load(andes.get_case(CASES[sc['case']]), setup=False, no_output=True, default_config=True)
    # neutralise the stock events of the case, then add ours
    for mdl in (ss.Toggle, ss.Fault, ss.Alter):
        for name, tp in mdl.timer_params.items():
            for i in range(len(tp.v)):
                tp.v[i] = -1.0
    lines = ss.Line.idx.v
    for e in sc['events']:
        ss.add('Toggle', dict(model='Line', dev=lines[e['line'] % len(lines)], t=e['t'], u=e['u']))
    ss.setup()
    ss.config.freq = sc['sysfreq']
    ss.PFlow.run()
    return ss


def run_scenario(sc):
    """run the real TDS loop on the scenario; returns observations (all JSON-able)"""
    import numpy as np
    ss = build_system(sc)
    tds = ss.TDS
    dae = ss.dae
    cfg = tds.config
    cfg.no_tqdm = 1
    cfg.t0 = sc['t0']
    cfg.tstep = sc['tstep']
    cfg.fixt = sc['fixt']
    cfg.shrinkt = sc['shrinkt']
    cfg.save_every = sc.get('save_every', 1)
    cfg.criteria = 1
    cfg.refresh_event = sc.get('refresh_event', 0)
    if 'limit_store' in sc:
        cfg.limit_store = sc['limit_store']
        cfg.max_store = sc['max_store']
    script = Script(sc['vmode'], sc['vseed'])
    script.custom_rate = sc.get('custom_rate', 0.0)
    cfg.check_conn = sc.get('check_conn', 1)
    obs = {'segs': [], 'events': [], 'calls': [], 'ulog': [], 'u0': [float(x) for x in ss.Line.u.v]}
    state = {'crit': False}

    sw_set = set()

    def stub():
        if tds.h == 0:
            return False
        if not sw_set and ss.n_switches:
            sw_set.update(float(x) for x in ss.switch_times)
        conv, niter, nan, crit = script.next(allow_custom=float(dae.t) not in sw_set)
        obs['calls'].append(float(dae.t))
        tds.niter = niter
        tds.converged = conv
        if script.last_custom:
            tds.custom_event = True
        if nan:
            tds.busted = True
        state['crit'] = crit
        tds.last_converged = conv
        return conv

    tds.itm_step = stub
    tds.check_criteria = lambda: not state['crit']

    orig_sa = ss.switch_action

    def sa(models):
        before = list(ss.Line.u.v)
        orig_sa(models)
        after = list(ss.Line.u.v)
        timed = (tds._switch_idx < ss.n_switches and float(dae.t) == float(ss.switch_times[tds._switch_idx])
                 and models is ss.switch_dict.get(ss.switch_times[tds._switch_idx]))
        obs['events'].append({'t': float(dae.t), 'models': sorted(models.keys()), 'custom': not timed,
                              'flipped': [i for i in range(len(before)) if before[i] != after[i]]})
    ss.switch_action = sa
    obs['conn_calls'] = 0
    orig_conn = ss.connectivity

    def conn(*a, **k):
        # `do_switch` re-checks with info=False; the checks made by PFlow / ConnMan use the default
        if k.get('info', True) is False:
            obs['conn_calls'] += 1
        return orig_conn(*a, **k)
    ss.connectivity = conn
    orig_cb = ss.Toggle.t.callback

    def cb(is_time):
        obs['ulog'].append({'t': float(dae.t), 'hit': [int(i) for i in np.where(is_time)[0]]})
        return orig_cb(is_time)
    ss.Toggle.t.callback = cb

    sink = io.StringIO()
    for tf in sc['tfs']:
        cfg.tf = tf
        n0 = len(script.log)
        t_start = float(dae.t)
        with contextlib.redirect_stdout(sink):
            ok = tds.run(no_summary=True)
        if not obs['segs']:
            obs['sw'] = [float(x) for x in ss.switch_times]
            obs['freq_n'] = int(dae.n)
        guard = bool((dae.t - tds.h < cfg.tf) and not tds.busted)
        obs['segs'].append({'used': len(script.log) - n0, 't': float(dae.t), 't_start': t_start, 'h': float(tds.h),
                            'deltat': float(tds.deltat), 'dmin': float(tds.deltatmin),
                            'dmax': float(tds.deltatmax), 'idx': int(tds._switch_idx), 'niter': int(tds.niter),
                            'converged': bool(tds.converged), 'busted': bool(tds.busted),
                            'fixt': bool(cfg.fixt), 'ok': bool(ok), 'kcount': int(dae.kcount),
                            'guard': guard, 'tf': float(tf), 'exit_code': int(ss.exit_code), 'conn': int(obs['conn_calls']),
                            'custom_pending': bool(tds.custom_event),
                            'nstamps': len(dae.ts.t)})
    obs['stamps'] = [float(x) for x in dae.ts.t]
    obs['verdicts'] = list(script.log)
    obs['line_u'] = [float(x) for x in ss.Line.u.v]
    obs['toggles'] = [{'t': float(ss.Toggle.t.v[i]), 'u': float(ss.Toggle.u.v[i]),
                       'dev': ss.Toggle.dev.v[i]} for i in range(ss.Toggle.n)]
    obs['line_idx'] = list(ss.Line.idx.v)
    obs['seg_verdicts'] = None
    return obs


def model_line(sc, obs):
    """the same scenario as one line for the Lean driver"""
    freq_raw = 1.0 if obs['freq_n'] == 0 else 30.0
    segs = []
    pos = 0
    for seg in obs['segs']:
        vs = obs['verdicts'][pos:pos + seg['used']]
        pos += seg['used']
        segs.append('%s:%s' % (f2h(seg['tf']), ','.join(vs) if vs else '-'))
    sw = ','.join(f2h(x) for x in obs['sw']) if obs['sw'] else '-'
    return 'tds %s %s %d %d %s %s %s %s %d' % (f2h(sc['t0']), f2h(sc['tstep']), sc['shrinkt'], sc['fixt'],
                                              f2h(freq_raw), f2h(float(sc['sysfreq'])), sw, ';'.join(segs), sc.get('check_conn', 1))


def impl_line(obs):
    """canonical rendering of the implementation's observations, same format as the driver's output"""
    parts = []
    for s in obs['segs']:
        parts.append(' '.join([str(s['used']), f2h(s['t']), f2h(s['h']), f2h(s['deltat']), f2h(s['dmin']),
                               f2h(s['dmax']), str(s['idx']), str(s['niter']), str(int(s['converged'])),
                               str(int(s['busted'])), str(int(s['fixt'])), str(int(s['ok'])), str(s['kcount']),
                               str(int(s['guard'])), str(s['conn']), str(int(s['custom_pending']))]))
    stamps = ','.join(f2h(x) for x in obs['stamps']) if obs['stamps'] else '-'
    fired = []
    for e in obs['events']:
        if e.get('custom'):
            continue
        fired.append(str(obs['sw'].index(e['t'])) if e['t'] in obs['sw'] else '?')
    parts.append(stamps)
    parts.append(','.join(fired) if fired else '-')
    customs = [e['t'] for e in obs['events'] if e.get('custom')]
    parts.append(','.join(f2h(x) for x in customs) if customs else '-')
    return ' | '.join(parts)


def _worker(sc):
    try:
        import warnings
        import andes
        warnings.simplefilter('ignore')
        andes.config_logger(stream_level=50)
        obs = run_scenario(sc)
        return sc, obs, None
    except Exception as e:   # an exception of the real code is an observation, not a crash of the harness
        import traceback
        return sc, None, traceback.format_exc()[-1500:]


def run_many(scenarios, procs=14):
    import multiprocessing as mp
    if len(scenarios) < 4:
        return [_worker(s) for s in scenarios]
    with mp.get_context('fork').Pool(procs) as pool:
        return pool.map(_worker, scenarios, chunksize=max(1, len(scenarios) // (procs * 8)))


# ------------------------------------------------------------------ property oracle (no model involved)

def oracle_c06(sc, obs):
    """evaluate the statement of C06 on what the real code did; returns a list of (key, what)"""
    bad = []
    st = obs['stamps']
    for a, b in zip(st, st[1:]):
        if not a < b:
            if abs(a - b) <= 1e-12 * max(1.0, abs(a)) and b in obs['sw']:
                # fl(t + (s - t)) landed one ulp above the switch time s; the next step is a tiny negative one
                bad.append(('switch-time-rounding', 'floating-point landing misses a switch time by rounding: '
                            'stamps %r then %r (not increasing; a negative step of %.1e s)' % (a, b, b - a)))
            else:
                bad.append(('stamps-not-increasing', 'stamps not strictly increasing: %r then %r' % (a, b)))
            break
    togs = obs['toggles']
    ours = togs[len(togs) - len(sc['events']):] if sc['events'] else []
    enabled = [g for g in ours if g['u'] == 1]
    for a, b in zip(st, st[1:]):
        for g in enabled:
            if a < g['t'] < b and a >= 0.0 and g['t'] >= 0.0:
                bad.append(('step-crosses-event', 'step %r -> %r crosses the event at %r' % (a, b, g['t'])))
    last = obs['segs'][-1]
    for sg in obs['segs']:
        if sg['ok'] and not (sg['t'] == sg['tf']):
            bad.append(('success-not-at-tf', 'run reported success with t=%r, tf=%r' % (sg['t'], sg['tf'])))
        if sg['ok'] and sg['busted']:
            bad.append(('success-while-busted', 'run reported success while busted'))
    if last['ok'] and st and st[-1] != last['tf']:
        bad.append(('last-stamp-not-tf', 'successful run: last stamp %r, tf %r' % (st[-1], last['tf'])))
    if st and st[0] != 0.0:
        if st[0] < 0 or obs['verdicts'][0][0] in 'fng':
            bad.append(('first-step-rejected-negative-time',
                        'first integration step rejected: time axis starts at %r, no stamp at t0' % st[0]))
        else:
            bad.append(('first-stamp-not-t0', 'first stamp is %r' % st[0]))
    # events: the switch action of every enabled event inside the simulated span runs exactly once,
    # at a step ending exactly at its time, and flips exactly the addressed devices
    horizon = st[-1] if st else None
    nline = len(obs['u0'])
    lines = obs['line_idx']
    u = list(obs['u0'])
    for ev in obs['events']:
        expect = [0] * nline
        for g in enabled:
            if g['t'] == ev['t']:
                expect[lines.index(g['dev'])] ^= 1
        exp_flip = [i for i in range(nline) if expect[i]]
        if sorted(ev['flipped']) != exp_flip:
            bad.append(('wrong-device-effect', 'switch action at %r flipped lines %r, the schedule says %r'
                        % (ev['t'], ev['flipped'], exp_flip)))
        if ev['t'] not in st:
            bad.append(('event-not-at-stamp', 'switch action ran at %r which is not a stored stamp' % ev['t']))
    times_fired = [e['t'] for e in obs['events'] if not e.get('custom')]
    for g in ours:
        n = times_fired.count(g['t'])
        inside = horizon is not None and 0.0 <= g['t'] <= horizon
        if g['u'] == 1 and inside and n != 1:
            if g['t'] == 0.0 and n == 0:
                bad.append(('event-at-t0', 'an event scheduled at t0=0 never fires'))
            else:
                bad.append(('event-not-once', 'enabled event at %r fired %d times (horizon %r)' % (g['t'], n, horizon)))
        if (not inside) and n != 0 and g['u'] == 1:
            bad.append(('event-outside-fired', 'event at %r outside the simulated span fired' % g['t']))
    # every switching (timed or custom) is followed by one connectivity re-check when check_conn is on
    exp_conn = len(set(e['t'] for e in obs['events'])) if sc.get('check_conn', 1) else 0
    if obs['segs'][-1]['conn'] != exp_conn:
        bad.append(('connectivity-not-rechecked', '%d switching instants (timed or custom events) but %d connectivity re-checks (check_conn=%s)'
                    % (exp_conn if sc.get('check_conn', 1) else len(set(e['t'] for e in obs['events'])), obs['segs'][-1]['conn'], sc.get('check_conn', 1))))
    if len(set(times_fired)) != len(times_fired):
        bad.append(('switch-time-twice', 'a switch time was processed twice'))
    # final status = initial status with the enabled events inside the span applied
    exp = [int(x) for x in obs['u0']]
    for g in enabled:
        if g['t'] in times_fired:
            exp[lines.index(g['dev'])] ^= 1
    if [int(x) for x in obs['line_u']] != exp:
        bad.append(('final-status', 'final line status %r, expected %r' % (obs['line_u'], exp)))
    return bad


def tog_line(sc, obs):
    """event-effect model: final line statuses from the processed switch times"""
    togs = obs['toggles']
    lines = obs['line_idx']
    tg = ','.join('%s:%d:%d' % (f2h(g['t']), int(g['u']), lines.index(g['dev'])) for g in togs) or '-'
    fired = ','.join(f2h(e['t']) for e in obs['events'] if not e.get('custom')) or '-'
    u0 = ''.join(str(int(x)) for x in obs['u0'])
    return 'tog %s %s %s' % (tg, fired, u0)
