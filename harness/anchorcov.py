"""Line coverage of the ANCHORED code of a property during the in-process part of a check.

The anchors of a property (properties.jsonl: `where: "andes/system.py:1203-1354, ..."`) name the functions the
hand models / translators are about.  While the correspondence and oracle streams run, sys.monitoring (Python
3.12, each code location reported once and then disabled: negligible overhead) records which lines of those
files execute.  The evidence file then says, per anchored function, how many of its lines the run exercised and
which it never reached - the measure of "generator quality bounds what the correspondence sees".
Forked pool workers and python child processes started by the check (solver streams, CLI runs, fresh-process
snapshots) report through files (/verif/sitecustomize.py starts the recorder in them).
Supporting measurement only: nothing here decides a property."""
import json
import os
import re
import sys

from harness import common as C

TOOL = 3


def anchors_of(pid):
    """{absolute file: [(lo, hi), ...]} from the `where` fields of the property's anchors"""
    out = {}
    for l in open(os.path.join(C.ROOT, 'properties.jsonl')):
        p = json.loads(l)
        if p['id'] != pid:
            continue
        a = p.get('anchors', {})
        cur = None
        for sec in ('state', 'mechanism'):
            for it in a.get(sec, []):
                for part in re.split(r'[,;]\s*', it.get('where', '')):
                    m = re.match(r'\s*((?:[\w./-]+\.py):)?\s*(\d+)(?:-(\d+))?\s*$', part)
                    if not m:
                        continue
                    if m.group(1):
                        cur = os.path.join(C.REPO, m.group(1)[:-1])
                    if cur is None:
                        continue
                    lo = int(m.group(2))
                    hi = int(m.group(3) or lo)
                    out.setdefault(cur, []).append((lo, hi))
    return out


def _make_cb(files, outdir, main_pid):
    """LINE callback: record (file, line) once per location; processes other than `main_pid` (forked pool workers,
    python children started with the same environment) append to a file of their own"""
    mon = sys.monitoring
    state = {'pid': None, 'fh': None}

    def cb(code, line):
        h = files.get(code.co_filename)
        if h is not None:
            me = os.getpid()
            if me == main_pid:
                h.add(line)
            else:
                try:
                    if state['pid'] != me:
                        state['pid'] = me
                        state['fh'] = open(os.path.join(outdir, '%d.txt' % me), 'a')
                    state['fh'].write('%s\t%d\n' % (code.co_filename, line))
                    state['fh'].flush()
                except Exception:     # noqa
                    pass
        return mon.DISABLE
    return cb


def child_start():
    """called from /verif/sitecustomize.py in python child processes of a check (VERIF_ANCHORCOV = property id)"""
    pid = os.environ.get('VERIF_ANCHORCOV')
    outdir = os.environ.get('VERIF_ANCHORCOV_DIR')
    mon = getattr(sys, 'monitoring', None)
    if not pid or not outdir or mon is None or not os.path.isdir(outdir):
        return
    files = {f: set() for f in anchors_of(pid)}
    if not files:
        return
    try:
        mon.use_tool_id(TOOL, 'verif-anchorcov')
    except ValueError:
        return
    mon.register_callback(TOOL, mon.events.LINE, _make_cb(files, outdir, -1))
    mon.set_events(TOOL, mon.events.LINE)


class AnchorCov:
    def __init__(self, pid):
        self.pid = pid
        self.ranges = anchors_of(pid)
        self.hits = {f: set() for f in self.ranges}
        self.on = False
        self.outdir = os.path.join(C.WORK, 'anchorcov', pid)

    def start(self):
        mon = getattr(sys, 'monitoring', None)
        if mon is None or not self.ranges:
            return
        try:
            mon.use_tool_id(TOOL, 'verif-anchorcov')
        except ValueError:
            return
        import shutil
        shutil.rmtree(self.outdir, ignore_errors=True)
        os.makedirs(self.outdir, exist_ok=True)
        os.environ['VERIF_ANCHORCOV'] = self.pid
        os.environ['VERIF_ANCHORCOV_DIR'] = self.outdir
        mon.register_callback(TOOL, mon.events.LINE, _make_cb(self.hits, self.outdir, os.getpid()))
        mon.set_events(TOOL, mon.events.LINE)
        self.on = True

    def stop(self):
        if not self.on:
            return
        mon = sys.monitoring
        mon.set_events(TOOL, 0)
        mon.register_callback(TOOL, mon.events.LINE, None)
        mon.free_tool_id(TOOL)
        os.environ.pop('VERIF_ANCHORCOV', None)
        os.environ.pop('VERIF_ANCHORCOV_DIR', None)
        self.on = False
        # what forked workers and python children saw
        try:
            for fn in os.listdir(self.outdir):
                for l in open(os.path.join(self.outdir, fn)):
                    f, _, ln = l.rstrip('\n').partition('\t')
                    if f in self.hits and ln.isdigit():
                        self.hits[f].add(int(ln))
            import shutil
            shutil.rmtree(self.outdir, ignore_errors=True)
        except Exception:     # noqa
            pass

    def report(self):
        """per anchored function: executable lines, lines hit, lines never reached"""
        funcs = {}
        tot = hit_tot = 0
        for f, rngs in self.ranges.items():
            try:
                src = open(f).read()
                top = compile(src, f, 'exec')
            except Exception:     # noqa
                continue
            stack = [(top, '')]
            while stack:
                co, qual = stack.pop()
                for k in co.co_consts:
                    if hasattr(k, 'co_code'):
                        stack.append((k, (qual + '.' if qual else '') + k.co_name))
                if co is top or co.co_name.startswith('<'):
                    continue
                lines = sorted({l for (_, _, l) in co.co_lines() if l and l != co.co_firstlineno})
                if not lines:
                    continue
                # anchored line numbers are those of the pinned tree; repairs moved code by a few lines
                if not any(lo - 15 <= lines[-1] and lines[0] <= hi + 15 for lo, hi in rngs):
                    continue
                h = [l for l in lines if l in self.hits[f]]
                miss = [l for l in lines if l not in self.hits[f]]
                name = os.path.relpath(f, C.REPO) + ':' + qual
                funcs[name] = {'lines': len(lines), 'hit': len(h), 'missed': miss[:40]}
                tot += len(lines)
                hit_tot += len(h)
        return {'anchored_functions': len(funcs), 'lines': tot, 'hit': hit_tot,
                'never_called': sorted(n for n, d in funcs.items() if d['hit'] == 0),
                'partly_covered': {n: d for n, d in sorted(funcs.items()) if 0 < d['hit'] < d['lines']},
                'note': 'supporting measurement of what the correspondence '
                        'and oracle streams exercised, not a verdict'}


# ---------------------------------------------------------------- source-shape guard

HASHES = os.path.join(C.ROOT, 'harness', 'anchor_hashes.json')


def anchored_functions(pid):
    """[(file, qualified name)] of the functions that overlap the anchored line ranges of the property"""
    out = []
    for f, rngs in anchors_of(pid).items():
        try:
            top = compile(open(f).read(), f, 'exec')
        except Exception:     # noqa
            continue
        stack = [(top, '')]
        while stack:
            co, qual = stack.pop()
            for k in co.co_consts:
                if hasattr(k, 'co_code') and not k.co_name.startswith('<'):
                    stack.append((k, (qual + '.' if qual else '') + k.co_name))
            if co is top:
                continue
            lines = sorted({l for (_, _, l) in co.co_lines() if l})
            if lines and any(lo - 15 <= lines[-1] and lines[0] <= hi + 15 for lo, hi in rngs):
                out.append((f, qual))
    return sorted(set(out))


def anchored_hashes(pid):
    """normalised-AST hash (docstrings and comments do not count) of every anchored function"""
    out = {}
    for f, qual in anchored_functions(pid):
        h = C.hash_source(f, qual)
        if h is not None:
            out[os.path.relpath(f, C.REPO) + ':' + qual] = h
    return out


def write_baseline():
    """`./check --hashes`: record the shapes of the anchored functions of the tree the models were validated against"""
    base = {}
    for l in open(os.path.join(C.ROOT, 'properties.jsonl')):
        pid = json.loads(l)['id']
        base[pid] = anchored_hashes(pid)
    C.write_json(HASHES, base)
    return {k: len(v) for k, v in base.items()}


def changed_functions(pid):
    """anchored functions whose shape differs from the recorded one (a changed shape is NOT a failure: it makes the
    quick tier of the property draw more cases, because the model was validated against another text)"""
    try:
        base = json.load(open(HASHES)).get(pid, {})
    except Exception:     # noqa
        return []
    now = anchored_hashes(pid)
    return sorted(k for k in set(base) | set(now) if base.get(k) != now.get(k))

