"""./check entry point.

  ./check --setup                      build the Lean library, the driver, regenerate all translated models
  ./check Cxx quick|thorough           decide property Cxx on /repo's current working tree
  ./check Cxx --replay <file>          re-run the oracle of Cxx on the input stored in a replay file

Flow of one check: regenerate translated model (if any) -> lake build of the property's modules ->
axiom / forbidden-token audit -> correspondence + property oracle on the real code -> if an obligation
or the correspondence broke, failing-input search -> evidence file, exit status.
Exit 0: property held on everything explored.  Exit 1: a `VIOLATION property=.. replay=..` line was printed.
Exit 2: tool failure / timeout (never a violation)."""
import importlib
import json
import os
import sys
import time
import traceback

from harness import common as C

ALL = ['C%02d' % i for i in range(1, 21)]


def registered():
    m = json.load(open(os.path.join(C.ROOT, 'MANIFEST.json')))
    return [c['property_id'] for c in m.get('checks', [])]


def setup():
    t0 = time.time()
    print('[setup] building Lean library and driver', flush=True)
    ids = registered()
    # regenerate translated modules first so that the library build covers them
    for pid in ids:
        mod = importlib.import_module('harness.' + pid.lower())
        if hasattr(mod, 'generate'):
            ctx = C.Ctx(pid, 'quick', 0)
            print('[setup] generate', pid, flush=True)
            mod.generate(ctx)
    rc, out = C.lake_build(['Andes', 'andes_driver'], timeout=6 * 3600)
    print(out[-4000:])
    if rc != 0:
        print('[setup] lake build failed')
        return 2
    print('[setup] done in %.0f s' % (time.time() - t0))
    return 0


def finish(ctx, mod, lean_info):
    pid = ctx.pid
    replay_dir = os.path.join(C.WORK, 'replays')
    os.makedirs(replay_dir, exist_ok=True)
    violations = 0
    lines = []
    for k in ctx.known_hits:
        lines.append('KNOWN-FINDING: property=%s %s' % (pid, k['what']))
    if ctx.oracle_failures:
        # group by key: one VIOLATION line per distinct finding (at most 5 printed)
        seen = {}
        for f in ctx.oracle_failures:
            seen.setdefault(f['key'], f)
        for i, (key, f) in enumerate(list(seen.items())[:5]):
            path = os.path.join(replay_dir, '%s-%s-%d-%d.json' % (pid, ctx.tier, ctx.seed, i))
            C.write_json(path, {'property': pid, 'kind': 'failing-input', 'key': key, 'what': f['what'],
                                'case': f['case'], 'broken_obligations': ctx.broken[:20],
                                'disagreements': ctx.disagreements[:5]})
            lines.append('VIOLATION property=%s replay=%s' % (pid, path))
            lines.append('  (finding key: %s -- %s)' % (key, str(f['what'])[:300].replace('\n', ' ')))
            violations += 1
    elif ctx.broken or ctx.disagreements:
        path = os.path.join(replay_dir, '%s-%s-%d-unproved.json' % (pid, ctx.tier, ctx.seed))
        C.write_json(path, {'property': pid, 'kind': 'no-failing-input-found',
                            'broken_obligations': ctx.broken[:50],
                            'disagreements': ctx.disagreements[:20],
                            'note': 'a theorem / generated obligation / model-vs-code correspondence no longer checks; '
                                    'the failing-input search on the real code found no input violating the property'})
        lines.append('VIOLATION property=%s replay=%s no-failing-input-found' % (pid, path))
        violations += 1

    obligations = lean_info.get('obligations', 0)
    discharged = lean_info.get('discharged', 0)
    cov = {
        'obligations': obligations,
        'discharged': discharged,
        'checker_cmd': lean_info.get('checker_cmd', ''),
        'trusted_base': C.TRUSTED_BASE + lean_info.get('axioms_seen', []),
        'evaluations': ctx.evaluations,
        'distinct_nontrivial': len(ctx.sigs),
        'rule': getattr(mod, 'RULE', ''),
        'samples': ctx.samples or lean_info.get('theorems', [])[:5],
        'traces_validated_against_impl': ctx.traces,
        'theorems': lean_info.get('theorems', []),
        'broken_obligations': ctx.broken[:50],
        'disagreements': len(ctx.disagreements),
        'known_findings_hit': [k['key'] for k in ctx.known_hits],
        'violation_keys': sorted(set(f['key'] for f in ctx.oracle_failures)),
        'violation_examples': {f['key']: str(f['what'])[:300] for f in ctx.oracle_failures},
        'histogram': ctx.counts,
    }
    cov.update(ctx.cov)
    ev = {'property_id': pid, 'tier': ctx.tier, 'seed': ctx.seed, 'level': 'proof', 'coverage': cov,
          'assumptions': getattr(mod, 'ASSUMPTIONS', []) + ctx.assumptions + ctx.notes,
          'wall_s': round(ctx.elapsed(), 2), 'violations': violations}
    # a development run without the Lean phase (VERIF_SKIP_LEAN=1, never a registered command) must not overwrite the
    # evidence of a registered run
    evdir = C.EVID if os.environ.get('VERIF_SKIP_LEAN') != '1' else os.path.join(C.WORK, 'dev-evidence')
    C.write_json(os.path.join(evdir, pid + '.json'), ev)
    for l in lines:
        print(l, flush=True)
    print('[%s %s seed=%d] obligations %d/%d, cases %d (distinct %d), disagreements %d, known %d, %.0f s'
          % (pid, ctx.tier, ctx.seed, discharged, obligations, ctx.evaluations, len(ctx.sigs),
             len(ctx.disagreements), len(ctx.known_hits), ctx.elapsed()), flush=True)
    return 1 if violations else 0


def lean_phase(ctx, mod):
    """build + audit; fills ctx.broken; returns info for the evidence file"""
    prop_modules = list(getattr(mod, 'PROP_MODULES', []))
    gen_modules = []
    gen_names = []
    if hasattr(mod, 'generate'):
        try:
            g = mod.generate(ctx) or {}
        except Exception as e:     # noqa
            # the translator cannot express what the source now says (a string it does not understand, a shape it
            # does not expect): the model is no longer regenerated from the source, i.e. the tie is broken.  That is
            # a broken obligation, not a tool failure: the failing-input search decides what is reported.
            import traceback
            last = traceback.format_exc().strip().split('\n')[-1]
            ctx.broken.append('translator: the model cannot be regenerated from the current source: ' + last[:300])
            g = {'modules': list(getattr(mod, 'GEN_MODULES', [])), 'theorems': []}
        gen_modules = g.get('modules', [])
        gen_names = g.get('theorems', [])
    targets = prop_modules + gen_modules
    info = {'checker_cmd': 'cd lean && lake build %s && lake env lean Audit/%s.lean  (#print axioms)' %
                           (' '.join(targets), ctx.pid)}
    if ctx.thorough and getattr(mod, 'CLEAN_REBUILD', True):
        # force a re-check of the property modules themselves
        for m in prop_modules:
            for ext in ('olean', 'ilean', 'trace', 'olean.hash', 'ilean.hash'):
                p = os.path.join(C.LEAN, '.lake', 'build', 'lib', 'lean', *m.split('.')) + '.' + ext
                if os.path.exists(p):
                    os.remove(p)
    rc, out = C.lake_build(targets)
    build_ok = rc == 0
    if not build_ok:
        for e in C.failing_decls(out):
            ctx.broken.append('build: ' + e)
        if not ctx.broken:
            ctx.broken.append('build failed: ' + out[-500:])
    # the model driver is one executable for all properties; it links the (regenerated) model of C01 too.
    # If it cannot be rebuilt because ANOTHER property's regenerated module is broken, keep using the
    # existing executable for this property (its own modules were just built above).
    rc_d, out_d = C.lake_build(['andes_driver'])
    if rc_d != 0:
        own = any(m.split('.')[-1] in out_d for m in targets)
        if own or not os.path.exists(C.driver_path()) or getattr(mod, 'DRIVER_USES_GEN', False):
            for e in C.failing_decls(out_d):
                ctx.broken.append('driver build: ' + e)
            if not os.path.exists(C.driver_path()):
                raise RuntimeError('the model driver cannot be built:\n' + out_d[-1500:])
        else:
            ctx.notes.append('model driver not rebuilt (a regenerated module of another property does not compile); '
                             'the existing executable is used')
    files = C.lean_files_of(targets)
    hits = C.forbidden_hits(files)
    for h in hits:
        ctx.broken.append('forbidden token: ' + h)
    names, bad, raw, arc = ([], {}, '', 0)
    if build_ok:
        names, bad, raw, arc = C.audit(ctx.pid, prop_modules, gen_names if len(gen_names) <= 400 else ())
        for n, why in bad.items():
            ctx.broken.append('audit: %s %s' % (n, why))
    n_gen = len(gen_names) if len(gen_names) > 400 else 0
    info['obligations'] = len(names) + n_gen if build_ok else len(C_theorems(prop_modules)) + len(gen_names)
    info['discharged'] = (len(names) - len(bad) + n_gen) if build_ok else 0
    info['theorems'] = names[:200]
    info['axioms_seen'] = []
    if ctx.thorough and build_ok and getattr(mod, 'LEANCHECKER', True):
        with C.LakeLock():
            rc2, out2 = C.sh(['lake', 'env', 'leanchecker'] + prop_modules, cwd=C.LEAN, timeout=3600)
        info['leanchecker'] = 'ok' if rc2 == 0 else out2[-400:]
        if rc2 != 0:
            ctx.broken.append('leanchecker: ' + out2[-300:])
        info['checker_cmd'] += ' && lake env leanchecker ' + ' '.join(prop_modules)
    return info


def C_theorems(mods):
    out = []
    for m in mods:
        p = C.module_path(m)
        if os.path.exists(p):
            out += C.theorems_in(p)
    return out


def main(argv):
    if not argv:
        print(__doc__)
        return 2
    if argv[0] == '--setup':
        return setup()
    if argv[0] == '--hashes':
        from harness import anchorcov
        print(anchorcov.write_baseline())
        return 0
    pid = argv[0]
    if pid not in ALL:
        print('unknown property', pid)
        return 2
    mod = importlib.import_module('harness.' + pid.lower())
    seed = C.seed_from_env()
    if len(argv) >= 3 and argv[1] == '--replay':
        ctx = C.Ctx(pid, 'quick', seed)
        rep = json.load(open(argv[2]))
        ok = mod.replay(ctx, rep)
        print('replay: property %s on the stored input' % ('HOLDS' if ok else 'FAILS'))
        return 0 if ok else 1
    tier = argv[1] if len(argv) > 1 else os.environ.get('VERIF_TIER', 'quick')
    if tier not in ('quick', 'thorough'):
        print('tier must be quick or thorough')
        return 2
    ctx = C.Ctx(pid, tier, seed)
    try:
        from harness import anchorcov
        ch = anchorcov.changed_functions(pid)
        if ch:
            ctx.sample_factor = 3
            ctx.cov['source_guard'] = {'changed_anchored_functions': ch[:40], 'quick_sample_factor': 3}
            print('[%s] %d anchored function(s) differ from the recorded shape (%s ...): the quick tier draws 3x the cases'
                  % (pid, len(ch), ch[0]), flush=True)
        else:
            ctx.cov['source_guard'] = {'changed_anchored_functions': [], 'quick_sample_factor': 1}
    except Exception as e:     # noqa  (a guard, never a reason to fail a check)
        ctx.cov['source_guard'] = {'error': str(e)[:200]}
    try:
        if os.environ.get('VERIF_SKIP_LEAN') == '1':
            # development aid only (never used by a registered command): harness part alone
            info = {'checker_cmd': 'skipped (VERIF_SKIP_LEAN=1)', 'obligations': 0, 'discharged': 0}
        else:
            info = lean_phase(ctx, mod)
        ctx.cov['pycode'] = C.ensure_pycode()
        from harness.anchorcov import AnchorCov
        ac = AnchorCov(pid)
        ac.start()
        try:
            mod.run(ctx)
            if (ctx.broken or ctx.disagreements) and not ctx.oracle_failures and hasattr(mod, 'search'):
                print('[%s] an obligation or the correspondence broke; searching the real code for a failing input'
                      % pid, flush=True)
                mod.search(ctx)
        finally:
            ac.stop()
        try:
            ctx.cov['anchor_coverage'] = ac.report()
        except Exception as e:     # noqa  (a measurement, never a reason to fail a check)
            ctx.cov['anchor_coverage'] = {'error': str(e)[:200]}
        return finish(ctx, mod, info)
    except Exception:
        traceback.print_exc()
        print('[%s] tool failure (exit 2)' % pid)
        return 2


if __name__ == '__main__':
    sys.exit(main(sys.argv[1:]))
