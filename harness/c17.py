"""C17 — failure is reported as failure.

Lean: Andes/Props/C17.lean on Andes/Model/Newton.lean (PFlow.nr_solve, Newton loop of ImplicitIter.step,
exit-code aggregation) and TdsLoop.lean (TDS.run verdicts).
Tie: (a) the REAL PFlow.nr_solve driven with scripted mismatches (nr_step stubbed on the instance);
(b) the REAL ImplicitIter.step driven with scripted increments (solver.solve stubbed) on a real
initialised TDS; (c) the real TDS.run loop with scripted verdicts (as C06, failure-heavy profile);
(d) real infeasible / ill-posed inputs through andes.run(cli=True) in child processes."""
import json
import math
import os
import random
import subprocess
import sys
import tempfile

from harness import common as C
from harness import tds_stub as T
from harness import c06

PROP_MODULES = ['Andes.Props.C17']
RULE = ('nr: mismatch sequences (converging, plateau to the iteration limit, NaN, inf, blow-up); step: increment '
        'sequences (converging, alternating = chatter, NaN, blow-up, limit) on a real initialised TDS; tds: scripted '
        'verdict runs with failure bursts / NaN / criterion; cli: real good, missing, corrupt, non-convergent, '
        'unstable, dangling-reference, static-only-EIG inputs; distinct = distinct script/input; non-trivial = a '
        'failure path is taken')
ASSUMPTIONS = [
    'mismatch / increment values are arbitrary inputs of the loop models (the solvers themselves are C16)',
    'NaN is modelled as none with all comparisons False; theorems over exact rationals',
    'multi-case runs (process pool) are exercised by the cli stream only',
]


def gen_mis(rng, tol, max_iter):
    mode = rng.choice(['conv', 'conv', 'limit', 'nan', 'blow', 'inf', 'slow', 'nan0'])
    out = []
    m = rng.choice([4.6, 1.0, 0.3, 12.0])
    for k in range(max_iter + 5):
        out.append(m)
        if mode in ('conv',):
            m = m * m * rng.uniform(0.05, 0.5) if m < 1 else m * rng.uniform(0.05, 0.5)
        elif mode == 'slow':
            m = m * rng.uniform(0.5, 0.9)
        elif mode == 'limit':
            m = m * rng.uniform(0.9, 1.1)
        elif mode == 'nan':
            m = float('nan') if rng.random() < 0.3 else m * 0.5
        elif mode == 'nan0':
            m = float('nan')
            out[0] = m
        elif mode == 'blow':
            m = m * rng.choice([3.0, 1e5, 1e3])
        elif mode == 'inf':
            m = float('inf') if rng.random() < 0.4 else m * 0.7
        if rng.random() < 0.05:
            m = tol * rng.choice([0.999, 1.0, 1.001])
    return mode, out


def enc(x):
    return 'nan' if isinstance(x, float) and math.isnan(x) else C.f2h(x)


def nr_stream(ctx, n):
    import andes
    ss = andes.load(andes.get_case(T.CASES[0]), no_output=True, default_config=True)
    pf = ss.PFlow
    lines, impl, cases = [], [], []
    for _ in range(n):
        tol = ctx.rng.choice([1e-6, 1e-6, 1e-4, 1e-8])
        max_iter = ctx.rng.choice([25, 25, 10, 3, 0])
        mode, seq = gen_mis(ctx.rng, tol, max_iter)
        pf.config.tol, pf.config.max_iter = tol, max_iter
        pf.init()
        it = iter(seq)
        used = []

        def stub():
            v = next(it)
            used.append(v)
            return v
        pf.nr_step = stub
        conv = pf.nr_solve()
        impl.append('%d %d %s' % (int(bool(conv)), pf.niter, ','.join(enc(float(x)) for x in pf.mis)))
        lines.append('nr %s %d %s' % (C.f2h(tol), max_iter, ','.join(enc(x) for x in used)))
        cases.append({'tol': tol, 'max_iter': max_iter, 'mis': used[:12], 'mode': mode})
        ctx.count('nr:' + mode)
        ctx.count('nr_converged' if conv else 'nr_failed')
        # oracle: success only if the LAST mismatch is a number below tol
        last = used[-1]
        if conv and not (last < tol):
            ctx.oracle_fail('pflow-success-without-residual', 'nr_solve reported convergence with last mismatch %r >= tol %r' % (last, tol), cases[-1])
        if (not conv) and last < tol:
            ctx.oracle_fail('pflow-failure-with-residual', 'nr_solve reported failure although mismatch %r < tol' % last, cases[-1])
        ctx.case(('nr', tuple(enc(x) for x in used), tol, max_iter) if not conv or len(used) > 2 else None, cases[-1])
    outs = ctx.driver.ask(lines)
    for cs, a, b in zip(cases, impl, outs):
        if a != b:
            ctx.disagree('nr_solve', cs, a, b)
    del pf.nr_step


def gen_incs(rng, tol, max_iter, chatter_iter):
    mode = rng.choice(['conv', 'conv', 'chatter', 'nan', 'blow', 'limit', 'conv_late'])
    out = []
    x = rng.choice([0.5, 0.05, 2.0, 1e-3]) * rng.choice([1, -1])
    for k in range(max_iter + 4):
        out.append(x)
        if mode == 'conv':
            x = x * rng.uniform(0.01, 0.3) * rng.choice([1, 1, -1])
        elif mode == 'conv_late':
            x = x * rng.uniform(0.5, 0.8) * rng.choice([1, -1])
        elif mode == 'chatter':
            x = -x if k >= rng.choice([0, 2, 4]) else x * 0.9
        elif mode == 'nan':
            x = float('nan') if rng.random() < 0.25 else x * 0.6
        elif mode == 'blow':
            x = x * rng.choice([50.0, 1e4])
        elif mode == 'limit':
            x = x * rng.uniform(0.95, 1.05) * rng.choice([1, 1, 1, -1])
    return mode, out


def step_stream(ctx, n):
    import numpy as np
    import andes
    ss = andes.load(andes.get_case('kundur/kundur_full.xlsx'), no_output=True, default_config=True)
    ss.PFlow.run()
    tds = ss.TDS
    tds.config.no_tqdm = 1
    tds.init()
    dae = ss.dae
    nxy = dae.n + dae.m
    x_init, y_init, f_init = dae.x.copy(), dae.y.copy(), dae.f.copy()
    lines, impl, cases = [], [], []
    for _ in range(n):
        tol = ctx.rng.choice([1e-4, 1e-4, 1e-6])
        max_iter = ctx.rng.choice([15, 15, 10, 20])
        chatter_iter = ctx.rng.choice([4, 4, 6])
        tds.config.tol, tds.config.max_iter, tds.config.chatter_iter = tol, max_iter, chatter_iter
        tds.tol_zero = tol / 1e6
        chat0 = ctx.rng.random() < 0.05
        mode, seq = gen_incs(ctx.rng, tol, max_iter, chatter_iter)
        dae.x[:], dae.y[:], dae.f[:] = x_init, y_init, f_init
        ss.vars_to_models()
        tds.h = 1 / 30
        tds.busted = False
        tds.chatter = chat0
        tds.converged = False
        it = iter(seq)
        used = []
        pos = ctx.rng.randrange(nxy)

        def solve(A, b):
            v = next(it)
            used.append(v)
            inc = np.zeros(nxy)
            if isinstance(v, float) and math.isnan(v):
                inc[pos] = float('nan')
                return inc
            inc[pos] = v
            # other entries of smaller magnitude, some of them tiny (they get zeroed by reset_tiny)
            for j in range(0, nxy, 7):
                if j != pos:
                    inc[j] = v * 0.3 * ((j % 5) - 2) / 2 if j % 3 else tds.tol_zero * 0.5
            return inc
        tds.solver.solve = solve
        tds.solver.linsolve = solve
        x0, y0, f0 = dae.x.copy(), dae.y.copy(), dae.f.copy()
        ok = tds.method.step(tds)
        q0 = float(tds.mis[0])
        impl.append('%d %d %d %d %d' % (int(bool(ok)), tds.niter, int(tds.busted), int(bool(tds.chatter)), len(used)))
        lines.append('stp %s %d %d %s %d %s' % (C.f2h(tol), max_iter, chatter_iter, C.f2h(q0), int(chat0),
                                              ','.join(enc(v) for v in used)))
        cs = {'tol': tol, 'max_iter': max_iter, 'chatter_iter': chatter_iter, 'incs': used[:10], 'mode': mode}
        cases.append(cs)
        ctx.count('step:' + mode)
        ctx.count('step_accepted' if ok else 'step_rejected')
        last = used[-1]
        isnan = isinstance(last, float) and math.isnan(last)
        # oracle on the real code
        if not ok:
            if not (np.array_equal(dae.x, x0) and np.array_equal(dae.y, y0) and np.array_equal(dae.f, f0)):
                ctx.oracle_fail('rejected-step-not-restored', 'a rejected step did not restore x, y, f exactly', cs)
        if isnan and (ok or not tds.busted):
            ctx.oracle_fail('nan-presented-as-solution', 'NaN increment: converged=%r busted=%r' % (ok, tds.busted), cs)
        if ok and np.isnan(dae.xy).any():
            ctx.oracle_fail('nan-in-accepted-state', 'accepted step leaves NaN in the state', cs)
        if ok and not isnan and abs(last) > tol:
            ctx.oracle_fail('chatter-accepts-unconverged',
                            'ImplicitIter.step accepts a step by its chatter rule although the last Newton increment %.3g exceeds tol %.1e'
                            % (abs(last), tol), cs)
        ctx.case(('stp', tuple(enc(v) for v in used), tol, max_iter, chatter_iter), cs)
    outs = ctx.driver.ask(lines)
    for cs, a, b in zip(cases, impl, outs):
        if a != b:
            ctx.disagree('ImplicitIter.step', cs, a, b)


def oracle_tds(sc, obs):
    """failure reporting of the TDS loop on the real code"""
    bad = []
    for sg in obs['segs']:
        if sg['ok'] and (sg['busted'] or sg['t'] != sg['tf']):
            bad.append(('tds-success-flag-wrong', 'TDS.run returned True with busted=%r t=%r tf=%r' % (sg['busted'], sg['t'], sg['tf'])))
        if (not sg['ok']) and (not sg['busted']) and sg['t'] == sg['tf'] and sg['used'] > 0:
            bad.append(('tds-failure-flag-wrong', 'TDS.run returned False although the run ended at tf without error'))
    prev_exit = 0
    for sg in obs['segs']:
        delta = sg['exit_code'] - prev_exit
        prev_exit = sg['exit_code']
        if sg['ok'] and delta != 0:
            bad.append(('exit-code-on-success', 'exit_code grew by %d on a successful run' % delta))
        if not sg['ok'] and delta < 1:
            bad.append(('exit-code-on-failure', 'exit_code did not grow on a failed run'))
    # a rejected step stores no row: number of stamps == number of accepted verdicts
    acc = sum(1 for v in obs['verdicts'] if v[0] in 'cxe')
    if len(obs['stamps']) != acc and len(set(obs['stamps'])) == len(obs['stamps']) and 'limit_store' not in sc:
        bad.append(('rows-vs-accepted-steps', '%d rows stored for %d accepted steps' % (len(obs['stamps']), acc)))
    if any(v[0] == 'n' for v in obs['verdicts']) and not obs['segs'][-1]['busted']:
        bad.append(('nan-not-busted', 'a NaN verdict did not end the run as busted'))
    return bad


CLI_SCRIPT = r'''
import sys, json, os, warnings
warnings.simplefilter('ignore')
import andes
andes.config_logger(stream_level=50)
spec = json.loads(sys.argv[1])
import io, contextlib
sink = io.StringIO()
with contextlib.redirect_stdout(sink):
    kw = dict(routine=spec['routine'], no_output=True, default_config=True, cli=spec['cli'], ncpu=2)
    kw.update(spec.get('kw', {}))
    ret = andes.run(spec['file'], **kw)
if spec['cli']:
    print(json.dumps({'exit': ret}))
else:
    ss = ret
    if ss is None:
        print(json.dumps({'system': None}))
    elif isinstance(ss, (list, bool)):
        print(json.dumps({'system': 'multi'}))
    else:
        print(json.dumps({'system': True, 'is_setup': bool(ss.is_setup), 'm': int(ss.dae.m), 'n': int(ss.dae.n),
                          'pf': bool(ss.PFlow.converged), 'tds_init': ss.TDS.initialized, 'test_ok': ss.TDS.test_ok,
                          'tds_t': float(ss.dae.t), 'tds_tf': float(ss.TDS.config.tf), 'busted': bool(ss.TDS.busted),
                          'exit_code': int(ss.exit_code), 'nan': bool(__import__('numpy').isnan(ss.dae.xy).any()),
                          'tds_ok': bool((not ss.TDS.busted) and float(ss.dae.t) == float(ss.TDS.config.tf) and ss.TDS.initialized)}))
'''


def cli_job(spec):
    p = subprocess.run([sys.executable, '-c', CLI_SCRIPT, json.dumps(spec)], stdout=subprocess.PIPE,
                       stderr=subprocess.PIPE, text=True, timeout=900)
    if p.returncode != 0:
        return {'error': p.stderr[-500:]}
    try:
        return json.loads(p.stdout.strip().split('\n')[-1])
    except Exception:
        return {'error': 'no json: ' + p.stdout[-300:]}


def make_inputs(tmp):
    """real ill-posed inputs derived from stock cases (written as json case files)"""
    import andes
    from andes.io import json as ajson
    out = []
    good = andes.get_case('kundur/kundur_full.xlsx')
    out.append(('good-tds', good, ['tds'], {'tf': 0.2}, True))
    out.append(('good-eig', good, ['eig'], {}, True))
    out.append(('missing-file', os.path.join(tmp, 'nope.xlsx'), ['tds'], {}, False))
    bad = os.path.join(tmp, 'corrupt.json')
    open(bad, 'w').write('{"Bus": [ {"idx": 1, "name": ')
    out.append(('corrupt-file', bad, [], {}, False))
    # overloaded network: power flow cannot converge
    ss = andes.load(andes.get_case('ieee14/ieee14.json'), setup=False, no_output=True, default_config=True)
    for i in range(len(ss.PQ.p0.v)):
        ss.PQ.p0.v[i] *= 30
        ss.PQ.q0.v[i] *= 30
    ss.setup()
    f = os.path.join(tmp, 'overload.json')
    ajson.write(ss, f)
    out.append(('overloaded-pflow', f, [], {}, False))
    out.append(('overloaded-then-tds', f, ['tds'], {'tf': 0.1}, False))
    # the same infeasible network with the other power-flow methods the routine offers
    out.append(('overloaded-pflow-NK', f, [], {'config_option': ['PFlow.method=NK']}, False))
    out.append(('overloaded-pflow-dishonest', f, [], {'config_option': ['PFlow.method=dishonest']}, False))
    out.append(('overloaded-then-eig', f, ['eig'], {}, False))
    # dangling mandatory reference
    ss = andes.load(andes.get_case('ieee14/ieee14.json'), setup=False, no_output=True, default_config=True)
    ss.add('PQ', dict(bus=9999, p0=0.1, q0=0.05))
    try:
        ss.setup()
    except Exception:
        pass
    f2 = os.path.join(tmp, 'dangling.json')
    try:
        ajson.write(ss, f2)
        out.append(('dangling-reference', f2, [], {}, False))
    except Exception:
        pass
    # static-only case: EIG has nothing to analyse
    out.append(('eig-without-states', andes.get_case('ieee14/ieee14.raw'), ['eig'], {}, False))
    # a failure followed by a routine that succeeds: the failure must survive in the exit code
    out.append(('eig-fails-then-tds-succeeds', andes.get_case('ieee14/ieee14.raw'), ['eig', 'tds'], {'tf': 0.1}, False))
    # inconsistent dynamic data: turbine limit below the dispatched power -> initialisation test fails
    ss = andes.load(andes.get_case('kundur/kundur_full.xlsx'), setup=False, no_output=True, default_config=True)
    for i in range(len(ss.TGOV1.VMAX.v)):
        ss.TGOV1.VMAX.v[i] = 0.1
    ss.setup()
    f4 = os.path.join(tmp, 'badinit.json')
    ajson.write(ss, f4)
    out.append(('failed-initialisation', f4, ['tds'], {'tf': 0.2}, False))
    # ill-posed dynamic data the parser accepts and the power flow solves: a governor with zero droop (1/R = inf,
    # inf * 0 = NaN in its equations): the initialisation yields a NaN residual
    ss = andes.load(andes.get_case('kundur/kundur_full.xlsx'), setup=False, no_output=True, default_config=True)
    ss.TGOV1.R.v[0] = 0.0
    ss.setup()
    f5 = os.path.join(tmp, 'nandroop.json')
    ajson.write(ss, f5)
    out.append(('nan-initialisation-init-only', f5, ['tds'], {'init': True}, False))
    out.append(('nan-initialisation', f5, ['tds'], {'tf': 0.2}, False))
    # unstable disturbance: long fault trips the stability criterion
    ss = andes.load(andes.get_case('kundur/kundur_full.xlsx'), setup=False, no_output=True, default_config=True)
    ss.add('Fault', dict(bus=ss.Bus.idx.v[6], tf=0.1, tc=2.0, xf=1e-4))
    ss.setup()
    f3 = os.path.join(tmp, 'unstable.json')
    ajson.write(ss, f3)
    out.append(('unstable-fault', f3, ['tds'], {'tf': 4.0}, False))
    # the same with the fault as the ONLY event of the case (no line switching)
    # (a stock case whose only event is a fault; its clearing is delayed until the machines have lost synchronism, while
    # the integration itself remains feasible)
    ss = andes.load(andes.get_case('ieee14/ieee14_fault.xlsx'), setup=False, no_output=True, default_config=True)
    for i in range(ss.Toggle.n):
        ss.Toggle.u.v[i] = 0
    for i in range(ss.Fault.n):
        ss.Fault.tc.v[i] = 3.0
    ss.setup()
    f6 = os.path.join(tmp, 'unstable_fault_only.json')
    ajson.write(ss, f6)
    out.append(('unstable-fault-only', f6, ['tds'], {'tf': 4.5}, False))
    return out


def cli_stream(ctx):
    import multiprocessing as mp
    tmp = tempfile.mkdtemp(prefix='c17-', dir=C.WORK)
    inputs = make_inputs(tmp)
    jobs = []
    for name, f, routine, kw, expect_ok in inputs:
        for cli in (True, False):
            jobs.append({'file': f, 'routine': ['pflow'] + routine, 'cli': cli, 'kw': kw, 'name': name})
    # two cases at once, one of them failing (default Process-based multiprocessing)
    multi = {'file': [inputs[0][1], [i for i in inputs if i[0] == 'overloaded-pflow'][0][1]], 'routine': ['pflow'],
             'cli': True, 'kw': {}, 'name': 'two-cases-one-failing'}
    jobs.append(multi)
    with mp.get_context('fork').Pool(8) as pool:
        res = pool.map(cli_job, jobs)
    by = {}
    for j, r in zip(jobs, res):
        by[(j['name'], j['cli'])] = r
    lines, impl, cases = [], [], []
    for name, f, routine, kw, expect_ok in inputs:
        a, b = by[(name, True)], by[(name, False)]
        cs = {'input': name, 'routine': routine}
        ctx.case(('cli', name), cs)
        ctx.count('cli:' + name)
        if 'error' in a or 'error' in b:
            err = str(a.get('error', b.get('error')))
            last = err.strip().split('\n')[-1][:160]
            ctx.count('cli_exception:' + name)
            # an uncaught exception ends the process with a non-zero status: the failure IS reported, unless
            # the input is good, or the exception is an internal crash (TypeError/AttributeError/IndexError...)
            # of a routine that should have refused to run
            internal = any(k in last for k in ('TypeError', 'AttributeError', 'IndexError', 'UnboundLocalError'))
            if expect_ok or internal:
                ctx.oracle_fail('cli-crash:' + name, 'andes.run crashed instead of reporting failure (%s): %s' % (name, last), cs)
            continue
        ex = a['exit']
        if expect_ok and ex != 0:
            ctx.oracle_fail('cli-good-nonzero', 'a good run exits with %d' % ex, cs)
        if (not expect_ok) and ex == 0:
            ctx.oracle_fail('cli-failure-exit-zero:' + name, 'input %s: the process exit code is 0 although a stage failed' % name, cs)
        # stage outcomes observed on the returned system -> model
        if b.get('system') is None:
            found = os.path.exists(f)
            flags = '%d%d000' % (int(found), 0)
            rs = '-'
        else:
            pf = b['pf'] and b['m'] > 0
            rl = []
            for r in routine:
                if r == 'tds':
                    init_ok = b['test_ok'] is not False
                    ok = (not b['busted']) and b['tds_t'] == b['tds_tf'] and bool(b['tds_init'])
                    rl.append('t:%d:%d' % (int(init_ok), int(ok)))
                else:
                    rl.append('e:%d:1' % int(b['n'] > 0))
            flags = '11%d%d%d' % (int(b['is_setup']), int(b['m'] > 0), int(b['pf']))
            rs = ','.join(rl) or '-'
            if 'tds' in routine and b['test_ok'] is False and b.get('tds_ok') is True:
                ctx.oracle_fail('tds-run-true-after-failed-init', 'TDS.run() returned True although the initialisation test failed '
                                '(only the exit code, %d, records the failure)' % ex, cs)
            if b['nan'] and ex == 0:
                ctx.oracle_fail('nan-state-exit-zero', 'NaN in the final state with exit code 0', cs)
        lines.append('cli %s %s' % (flags, rs))
        impl.append(str(ex))
        cases.append(cs)
    outs = ctx.driver.ask(lines)
    for cs, a, b in zip(cases, impl, outs):
        # the model aggregates exactly like the code; codes > 0 must agree in being non-zero, and in value
        if (a == '0') != (b == '0'):
            ctx.disagree('cli-exit-code', cs, a, b)
    m = by[('two-cases-one-failing', True)]
    ctx.case(('cli', 'two-cases'), {'input': 'two cases, one failing'})
    if 'error' not in m and m.get('exit') == 0:
        ctx.oracle_fail('mp-proc-exit-code', 'two cases given on the command line, one of them fails to converge: '
                        'the process exit code is 0 (_run_mp_proc discards the systems, run() adds nothing)',
                        {'input': 'two-cases-one-failing'})
    import shutil
    shutil.rmtree(tmp, ignore_errors=True)


def nan_stream(ctx):
    """real power-flow runs that produce NaN: success must not be reported, NaN must not be the solution"""
    import numpy as np
    import andes
    specs = [('ieee14/ieee14.json', 'dishonest', 0), ('5bus/pjm5bus.xlsx', 'dishonest', 0), ('ieee14/ieee14.json', 'NR', 4)]
    for case, method, nfac in specs:
        ss = andes.load(andes.get_case(case), no_output=True, default_config=True)
        ss.PFlow.config.method = method
        ss.PFlow.config.n_factorize = nfac
        ok = ss.PFlow.run()
        nan = bool(np.isnan(ss.dae.xy).any())
        cs = {'case': case, 'method': method, 'n_factorize': nfac}
        ctx.case(('pflow-nan', case, method, nfac) if nan else None, cs)
        ctx.count('pflow_nan_runs' if nan else 'pflow_regular_runs')
        if ok and nan:
            ctx.oracle_fail('pflow-nan-reported-converged', 'PFlow.run() returned True (exit code %d) with NaN in the solution: '
                            'a NaN residual was turned into mismatch 0 by max(0, nan)' % ss.exit_code, cs)
        if nan and ss.exit_code == 0:
            ctx.oracle_fail('pflow-nan-exit-zero', 'NaN solution with exit code 0', cs)
        # gating: dependent routines must refuse
        if not ok:
            r1 = ss.TDS.run(no_summary=True)
            r2 = ss.EIG.run()
            if r1 or r2:
                ctx.oracle_fail('routine-ran-on-unsolved-pflow', 'TDS.run/EIG.run returned %r/%r on an unsolved power flow' % (r1, r2), cs)


def tds_stream(ctx, n):
    scs = []
    while len(scs) < n:
        sc = T.gen_scenario(ctx.rng, allow_findings=False)
        sc['vmode'] = ctx.rng.choice(['bursts', 'nan', 'crit', 'mixed', 'accept'])
        scs.append(sc)
    c06.check_scenarios(ctx, scs, oracle=oracle_tds, stream='tds-loop-failures')


def run(ctx):
    import andes
    andes.config_logger(stream_level=50)
    nr_stream(ctx, ctx.n(300, 4000))
    step_stream(ctx, ctx.n(200, 3000))
    tds_stream(ctx, ctx.n(80, 1200))
    nan_stream(ctx)
    cli_stream(ctx)


def search(ctx):
    run(ctx)


def replay(ctx, rep):
    print('replay of C17 inputs: re-run ./check C17 quick with the same VERIF_SEED; case:', json.dumps(rep.get('case'))[:300])
    return True
