"""C09 — limiters and other discrete components enforce their documented semantics.

Lean: Andes/Props/C09.lean (models Andes/Model/Discrete.lean + Delay.lean, scalar Q).
Tie: the REAL classes of andes/core/discrete.py are instantiated stand-alone (as tests/test_discrete.py
does) and driven with structured value/limit arrays (equalities, crossed and sign-flipped limits, +-1 ulp
neighbours) and time sequences (repeats, rewinds, resets); every flag / limit / state / output array is
compared with the model executed by the Lean driver on the same inputs — bit for bit (tolerance only for
Average, whose np.sum association is NumPy's).  Independently of the model, an oracle evaluates the
property statement itself on what the real code returned.  A second stream records stock simulations with
active anti-windup limiters and checks the clamping / zero-derivative clause at every stored instant."""
import glob
import json
import math
import os
import random

import numpy as np

from harness import common as C

PROP_MODULES = ['Andes.Props.C09']
RULE = ('case = one stand-alone component (Limiter/HardLimiter/DeadBand, DeadBandRT, AntiWindup, RateLimiter, '
        'AntiWindupRate, SortedLimiter, LessThan, IsEqual, Switcher, Selector, Delay step/time, Average, Derivative, '
        'Sampling) with its constructor flags, 1-8 devices, limits incl. lower==upper / crossed / sign -1, inputs at, '
        '1 ulp beside and far from the limits, 1-4 calls (init/adjust/niter variants) or a 4-40 call time sequence with '
        'repeats, rewinds, resets; distinct = distinct case; non-trivial = at least one limit flag set / one advancing '
        'stamp; plus recorded TDS runs of stock cases with anti-windup limiters')
ASSUMPTIONS = [
    'theorems are over exact rationals; IEEE comparison/rounding is exercised by the bit-exact correspondence only',
    'NaN/inf inputs and negative simulation times are outside the generated domain',
    'np.argsort is an input of the SortedLimiter model (contract: a permutation that sorts the keys, checked by the oracle)',
    'Average is compared with tolerance 1e-9*(1+|v|) (np.sum association), everything else bit for bit',
    'in-simulation clause: checked by the oracle on recorded runs (the Newton loop is not modelled); tolerance = config.tol',
]
CORPUS = os.path.join(C.ROOT, 'corpus', 'c09')
F = C.f2h


def _imports():
    from andes.core.common import DummyValue
    from andes.core import discrete as D
    from andes.core.param import NumParam
    from andes.core.var import Algeb, State
    return DummyValue, D, NumParam, Algeb, State


class _Idx:
    def __init__(self, n):
        self.v = list(range(n))


class _Owner:
    class_name = 'Stub'

    def __init__(self, n):
        self.n = n
        self.idx = _Idx(n)
        self.u = _Idx(n)
        self.u.v = np.ones(n)


def _param(vals, name='lim'):
    _, _, NumParam, _, _ = _imports()
    p = NumParam()
    p.name = name
    p.v = np.array(vals, dtype=float)
    return p


def _var(vals, cls=None):
    _, _, _, Algeb, State = _imports()
    a = (cls or Algeb)()
    a.name = 'u'
    a.v = np.array(vals, dtype=float)
    a.e = np.zeros(len(vals))
    a.a = np.arange(len(vals))
    return a


def bits(*arrs_at_i):
    return ''.join('1' if x != 0 else '0' for x in arrs_at_i)


def full(a, n):
    """a flag array that list2array did not expand (flag not exported) is a broadcast scalar"""
    return np.array(np.broadcast_to(np.asarray(a, dtype=float), (n,)))


def is01(a):
    return bool(np.all((np.asarray(a) == 0) | (np.asarray(a) == 1)))


# ------------------------------------------------------------------ generators

POOL = [0.0, 1.0, -1.0, 0.5, -0.5, 2.0, -2.0, 0.1, 1.05, 0.95, 3.0, 1e-3, -1e-3]


def gval(rng):
    r = rng.random()
    if r < 0.45:
        return rng.choice(POOL)
    if r < 0.8:
        return round(rng.uniform(-3, 3), rng.choice([1, 2, 4]))
    return rng.uniform(-5, 5)


def glimits(rng):
    """(lower, upper, kind): effective limits"""
    r = rng.random()
    a, b = gval(rng), gval(rng)
    if r < 0.70:
        if a == b:
            b = a + 1.0
        return min(a, b), max(a, b), 'normal'
    if r < 0.86:
        return a, a, 'equal'
    if r < 0.93:
        if a == b:
            b = a + 0.5
        return max(a, b), min(a, b), 'crossed'
    return a, float(np.nextafter(a, math.inf)), 'ulp-wide'


def ginput(rng, lo, up):
    r = rng.random()
    if r < 0.12:
        return lo
    if r < 0.24:
        return up
    if r < 0.30:
        return float(np.nextafter(up, rng.choice([-math.inf, math.inf])))
    if r < 0.36:
        return float(np.nextafter(lo, rng.choice([-math.inf, math.inf])))
    if r < 0.58:
        return lo + (up - lo) * rng.random()
    if r < 0.75:
        return max(lo, up) + abs(gval(rng)) + 0.01
    if r < 0.92:
        return min(lo, up) - abs(gval(rng)) - 0.01
    return gval(rng)


def gcall(rng, init_ok=True):
    if init_ok and rng.random() < 0.45:
        return [int(rng.random() < 0.8), int(rng.random() < 0.5), int(rng.random() < 0.6), 1]
    return [1, 0, 0, 0]


def gen_lim(rng, kind='lim'):
    n = rng.choice([1, 1, 2, 3, 5, 8])
    cfg = {'enable': int(rng.random() < 0.9), 'no_lower': int(rng.random() < 0.12), 'no_upper': int(rng.random() < 0.12),
           'neg_lower': int(rng.random() < 0.2), 'neg_upper': int(rng.random() < 0.2),
           'equal': int(rng.random() < 0.6), 'allow_adjust': int(rng.random() < 0.75)}
    lims = [glimits(rng) for _ in range(n)]
    calls = []
    for _ in range(rng.choice([1, 1, 2, 3])):
        calls.append({'k': gcall(rng), 'u': [ginput(rng, l[0], l[1]) for l in lims]})
    case = {'kind': kind, 'cfg': cfg, 'lower': [l[0] for l in lims], 'upper': [l[1] for l in lims], 'calls': calls,
            'z0': [rng.choice([0, 0, 0, 1]) for _ in range(3)] if rng.random() < 0.15 else [1, 0, 0]}
    return case


def gen_aw(rng):
    case = gen_lim(rng, 'aw')
    case['cfg']['equal'] = 1
    case['sep_state'] = int(rng.random() < 0.25)
    case['z0'] = [1, 0, 0]
    n = len(case['lower'])
    for c in case['calls']:
        c['niter'] = rng.choice([0, 0, 1, 2, 4, 5, 7])
        c['e'] = [rng.choice([0.0, 0.0, 1.0, -1.0, 0.3, -0.2, 1e-9, -1e-9, gval(rng)]) for _ in range(n)]
        c['x'] = [ginput(rng, lo, up) for lo, up in zip(case['lower'], case['upper'])] if case['sep_state'] else None
    if rng.random() < 0.5:
        case['rate'] = {'enable': case['cfg']['enable'], 'no_lower': int(rng.random() < 0.15), 'no_upper': int(rng.random() < 0.15),
                        'has_cl': int(rng.random() < 0.6), 'has_cu': int(rng.random() < 0.6),
                        'rl': [-abs(gval(rng)) - (0.0 if rng.random() < 0.2 else 0.01) for _ in range(n)],
                        'ru': [abs(gval(rng)) + (0.0 if rng.random() < 0.2 else 0.01) for _ in range(n)],
                        'cl': [float(rng.random() < 0.7) for _ in range(n)],
                        'cu': [float(rng.random() < 0.7) for _ in range(n)]}
        case['sep_state'] = 0
        for c in case['calls']:
            c['x'] = None
            c['e'] = [rng.choice([e, e * 3, rl, ru, rl - 0.5, ru + 0.5]) for e, rl, ru in
                      zip(c['e'], case['rate']['rl'], case['rate']['ru'])]
    return case


def gen_rate(rng):
    n = rng.choice([1, 2, 4])
    return {'kind': 'rate', 'enable': int(rng.random() < 0.9), 'no_lower': int(rng.random() < 0.15),
            'no_upper': int(rng.random() < 0.15), 'has_cl': int(rng.random() < 0.6), 'has_cu': int(rng.random() < 0.6),
            'rl': [-abs(gval(rng)) for _ in range(n)], 'ru': [abs(gval(rng)) for _ in range(n)],
            'cl': [float(rng.random() < 0.7) for _ in range(n)], 'cu': [float(rng.random() < 0.7) for _ in range(n)],
            'calls': [[gval(rng) * rng.choice([1, 1, 3]) for _ in range(n)] for _ in range(rng.choice([1, 2]))]}


def gen_cmp(rng):
    n = rng.choice([1, 2, 4])
    b = [gval(rng) for _ in range(n)]
    calls = [[rng.choice([x, x, float(np.nextafter(x, math.inf)), float(np.nextafter(x, -math.inf)), gval(rng)]) for x in b]
             for _ in range(rng.choice([1, 2, 3]))]
    return {'kind': rng.choice(['lt', 'iseq']), 'bound': b, 'calls': calls, 'equal': int(rng.random() < 0.5),
            'enable': int(rng.random() < 0.85), 'cache': int(rng.random() < 0.4), 'z0': rng.choice([0, 1]), 'z1': rng.choice([0, 1])}


def gen_sw(rng):
    k = rng.choice([2, 3, 5, 7])
    opts = list(range(k)) if rng.random() < 0.7 else sorted(set(rng.choice([0, 1, 2, 3, 5, 1.5, -1]) for _ in range(k)))
    if rng.random() < 0.08:
        opts = opts + [opts[0]]          # duplicated option
    n = rng.choice([0, 1, 2, 5])
    us = [rng.choice(opts) for _ in range(n)]
    if us and rng.random() < 0.15:
        us[rng.randrange(n)] = rng.choice([99.0, 0.5, float('nan')])
    return {'kind': 'sw', 'opts': [float(o) for o in opts], 'u': [float(u) for u in us], 'cache': int(rng.random() < 0.7),
            'u2': [float(rng.choice(opts)) for _ in range(n)]}


def gen_sel(rng):
    n = rng.choice([1, 2, 4])
    k = rng.choice([2, 2, 2, 3, 4])
    ins = []
    for _ in range(k):
        ins.append([gval(rng) + 0.0 for _ in range(n)])
    if rng.random() < 0.3:
        j = rng.randrange(n)
        ins[rng.randrange(k)][j] = ins[0][j]     # tie
    ins = [[0.0 if x == 0 else x for x in row] for row in ins]
    return {'kind': 'sel', 'max': int(rng.random() < 0.5), 'ins': ins}


def gen_dbrt(rng):
    n = rng.choice([1, 2, 3])
    lims = [glimits(rng) for _ in range(n)]
    calls = []
    for _ in range(rng.choice([2, 4, 6, 9])):
        calls.append([ginput(rng, l[0], l[1]) for l in lims])
    return {'kind': 'dbrt', 'enable': int(rng.random() < 0.9), 'lower': [l[0] for l in lims], 'upper': [l[1] for l in lims],
            'calls': calls}


def gen_srt(rng):
    n = rng.choice([1, 2, 3, 5, 8, 12])
    lims = [glimits(rng) for _ in range(n)]
    calls = []
    for _ in range(rng.choice([1, 2, 3])):
        calls.append({'u': [ginput(rng, l[0], l[1]) for l in lims],
                      'niter': rng.choice([None, 0, 1, 2, 5]), 'err': rng.choice([None, 1.0, 0.5, 1e-3, 0.01])})
    return {'kind': 'srt', 'lower': [l[0] for l in lims], 'upper': [l[1] for l in lims], 'calls': calls,
            'n_select': rng.choice([0, 0, 1, 2, 5, 999]), 'abs': int(rng.random() < 0.6), 'enable': int(rng.random() < 0.92)}


def gtimes(rng, integerish=False):
    """time stamps of consecutive check_var calls: initial calls at 0, advances, repeats, rewinds, rare resets"""
    ts = []
    t = 0.0
    prev = 0.0
    if rng.random() < 0.93:
        ts += [0.0] * rng.choice([1, 1, 2, 3])
    hs = [0.01, 0.05, 1 / 30, 0.1, 0.25, 0.5, 1.0] if not integerish else [0.25, 0.5, 1.0, 1.0, 2.0, 0.3]
    for _ in range(rng.choice([4, 8, 15, 30])):
        r = rng.random()
        if r < 0.50 or not ts:
            prev = t
            t = t + rng.choice(hs) * rng.choice([1, 1, 1, 0.5, 0.9, 1.1])
        elif r < 0.85:
            pass                                   # same stamp again (next Newton iteration)
        elif r < 0.95:
            if t > prev:
                t = prev + (t - prev) * rng.choice([0.5, 0.9, 0.25])      # rejected step, retried with a smaller h
        elif r < 0.975:
            t = prev                               # rewound exactly onto the previous stamp
        elif r < 0.985:
            t, prev = 0.0, 0.0
        ts.append(t)
    return ts


def gen_hist(rng):
    kind = rng.choice(['dstep', 'dstep', 'dtime', 'avgs', 'avgt', 'deriv', 'deriv', 'smp', 'smp'])
    ts = gtimes(rng, integerish=(kind == 'smp'))
    n = rng.choice([1, 1, 2, 3])
    us = []
    for _ in range(n):
        x = gval(rng)
        row = []
        for _ in ts:
            x = x + rng.choice([0.0, 0.0, 0.1, -0.1, rng.uniform(-1, 1), 1e-10])
            row.append(x)
        us.append(row)
    case = {'kind': kind, 't': ts, 'u': us}
    if kind in ('dstep', 'avgs'):
        case['delay'] = rng.choice([0, 1, 1, 2, 3, 5]) if kind == 'dstep' else rng.choice([1, 1, 2, 3, 5])
    if kind in ('dtime', 'avgt'):
        case['delay'] = rng.choice([0.05, 0.1, 0.3, 0.5, 1.0])
    if kind == 'smp':
        case['interval'] = rng.choice([0.5, 1.0, 2.0, 4.0])
        case['offset'] = rng.choice([0.0, 0.0, 0.25])
    return case


GENS = [(gen_lim, 5), (gen_aw, 5), (gen_rate, 1), (gen_cmp, 1), (gen_sw, 1), (gen_sel, 1), (gen_dbrt, 2), (gen_srt, 2),
        (gen_hist, 8)]


def gen_case(rng):
    tot = sum(w for _, w in GENS)
    r = rng.random() * tot
    for g, w in GENS:
        if r < w:
            return g(rng)
        r -= w
    return gen_hist(rng)


# ------------------------------------------------------------------ executing one case on the real code

class Res:
    def __init__(self):
        self.lines = []       # requests to the Lean driver
        self.impl = []        # what the real code produced, in the driver's output format
        self.tol = []         # per line: None (exact) or 'avg'
        self.fails = []       # (key, what) property failures on the real code
        self.counts = {}
        self.nontrivial = False

    def add(self, line, impl, tol=None):
        self.lines.append('disc ' + line)
        self.impl.append(impl)
        self.tol.append(tol)

    def fail(self, key, what):
        if key not in [k for k, _ in self.fails]:
            self.fails.append((key, what))

    def count(self, k, n=1):
        self.counts[k] = self.counts.get(k, 0) + n


def cfgbits(c):
    return ''.join(str(int(c[k])) for k in ('enable', 'no_lower', 'no_upper', 'neg_lower', 'neg_upper', 'equal', 'allow_adjust'))


def do_lim(case, R):
    _, D, _, _, _ = _imports()
    c = case['cfg']
    n = len(case['lower'])
    sl, su = (-1 if c['neg_lower'] else 1), (-1 if c['neg_upper'] else 1)
    lower = _param([sl * x for x in case['lower']], 'lower')
    upper = _param([su * x for x in case['upper']], 'upper')
    u = _var([0.0] * n)
    cls = D.HardLimiter if n % 2 else D.Limiter
    z0 = case.get('z0', [1, 0, 0])
    obj = cls(u, lower, upper, enable=bool(c['enable']), no_lower=bool(c['no_lower']), no_upper=bool(c['no_upper']),
              sign_lower=sl, sign_upper=su, equal=bool(c['equal']), allow_adjust=bool(c['allow_adjust']),
              zi=float(z0[0]), zl=float(z0[1]), zu=float(z0[2]))
    obj.owner = _Owner(n)
    obj.name = 'lim'
    obj.list2array(n)
    for call in case['calls']:
        k = call['k']
        u.v[:] = call['u']
        pre = (lower.v.copy(), upper.v.copy(), full(obj.zi, n), full(obj.zl, n), full(obj.zu, n))
        obj.check_var(allow_adjust=bool(k[0]), adjust_lower=bool(k[1]), adjust_upper=bool(k[2]), is_init=bool(k[3]))
        obj_zi, obj_zl, obj_zu = full(obj.zi, n), full(obj.zl, n), full(obj.zu, n)
        for i in range(n):
            R.add('lim %s %s %s %s %s %s' % (cfgbits(c), ''.join(map(str, k)), F(pre[0][i]), F(pre[1][i]),
                                             bits(pre[2][i], pre[3][i], pre[4][i]), F(u.v[i])),
                  '%s %s %s' % (F(lower.v[i]), F(upper.v[i]), bits(obj_zi[i], obj_zl[i], obj_zu[i])))
        # ---- the property itself
        R.count('lim:call_init' if k[3] else 'lim:call_plain')
        if not (is01(obj_zi) and is01(obj_zl) and is01(obj_zu)):
            R.fail('limiter-flag-not-01', 'a limiter flag is neither 0 nor 1')
        if not c['enable']:
            if not (np.array_equal(obj_zi, pre[2]) and np.array_equal(obj_zl, pre[3]) and np.array_equal(obj_zu, pre[4])):
                R.fail('limiter-disabled-changes-flags', 'a disabled limiter changed its flags')
            continue
        lo_eff, up_eff = sl * lower.v, su * upper.v
        did_adj = c['allow_adjust'] and k[3] and k[0]
        for i in range(n):
            x = u.v[i]
            if not c['no_upper']:
                want = (x >= up_eff[i]) if c['equal'] else (x > up_eff[i])
                if bool(obj_zu[i]) != bool(want):
                    R.fail('limit-adjust-lost-with-negative-sign' if (su == -1 and did_adj and k[2]) else 'limiter-zu-disagrees',
                           'zu=%g but input %r vs stored upper limit %r (sign %d, equal=%d)' % (obj_zu[i], x, up_eff[i], su, c['equal']))
                if did_adj and k[2] and x > up_eff[i]:
                    R.fail('limit-adjust-lost-with-negative-sign' if su == -1 else 'limit-adjust-upper-missing',
                           'adjust_upper at initialisation left the stored upper limit %r below the input %r' % (up_eff[i], x))
            if not c['no_lower']:
                want = (x <= lo_eff[i]) if c['equal'] else (x < lo_eff[i])
                if bool(obj_zl[i]) != bool(want):
                    R.fail('limit-adjust-lost-with-negative-sign' if (sl == -1 and did_adj and k[1]) else 'limiter-zl-disagrees',
                           'zl=%g but input %r vs stored lower limit %r (sign %d, equal=%d)' % (obj_zl[i], x, lo_eff[i], sl, c['equal']))
                if did_adj and k[1] and x < lo_eff[i]:
                    R.fail('limit-adjust-lost-with-negative-sign' if sl == -1 else 'limit-adjust-lower-missing',
                           'adjust_lower at initialisation left the stored lower limit %r above the input %r' % (lo_eff[i], x))
            if not c['no_upper'] and not c['no_lower']:
                s = obj_zi[i] + obj_zl[i] + obj_zu[i]
                crossed = lo_eff[i] > up_eff[i]
                if s != 1:
                    if crossed:
                        R.count('lim:crossed_limits_not_onehot')
                    elif s > 1:
                        R.fail('limiter-equal-limits-both-flags',
                               'lower == upper == input = %r: zl = zu = 1, zi = 0 (flags not mutually exclusive)' % x)
                    else:
                        R.fail('limiter-flags-not-exhaustive', 'zi+zl+zu = %g' % s)
                if obj_zl[i] or obj_zu[i]:
                    R.nontrivial = True
            if bool(obj_zi[i]) != (not (obj_zl[i] or obj_zu[i])):
                R.fail('limiter-zi-not-complement', 'zi is not the negation of (zl or zu)')
        R.count('lim:limits_' + ('equal' if np.any(lo_eff == up_eff) else 'crossed' if np.any(lo_eff > up_eff) else 'normal'))


def awdev(lower, upper, obj, st, u, i, with_u=True):
    n = len(st.v)
    f = [F(lower.v[i]), F(upper.v[i]), bits(full(obj.zi, n)[i], full(obj.zl, n)[i], full(obj.zu, n)[i], full(obj.zl0, n)[i], full(obj.zu0, n)[i]), F(st.v[i]), F(st.e[i])]
    if with_u:
        f.append(F(u.v[i]))
    return ','.join(f)


def do_aw(case, R):
    _, D, _, _, State = _imports()
    c = case['cfg']
    rate = case.get('rate')
    n = len(case['lower'])
    sl, su = (-1 if c['neg_lower'] else 1), (-1 if c['neg_upper'] else 1)
    if rate:
        sl = su = 1
        c = dict(c, neg_lower=0, neg_upper=0)
    lower = _param([sl * x for x in case['lower']], 'lower')
    upper = _param([su * x for x in case['upper']], 'upper')
    st = _var([0.0] * n, State)
    u = _var([0.0] * n) if case['sep_state'] else st
    if rate:
        rl, ru = _param(rate['rl'], 'rl'), _param(rate['ru'], 'ru')
        cl = _param(rate['cl'], 'cl') if rate['has_cl'] else None
        cu = _param(rate['cu'], 'cu') if rate['has_cu'] else None
        obj = D.AntiWindupRate(st, lower, upper, rl, ru, no_lower=bool(c['no_lower']), no_upper=bool(c['no_upper']),
                               rate_no_lower=bool(rate['no_lower']), rate_no_upper=bool(rate['no_upper']),
                               rate_lower_cond=cl, rate_upper_cond=cu, enable=bool(c['enable']),
                               allow_adjust=bool(c['allow_adjust']))
        rbits = '%d%d%d%d%d' % (c['enable'], rate['no_lower'], rate['no_upper'], rate['has_cl'], rate['has_cu'])
    else:
        obj = D.AntiWindup(u, lower, upper, enable=bool(c['enable']), no_lower=bool(c['no_lower']), no_upper=bool(c['no_upper']),
                           sign_lower=sl, sign_upper=su, state=(st if case['sep_state'] else None),
                           allow_adjust=bool(c['allow_adjust']))
    obj.owner = _Owner(n)
    obj.name = 'aw'
    obj.list2array(n)
    first = True
    for call in case['calls']:
        k = call['k']
        if first or case['sep_state'] or True:
            # the integrator moves the state between calls: new values every call
            if case['sep_state']:
                u.v[:] = call['u']
                st.v[:] = call['x']
            else:
                st.v[:] = call['u']
        first = False
        st.e[:] = call['e']
        pre_flags = (full(obj.zi, n), full(obj.zl, n), full(obj.zu, n))
        pre_x, pre_e, pre_u = st.v.copy(), st.e.copy(), u.v.copy()
        kw = dict(allow_adjust=bool(k[0]), adjust_lower=bool(k[1]), adjust_upper=bool(k[2]), is_init=bool(k[3]), niter=call['niter'])
        if rate:
            devs = ';'.join(awdev(lower, upper, obj, st, u, i, False) + ',' + ','.join(
                [F(full(obj.zlr, n)[i]), F(full(obj.zur, n)[i]), F(rate['rl'][i]), F(rate['ru'][i]),
                 F(rate['cl'][i] if rate['has_cl'] else 0.0), F(rate['cu'][i] if rate['has_cu'] else 0.0)]) for i in range(n))
            line = 'awr %s %s %s %d %d %s' % (rbits, cfgbits(c), ''.join(map(str, k)), obj.niter_lock, call['niter'], devs)
        else:
            devs = ';'.join(awdev(lower, upper, obj, st, u, i) for i in range(n))
            line = 'aw %s %s %d %d %s' % (cfgbits(c), ''.join(map(str, k)), obj.niter_lock, call['niter'], devs)
        obj.check_eq(**kw)
        if rate:
            R.add(line, ';'.join(awdev(lower, upper, obj, st, u, i, False) + ',' + F(full(obj.zlr, n)[i]) + ',' + F(full(obj.zur, n)[i]) for i in range(n)))
        else:
            xs = []
            for a, v, ev in obj.x_set:
                xs += ['%d:%s' % (int(ai), F(vi)) for ai, vi in zip(np.atleast_1d(a), np.atleast_1d(v))]
                if ev != 0:
                    R.fail('xset-eqn-value-nonzero', 'x_set carries a non-zero equation value')
            R.add(line, ';'.join(awdev(lower, upper, obj, st, u, i, False) for i in range(n)) + '|' + (','.join(xs) or '-'))
            # write-back to dae.x / zeroing of q exactly as System.fg_to_dae and daeint.py do it
            daex = np.arange(n, dtype=float) * 0.5 - 1.0
            q = daex.copy()
            ref = ' '.join([','.join(F(v) for v in daex), ','.join(xs) or '-'])
            for key, val, _ in obj.x_set:
                np.put(daex, key, val)
            for key, _, eqval in obj.x_set:
                np.put(q, key, eqval)
            R.add('put ' + ref, ','.join(F(v) for v in daex) + ' ' + ','.join(F(v) for v in q))
        # ---- the property itself
        R.count('aw:niter>lock' if call['niter'] > obj.niter_lock else 'aw:niter<=lock')
        lo_eff, up_eff = sl * lower.v, su * upper.v
        e_in = pre_e
        if rate and c['enable']:
            # documented rate semantics: the derivative is clipped into [rl, ru] where the condition is on
            e_in = pre_e.copy()
            for i in range(n):
                on_l = (not rate['no_lower']) and (not rate['has_cl'] or rate['cl'][i] != 0)
                on_u = (not rate['no_upper']) and (not rate['has_cu'] or rate['cu'][i] != 0)
                if on_l and e_in[i] < rate['rl'][i]:
                    e_in[i] = rate['rl'][i]
                if on_u and e_in[i] > rate['ru'][i]:
                    e_in[i] = rate['ru'][i]
        if not c['enable']:
            if not (np.array_equal(full(obj.zi, n), pre_flags[0]) and np.array_equal(st.v, pre_x) and np.array_equal(st.e, pre_e)):
                R.fail('antiwindup-ignores-enable', 'AntiWindup(enable=False).check_eq still changed flags / state / equation value')
            continue
        pegged_any = False
        for i in range(n):
            zi, zl, zu = full(obj.zi, n)[i], full(obj.zl, n)[i], full(obj.zu, n)[i]
            both = not c['no_lower'] and not c['no_upper']
            crossed = both and lo_eff[i] > up_eff[i]
            if crossed:
                R.count('aw:crossed_limits')
                continue
            if zi + zl + zu != 1 and both and call['niter'] > obj.niter_lock and (pre_flags[1][i] or pre_flags[2][i]) \
                    and lo_eff[i] != up_eff[i]:
                # generator artefact: a flag latched by niter > niter_lock while the random input jumped to the other limit
                R.count('aw:latched_flag_and_jump')
                continue
            if zi + zl + zu != 1 and both:
                if lo_eff[i] == up_eff[i]:
                    R.fail('antiwindup-equal-limits-both-pegged',
                           'lower == upper == state = %r with zero derivative: zl = zu = 1; state set to %r' % (pre_u[i], st.v[i]))
                else:
                    R.fail('antiwindup-flags-not-onehot', 'zi zl zu = %g %g %g with lower %r < upper %r' % (zi, zl, zu, lo_eff[i], up_eff[i]))
                continue
            locked = call['niter'] > obj.niter_lock
            if not c['no_upper']:
                want = (pre_u[i] >= up_eff[i]) and (e_in[i] >= 0)
                if bool(zu) != bool(want) and not (locked and pre_flags[2][i] and zu):
                    R.fail('antiwindup-zu-disagrees', 'zu=%g, input %r upper %r derivative %r' % (zu, pre_u[i], up_eff[i], e_in[i]))
            if not c['no_lower']:
                want = (pre_u[i] <= lo_eff[i]) and (e_in[i] <= 0)
                if bool(zl) != bool(want) and not (locked and pre_flags[1][i] and zl):
                    R.fail('antiwindup-zl-disagrees', 'zl=%g, input %r lower %r derivative %r' % (zl, pre_u[i], lo_eff[i], e_in[i]))
            if zi == 0:
                pegged_any = True
                lim = up_eff[i] if zu else lo_eff[i]
                if st.e[i] != 0:
                    R.fail('antiwindup-pegged-derivative-nonzero', 'pegged state keeps derivative %r' % st.e[i])
                neg_adj = c['allow_adjust'] and k[3] and k[0] and ((zu and su == -1 and k[2]) or (zl and sl == -1 and k[1]))
                if st.v[i] != lim:
                    R.fail('limit-adjust-lost-with-negative-sign' if neg_adj else 'antiwindup-pegged-not-at-limit', 'pegged state is %r, limit %r' % (st.v[i], lim))
                if not any(i in np.atleast_1d(a) for a, _, _ in obj.x_set):
                    R.fail('antiwindup-xset-missing', 'pegged device missing from x_set')
                # the value x_set hands to System.fg_to_dae (which writes it into dae.x) is the limit in force NOW
                for a_, v_, _ in obj.x_set:
                    for ai, vi in zip(np.atleast_1d(a_), np.atleast_1d(v_)):
                        if int(ai) == i and vi != lim and not neg_adj:
                            R.fail('antiwindup-xset-value-stale', 'x_set writes %r into the state vector for a state pegged at the limit %r '
                                   '(the limit moved since the value was recorded)' % (float(vi), float(lim)))
            else:
                if st.v[i] != pre_x[i] and not (st.v[i] == 0 and pre_x[i] == 0):
                    R.fail('antiwindup-free-state-changed', 'state of a device that is not pegged changed')
                want_e = e_in[i]
                if st.e[i] != want_e and not (st.e[i] == 0 and want_e == 0):
                    R.fail('antiwindup-free-derivative-changed', 'derivative %r, expected %r' % (st.e[i], want_e))
                if any(i in np.atleast_1d(a) for a, _, _ in obj.x_set):
                    R.fail('antiwindup-xset-extra', 'free device listed in x_set')
        if pegged_any:
            R.nontrivial = True
            R.count('aw:pegged_calls')


def do_rate(case, R):
    _, D, _, _, State = _imports()
    n = len(case['rl'])
    st = _var([0.0] * n, State)
    rl, ru = _param(case['rl']), _param(case['ru'])
    cl = _param(case['cl']) if case['has_cl'] else None
    cu = _param(case['cu']) if case['has_cu'] else None
    obj = D.RateLimiter(st, rl, ru, enable=bool(case['enable']), no_lower=bool(case['no_lower']), no_upper=bool(case['no_upper']),
                        lower_cond=cl, upper_cond=cu)
    obj.list2array(n)
    if obj.zlr.shape != (n,):
        obj.zlr = np.zeros(n)
    if obj.zur.shape != (n,):
        obj.zur = np.zeros(n)
    rb = '%d%d%d%d%d' % (case['enable'], case['no_lower'], case['no_upper'], case['has_cl'], case['has_cu'])
    for es in case['calls']:
        st.e[:] = es
        pre = (obj.zlr.copy().astype(float), obj.zur.copy().astype(float), st.e.copy())
        obj.check_eq()
        for i in range(n):
            R.add('rate %s %s %s %s %s %s %s %s' % (rb, F(pre[0][i]), F(pre[1][i]), F(pre[2][i]), F(case['rl'][i]), F(case['ru'][i]),
                                                    F(case['cl'][i] if case['has_cl'] else 0.0), F(case['cu'][i] if case['has_cu'] else 0.0)),
                  '%s %s %s' % (F(obj.zlr[i]), F(obj.zur[i]), F(st.e[i])))
            on_l = case['enable'] and (not case['no_lower']) and (not case['has_cl'] or case['cl'][i] != 0)
            on_u = case['enable'] and (not case['no_upper']) and (not case['has_cu'] or case['cu'][i] != 0)
            want = pre[2][i]
            if on_l and want < case['rl'][i]:
                want = case['rl'][i]
            if on_u and want > case['ru'][i]:
                want = case['ru'][i]
            if st.e[i] != want:
                R.fail('ratelimiter-wrong-derivative', 'derivative %r after rate limiting, expected %r' % (st.e[i], want))
            if st.e[i] != pre[2][i]:
                R.nontrivial = True


def do_cmp(case, R):
    _, D, _, _, _ = _imports()
    n = len(case['bound'])
    u = _var([0.0] * n)
    b = _param(case['bound'])
    if case['kind'] == 'lt':
        obj = D.LessThan(u, b, equal=bool(case['equal']), enable=bool(case['enable']), cache=bool(case['cache']),
                         z0=case['z0'], z1=case['z1'])
    else:
        obj = D.IsEqual(u, b, enable=bool(case['enable']), cache=bool(case['cache']), z1=case['z1'])
    obj.list2array(n)
    frozen = None
    for us in case['calls']:
        u.v[:] = us
        ev = obj._eval
        if case['kind'] == 'lt':
            pre = (obj.z0.copy(), obj.z1.copy())
            obj.check_var()
            for i in range(n):
                R.add('lt %d%d%d%d%s %s %s' % (case['enable'], case['cache'], ev, case['equal'], bits(pre[0][i], pre[1][i]), F(us[i]), F(case['bound'][i])),
                      bits(obj.z0[i], obj.z1[i]) + str(int(obj._eval)))
            want = np.array([(x <= y) if case['equal'] else (x < y) for x, y in zip(us, case['bound'])], dtype=float)
        else:
            pre = (obj.z1.copy(),)
            obj.check_var()
            for i in range(n):
                R.add('iseq %d%d%d%s %s %s' % (case['enable'], case['cache'], ev, bits(pre[0][i]), F(us[i]), F(case['bound'][i])),
                      bits(obj.z1[i]) + str(int(obj._eval)))
            want = np.array([x == y for x, y in zip(us, case['bound'])], dtype=float)
        if not case['enable']:
            want = pre[-1]
        elif case['cache']:
            if frozen is None:
                frozen = want
            want = frozen
        if not np.array_equal(obj.z1, want):
            R.fail('comparison-flag-wrong', '%s flag %r expected %r' % (case['kind'], obj.z1.tolist(), want.tolist()))
        if case['kind'] == 'lt' and case['enable'] and not np.array_equal(obj.z0, 1 - obj.z1):
            R.fail('comparison-flag-wrong', 'z0 is not the negation of z1')
        R.nontrivial = R.nontrivial or bool(np.any(obj.z1))


def do_sw(case, R):
    _, D, _, _, _ = _imports()
    n = len(case['u'])
    p = _param(case['u'], 'IC')
    obj = D.Switcher(u=p, options=case['opts'], cache=bool(case['cache']))
    obj.owner = _Owner(n)
    try:
        obj.list2array(n)
        fl = [bits(*[obj.__dict__['s%d' % j][i] for j in range(len(case['opts']))]) for i in range(n)]
        impl = ','.join(fl) or '-'
    except ValueError:
        impl = 'err'
    R.add('sw %s %s' % (','.join(F(o) for o in case['opts']), ','.join(F(x) for x in case['u']) or '-'), impl)
    bad = [x for x in case['u'] if not (x != x) and x not in case['opts']]
    if (impl == 'err') != bool(bad):
        R.fail('switcher-validation', 'invalid option %r: error raised = %s' % (bad, impl == 'err'))
    if impl != 'err' and n:
        for i, x in enumerate(case['u']):
            for j, o in enumerate(case['opts']):
                if bool(obj.__dict__['s%d' % j][i]) != (x == o):
                    R.fail('switcher-flag-wrong', 'flag s%d of input %r' % (j, x))
            if x == x and len(set(case['opts'])) == len(case['opts']) and sum(obj.__dict__['s%d' % j][i] for j in range(len(case['opts']))) != 1:
                R.fail('switcher-not-onehot', 'input %r selects %d options' % (x, sum(obj.__dict__['s%d' % j][i] for j in range(len(case['opts'])))))
        R.nontrivial = True
        # cached flags stay; uncached follow the input
        before = [obj.__dict__['s%d' % j].copy() for j in range(len(case['opts']))]
        p.v[:] = case['u2']
        obj.check_var()
        for j, o in enumerate(case['opts']):
            want = before[j] if case['cache'] else np.array([x == o for x in case['u2']], dtype=float)
            if not np.array_equal(obj.__dict__['s%d' % j], want):
                R.fail('switcher-cache', 'cache=%d: flags after a second call' % case['cache'])
        if not case['cache']:
            R.add('sw %s %s' % (','.join(F(o) for o in case['opts']), ','.join(F(x) for x in case['u2'])),
                  ','.join(bits(*[obj.__dict__['s%d' % j][i] for j in range(len(case['opts']))]) for i in range(n)))


def do_sel(case, R):
    _, D, _, _, _ = _imports()
    ins = [_var(row) for row in case['ins']]
    n = len(case['ins'][0])
    obj = D.Selector(*ins, fun=(np.maximum.reduce if case['max'] else np.minimum.reduce))
    obj.list2array(n)
    obj.check_var()
    k = len(ins)
    for i in range(n):
        R.add('sel %d %s' % (case['max'], ','.join(F(case['ins'][j][i]) for j in range(k))),
              '%s %s' % (F(obj._outputs[i]), bits(*[obj.__dict__['s%d' % j][i] for j in range(k)])))
        vals = [case['ins'][j][i] for j in range(k)]
        best = max(vals) if case['max'] else min(vals)
        flags = [bool(obj.__dict__['s%d' % j][i]) for j in range(k)]
        if flags != [v == best for v in vals]:
            R.fail('selector-flag-wrong', 'inputs %r flags %r' % (vals, flags))
        if not any(flags):
            R.fail('selector-flag-wrong', 'no input selected')
        if sum(flags) > 1:
            R.count('sel:ties')
    R.nontrivial = True


def do_dbrt(case, R):
    _, D, _, _, _ = _imports()
    n = len(case['lower'])
    u = _var([0.0] * n)
    lower, upper = _param(case['lower']), _param(case['upper'])
    obj = D.DeadBandRT(u, center=0.0, lower=lower, upper=upper, enable=bool(case['enable']))
    obj.list2array(n)
    doc_ur = np.zeros(n, dtype=bool)
    doc_lr = np.zeros(n, dtype=bool)
    for us in case['calls']:
        u.v[:] = us
        pre = (obj.zi.copy(), obj.zl.copy(), obj.zu.copy(), obj.zur.copy(), obj.zlr.copy())
        obj.check_var()
        for i in range(n):
            R.add('dbrt %d %s %s %s %s %s %s' % (case['enable'], F(case['lower'][i]), F(case['upper'][i]), bits(pre[0][i], pre[1][i], pre[2][i]),
                                                 F(pre[3][i]), F(pre[4][i]), F(us[i])),
                  '%s %s %s' % (bits(obj.zi[i], obj.zl[i], obj.zu[i]), F(obj.zur[i]), F(obj.zlr[i])))
        if not case['enable']:
            if np.any(obj.zi) or np.any(obj.zl) or np.any(obj.zu) or np.any(obj.zur) or np.any(obj.zlr):
                R.fail('deadband-disabled-flags', 'a disabled dead band set a flag')
            continue
        for i in range(n):
            x, lo, up = us[i], case['lower'][i], case['upper'][i]
            if bool(obj.zu[i]) != (x > up) or bool(obj.zl[i]) != (x < lo) or bool(obj.zi[i]) != (not (x > up or x < lo)):
                R.fail('deadband-flag-wrong', 'input %r band [%r, %r]: zi zl zu = %s' % (x, lo, up, bits(obj.zi[i], obj.zl[i], obj.zu[i])))
            if lo <= up and obj.zi[i] + obj.zl[i] + obj.zu[i] != 1:
                R.fail('deadband-not-onehot', 'flags not one-hot for lower <= upper')
            # documented return flags: set when previous side flag and present zi, hold while zi unchanged, clear otherwise
            zi_now, zi_prev = bool(obj.zi[i]), bool(pre[0][i])
            doc_ur[i] = (bool(pre[2][i]) and zi_now) or (doc_ur[i] and zi_prev == zi_now)
            doc_lr[i] = (bool(pre[1][i]) and zi_now) or (doc_lr[i] and zi_prev == zi_now)
            if lo <= up and (bool(obj.zur[i]) != bool(doc_ur[i]) or bool(obj.zlr[i]) != bool(doc_lr[i])):
                R.fail('deadbandrt-return-flags-never-set',
                       'input returned into the band [%r, %r] from %s but zur=%g zlr=%g (documented: %d %d)' %
                       (lo, up, 'above' if pre[2][i] else 'below', obj.zur[i], obj.zlr[i], doc_ur[i], doc_lr[i]))
            if obj.zl[i] or obj.zu[i]:
                R.nontrivial = True


def do_srt(case, R):
    _, D, _, _, _ = _imports()
    n = len(case['lower'])
    u = _var([0.0] * n)
    lower, upper = _param(case['lower']), _param(case['upper'])
    obj = D.SortedLimiter(u, lower, upper, n_select=case['n_select'], abs_violation=bool(case['abs']), enable=bool(case['enable']))
    obj.owner = _Owner(n)
    obj.list2array(n)
    cfg = {'enable': case['enable'], 'no_lower': 0, 'no_upper': 0, 'neg_lower': 0, 'neg_upper': 0, 'equal': 1, 'allow_adjust': 1}
    for call in case['calls']:
        u.v[:] = call['u']
        pre = [a.copy() for a in (obj.zi, obj.zl, obj.zu, obj.ql, obj.qu)]
        nsel0 = obj.n_select
        with np.errstate(all='ignore'):
            obj.check_var(niter=call['niter'], err=call['err'])
            if case['abs']:
                lv, uv = u.v - lower.v, upper.v - u.v
            else:
                ld = obj.lower_denom if obj.lower_denom is not None else np.ones(n)
                ud = obj.upper_denom if obj.upper_denom is not None else np.ones(n)
                lv, uv = np.abs((u.v - lower.v) / ld), np.abs((upper.v - u.v) / ud)
        asc, desc = np.argsort(lv), np.argsort(uv)
        devs = ';'.join('%s,%s,%s,%s' % (F(case['lower'][i]), F(case['upper'][i]), bits(*[p[i] for p in pre]), F(u.v[i])) for i in range(n))
        R.add('srt %s %d %d %d %d %s %s %d %s %s %s %s' % (
            cfgbits(cfg), int(obj.auto), nsel0, obj.min_sel, obj.max_sel,
            '-' if call['niter'] is None else call['niter'], '-' if call['err'] is None else F(call['err']),
            obj.min_iter, F(obj.err_tol), ','.join(map(str, asc)), ','.join(map(str, desc)), devs),
            '%d %s' % (obj.n_select, ';'.join(bits(obj.zi[i], obj.zl[i], obj.zu[i], obj.ql[i], obj.qu[i]) for i in range(n))))
        # ---- oracle
        if sorted(asc.tolist()) != list(range(n)) or np.any(np.diff(lv[asc]) < 0) or np.any(np.diff(uv[desc]) < 0):
            R.fail('argsort-contract', 'np.argsort did not return a sorting permutation')
        skipped = (not case['enable']) or (call['niter'] is not None and call['niter'] < obj.min_iter and
                                           call['err'] is not None and call['err'] > obj.err_tol)
        if skipped:
            if any(not np.array_equal(a, b) for a, b in zip(pre, (obj.zi, obj.zl, obj.zu, obj.ql, obj.qu))):
                R.fail('sortedlimiter-skipped-call-changed-flags', 'flags changed although the block is disabled / not yet active')
            R.count('srt:skipped')
            continue
        ns = obj.n_select
        top_l, top_u = set(asc[:ns].tolist()), set(desc[:ns].tolist())
        for i in range(n):
            sel = i in top_l or i in top_u
            want_l = (sel and u.v[i] <= lower.v[i]) or bool(pre[3][i])
            want_u = (sel and u.v[i] >= upper.v[i]) or bool(pre[4][i])
            if bool(obj.zl[i]) != want_l or bool(obj.zu[i]) != want_u:
                R.fail('sortedlimiter-selection-wrong', 'device %d: zl zu = %g %g, expected %d %d' % (i, obj.zl[i], obj.zu[i], want_l, want_u))
            if obj.zi[i] != 1 - (1 if (obj.zl[i] or obj.zu[i]) else 0):
                R.fail('sortedlimiter-zi-wrong', 'zi is not 1 - (zl or zu)')
            if pre[3][i] and not obj.ql[i] or pre[4][i] and not obj.qu[i]:
                R.fail('sortedlimiter-latch-lost', 'a latched device was released')
            if obj.zl[i] or obj.zu[i]:
                R.nontrivial = True
        R.count('srt:auto' if obj.auto else 'srt:fixed')


# ---- history-dependent components

def do_hist(case, R):
    DummyValue, D, _, _, _ = _imports()
    kind = case['kind']
    ts = case['t']
    n = len(case['u'])
    data = DummyValue(0)
    data.v = np.zeros(n)
    if kind == 'dstep':
        obj = D.Delay(u=data, mode='step', delay=case['delay'])
    elif kind == 'dtime':
        obj = D.Delay(u=data, mode='time', delay=case['delay'])
    elif kind == 'avgs':
        obj = D.Average(u=data, mode='step', delay=case['delay'])
    elif kind == 'avgt':
        obj = D.Average(u=data, mode='time', delay=case['delay'])
    elif kind == 'deriv':
        obj = D.Derivative(u=data)
    else:
        obj = D.Sampling(data, interval=case['interval'], offset=case['offset'])
    obj.list2array(n)
    outs = [[] for _ in range(n)]
    vals = [[] for _ in range(n)]
    rew = []
    bad = False
    with np.errstate(all='ignore'):
        for j, t in enumerate(ts):
            data.v[:] = [case['u'][i][j] for i in range(n)]
            try:
                obj.check_var(t)
            except (IndexError, ValueError):
                bad = True
                for i in range(n):
                    outs[i].append('bad')
                break
            rew.append(bool(obj.rewind))
            for i in range(n):
                outs[i].append('%s:%d' % (F(obj.v[i]), int(obj.rewind)))
                vals[i].append(float(obj.v[i]))
    R.count('hist:' + kind)
    R.count('hist:calls', len(ts))
    if bad:
        R.count('hist:exception')
    calls_s = [';'.join('%s,%s' % (F(t), F(case['u'][i][j])) for j, t in enumerate(ts)) for i in range(n)]
    for i in range(n):
        if kind == 'smp':
            tail = '%s %s' % (F(obj._last_v[i]), F(float(obj._last_t[0])))
            R.add('smp %s %s %s' % (F(case['interval']), F(case['offset']), calls_s[i]), ';'.join(outs[i]) + '|' + tail)
            continue
        tail = ','.join(F(x) for x in np.atleast_1d(obj.t)) + '|' + ','.join(F(x) for x in obj._v_mem[i])
        head = {'dstep': 'dstep %d' % case.get('delay', 0), 'avgs': 'avgs %d' % case.get('delay', 0), 'deriv': 'deriv',
                'dtime': 'dtime %s' % F(case.get('delay', 0)), 'avgt': 'avgt %s' % F(case.get('delay', 0))}[kind]
        R.add('%s %s' % (head, calls_s[i]), ';'.join(outs[i]) + '|' + tail, 'avg' if kind in ('avgs', 'avgt') else None)
    degen = _degenerate(ts)
    repeats = any(b <= a and b != 0 for a, b in zip(ts, ts[1:]))
    if degen:
        R.count('hist:rewind_onto_previous_stamp')
    if bad:
        has_rew = any(b < a and b != 0 for a, b in zip(ts, ts[1:]))
        R.fail('history-zero-span-after-rewind' if degen else 'delay-time-interpolation-index' if not has_rew else
               'delay-time-window-trimmed-by-rejected-step',
               'Delay(mode=time) raised while interpolating (idx = -1)')
        return
    # ---- oracle: the documented semantics on an unbounded reference history
    zero_span = False
    for i in range(n):
        us = case['u'][i]
        last = 0.0
        smp_v, smp_last_v, smp_last_t = 0.0, 0.0, 0.0
        for j, t in enumerate(ts):
            x = us[j]
            br = 'zero' if t == 0 else 'rewind' if t < last else 'same' if t == last else 'adv'
            R.count('hist:br_' + br)
            if br == 'adv':
                R.nontrivial = True
            if kind == 'smp':
                # documented: sample when more than `interval` (+offset) has passed since the last sample; follow the
                # input while time stands still at a sample instant; on a rewind restore the previous output
                if t == 0:
                    smp_v = smp_last_v = x
                elif t > smp_last_t:
                    if (t - case['offset'] - smp_last_t) > case['interval']:
                        smp_last_v, smp_v, smp_last_t = smp_v, x, t
                elif t == smp_last_t:
                    smp_v = x
                else:
                    smp_v, smp_last_t = smp_last_v, t
                if vals[i][j] != smp_v:
                    R.fail('sampling-last-t-truncated',
                           'Sampling(interval=%r, offset=%r): output %r at t=%r, the documented sample-and-hold gives %r '
                           '(_last_t is an integer array: the sample time is truncated)' % (case['interval'], case['offset'], vals[i][j], t, smp_v))
                    break
                continue
            if br in ('rewind', 'adv'):
                last = t
            v = vals[i][j]
            if not math.isfinite(v):
                zero_span = True
                continue
            if kind == 'dstep' and ts[0] == 0 and not _reset_inside(ts):
                d = case['delay']
                want = _dstep_ref(ts[:j + 1], us[:j + 1], d)
                if v != want:
                    R.fail('delay-step-wrong-output', 'Delay(step, %d): output %r, expected %r at call %d' % (d, v, want, j))
                    break
            if kind == 'deriv' and ts[0] == 0 and not _reset_inside(ts):
                want = _deriv_ref(ts[:j + 1], us[:j + 1])
                if want is not None and abs(v - want) > 1e-9 * (1 + abs(want)):
                    R.fail('derivative-wrong-output', 'Derivative: output %r, expected %r at call %d' % (v, want, j))
                    break
            if kind == 'dtime' and ts[0] == 0 and not _reset_inside(ts):
                want = _dtime_ref(ts[:j + 1], us[:j + 1], case['delay'])
                if want is not None and abs(v - want) > 1e-9 * (1 + abs(want)):
                    rew_before = any(b < a and b != 0 for a, b in zip(ts[:j + 1], ts[1:j + 1]))
                    R.fail('delay-time-window-trimmed-by-rejected-step' if rew_before else
                           'delay-time-stale-interpolation' if repeats else 'delay-time-wrong-output',
                           'Delay(time, %r): output %r at call %d, the interpolated history gives %r (the head sample was interpolated '
                           'from an earlier Newton iterate of the newest sample and is not refreshed)' % (case['delay'], v, j, want))
                    break
            if kind == 'avgt' and ts[0] == 0 and not _reset_inside(ts):
                want = _avgt_ref(ts[:j + 1], us[:j + 1], case['delay'])
                if want is not None:
                    R.count('avgt_outputs_checked_against_definition')
                if want is not None and abs(v - want) > 1e-9 * (1 + abs(want)):
                    R.fail('average-wrong-output', 'Average(time, %r): output %r at call %d, the mean of the input history over the '
                           'window is %r' % (case['delay'], v, j, want))
                    break
            if kind == 'avgs' and ts[0] == 0 and not _reset_inside(ts):
                want = _avgs_ref(ts[:j + 1], us[:j + 1], case['delay'])
                if want is not None and abs(v - want) > 1e-9 * (1 + abs(want)):
                    R.fail('average-wrong-output', 'Average(step, %d): output %r, expected %r at call %d' % (case['delay'], v, want, j))
                    break
    if zero_span:
        has_rew = any(b < a and b != 0 for a, b in zip(ts, ts[1:]))
        R.fail('history-zero-span-after-rewind' if degen else
               'delay-time-window-trimmed-by-rejected-step' if (has_rew and kind in ('dtime', 'avgt')) else 'history-non-finite-output',
               '%s returned a non-finite value: a rewind exactly onto the previous stamp leaves two equal stamps in the buffer' % kind)


def _degenerate(ts):
    """a rewind lands exactly on (or before) the stamp of the previous slot"""
    stamps = [0.0]
    last = 0.0
    for t in ts:
        if t == 0 and last == 0:
            continue
        # (a first step that is rejected rewinds to exactly t = 0, the stamp of the initial slot)
        if t < last:
            stamps[-1] = t
            last = t
            if len(stamps) > 1 and stamps[-1] <= stamps[-2]:
                return True
            if len(stamps) == 1:
                return True
        elif t > last:
            stamps.append(t)
            last = t
    return False


def _reset_inside(ts):
    seen_pos = False
    for t in ts:
        if t != 0:
            seen_pos = True
        elif seen_pos:
            return True
    return False


def _slots(ts, us):
    """unbounded history: value at init, then one slot per advancing stamp (repeats / rewinds overwrite the newest)"""
    init = None
    slots = []
    last = 0.0
    for t, x in zip(ts, us):
        if t == 0:
            init = x
            slots = []
        elif t < last:
            if slots:
                slots[-1] = [t, x]
            else:
                init = x
            last = t
        elif t == last:
            if slots:
                slots[-1][1] = x
            else:
                init = x
        else:
            slots.append([t, x])
            last = t
    return init, slots


def _dstep_ref(ts, us, d):
    init, slots = _slots(ts, us)
    vals = [init] + [s[1] for s in slots]
    return vals[-1 - d] if len(vals) > d else init


def _deriv_ref(ts, us):
    init, slots = _slots(ts, us)
    t = ts[-1]
    if t == 0:
        return 0.0
    # after a rewind the documented output is zero
    last = 0.0
    rew = False
    for tt in ts:
        rew = (tt != 0 and tt < last)
        if tt != 0 and (tt < last or tt > last):
            last = tt
    if rew:
        return 0.0
    if not slots:
        return None
    t1, x1 = slots[-1]
    t0, x0 = (slots[-2] if len(slots) > 1 else [0.0, init])
    if t1 == t0:
        return None
    v = (x1 - x0) / (t1 - t0)
    return 0.0 if abs(v) < 1e-8 else v


def _dtime_ref(ts, us, delay):
    init, slots = _slots(ts, us)
    pts = [[0.0, init]] + slots
    st = [p[0] for p in pts]
    if any(b <= a for a, b in zip(st, st[1:])):
        return None
    # the window is only trimmed on advancing calls; between them the output is whatever the head holds
    last = 0.0
    br = 'zero'
    for tt in ts:
        br = 'zero' if tt == 0 else 'rewind' if tt < last else 'same' if tt == last else 'adv'
        if br in ('rewind', 'adv'):
            last = tt
    if br != 'adv':
        return None
    target = ts[-1] - delay
    if target <= 0:
        return init
    return float(np.interp(target, st, [p[1] for p in pts]))


def _avgt_ref(ts, us, delay):
    """Average(mode='time'): the mean of the piecewise-linear input history over the last `delay` seconds (over the
    whole history while it is shorter than that), for strictly advancing call sequences only (repeated stamps and
    rewinds are the subject of the recorded Delay(time) findings)"""
    init, slots = _slots(ts, us)
    pts = [[0.0, init]] + slots
    st = [p[0] for p in pts]
    if any(b <= a for a, b in zip(st, st[1:])) or any(b <= a for a, b in zip(ts, ts[1:]) if not (a == 0 and b == 0)):
        return None
    t1 = st[-1]
    t0 = max(st[0], t1 - delay)
    if t1 <= t0:
        return None
    vs = [p[1] for p in pts]
    knots = [t0] + [x for x in st if t0 < x < t1] + [t1]
    vals = [float(np.interp(x, st, vs)) for x in knots]
    return 0.5 * sum((vb + va) * (b - a) for a, b, va, vb in zip(knots, knots[1:], vals, vals[1:])) / (t1 - t0)


def _avgs_ref(ts, us, d):
    init, slots = _slots(ts, us)
    if ts[-1] == 0:
        return init
    pts = [[0.0, 0.0]] * d + [[0.0, init]] + slots
    pts = pts[-(d + 1):]
    span = pts[-1][0] - pts[0][0]
    if span <= 0 or any(b[0] < a[0] for a, b in zip(pts, pts[1:])):
        return None
    return 0.5 * sum((b[1] + a[1]) * (b[0] - a[0]) for a, b in zip(pts, pts[1:])) / span


DO = {'lim': do_lim, 'aw': do_aw, 'rate': do_rate, 'lt': do_cmp, 'iseq': do_cmp, 'sw': do_sw, 'sel': do_sel, 'dbrt': do_dbrt,
      'srt': do_srt, 'dstep': do_hist, 'dtime': do_hist, 'avgs': do_hist, 'avgt': do_hist, 'deriv': do_hist, 'smp': do_hist}


def exec_case(case):
    R = Res()
    DO[case['kind']](case, R)
    return R


NAN_RE = None


def canon_nan(s):
    global NAN_RE
    import re
    if NAN_RE is None:
        NAN_RE = re.compile(r'(?<![0-9a-f])[7f]ff[0-9a-f]{13}(?![0-9a-f])')
    return NAN_RE.sub(lambda m: '7ff8000000000000' if int(m.group(0)[3:], 16) != 0 else m.group(0), s)


def same(impl, model, tol):
    if impl == model:
        return True
    impl, model = canon_nan(impl), canon_nan(model)   # the sign / payload of a NaN is not a value
    if impl == model:
        return True
    if tol != 'avg':
        return False
    a, b = impl.split('|'), model.split('|')
    if len(a) != len(b) or a[1:] != b[1:]:
        # stamps / memory must still agree exactly
        return False
    xa, xb = a[0].split(';'), b[0].split(';')
    if len(xa) != len(xb):
        return False
    for p, q in zip(xa, xb):
        if p == q:
            continue
        if p == 'bad' or q == 'bad' or p[-2:] != q[-2:]:
            return False
        u, v = C.h2f(p[:16]), C.h2f(q[:16])
        if u != u and v != v:
            continue
        if not abs(u - v) <= 1e-9 * (1 + abs(u)):
            return False
    return True


def check_cases(ctx, cases):
    rs = [exec_case(c) for c in cases]
    lines = [l for r in rs for l in r.lines]
    outs = ctx.driver.ask(lines)
    p = 0
    for case, r in zip(cases, rs):
        ctx.traces += 1
        sig = json.dumps(case, sort_keys=True)
        ctx.case(sig if r.nontrivial else None, {'case': case, 'impl': r.impl[:3]})
        ctx.count('kind:' + case['kind'])
        ctx.count('driver_lines', len(r.lines))
        for k, v in r.counts.items():
            ctx.count(k, v)
        for j, (impl, tol) in enumerate(zip(r.impl, r.tol)):
            model = outs[p + j]
            if not same(impl, model, tol):
                ctx.disagree(case['kind'], case, impl[:1500], model[:1500])
                break
        p += len(r.lines)
        for key, what in r.fails:
            ctx.oracle_fail(key, what, case)
    return rs


def corpus_cases():
    return [json.load(open(f)) for f in sorted(glob.glob(os.path.join(CORPUS, '*.json')))]


def repo_root():
    import andes
    return os.path.dirname(os.path.dirname(os.path.abspath(andes.__file__)))


def run(ctx):
    import andes
    andes.config_logger(stream_level=50)
    cs = corpus_cases()
    ctx.count('corpus', len(cs))
    cs += [gen_case(ctx.rng) for _ in range(ctx.n(6000, 60000))]
    check_cases(ctx, cs)
    from harness import c09_sim
    c09_sim.run(ctx)
    root = repo_root()
    hs = {}
    for name in ('Limiter.check_var', 'Limiter.do_adjust_lower', 'Limiter.do_adjust_upper', 'AntiWindup.check_eq',
                 'RateLimiter.check_eq', 'AntiWindupRate.check_eq', 'SortedLimiter.check_var', 'SortedLimiter.calc_select',
                 'LessThan.check_var', 'IsEqual.check_var', 'Switcher.check_var', 'Selector.check_var', 'DeadBandRT.check_var',
                 'Delay.check_var', 'Average.check_var', 'Derivative.check_var', 'Sampling.check_var'):
        hs[name] = C.hash_source(root + '/andes/core/discrete.py', name)
    hs['System.fg_to_dae'] = C.hash_source(root + '/andes/system.py', 'System.fg_to_dae')
    hs['Model.l_check_eq'] = C.hash_source(root + '/andes/core/model/model.py', 'Model.l_check_eq')
    ctx.cov['source_hashes'] = hs
    keys = {}
    for f in ctx.oracle_failures + ctx.known_hits:
        keys[f['key']] = keys.get(f['key'], 0) + 1
    ctx.cov['oracle_failure_keys'] = keys
    ctx.cov['repo_root'] = root


def search(ctx):
    rng = random.Random(ctx.seed * 7919 + 9)
    cs = [d['case'] for d in ctx.disagreements[:40] if isinstance(d['case'], dict)]
    cs += [gen_case(rng) for _ in range(ctx.n(8000, 40000))]
    for case in cs:
        for key, what in exec_case(case).fails:
            ctx.oracle_fail(key, what, case)


def replay(ctx, rep):
    import andes
    andes.config_logger(stream_level=50)
    case = rep['case']
    if isinstance(case, dict) and case.get('kind') == 'sim':
        from harness import c09_sim
        bad = c09_sim.replay(case)
    else:
        bad = exec_case(case).fails
    for key, what in bad:
        print('  ', key, what)
    return not bad
