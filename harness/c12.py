"""C12 — island detection and status propagation match the network graph.

Lean: Andes/Props/C12.lean (model Andes/Model/Island.lean).
Tie: generated Bus/Line/Jumper/PQ/PV/Slack/Shunt systems are set up with the REAL andes code; for many
in/out-of-service patterns the REAL System.connectivity() is called and islanded_buses / island_sets /
nosw_island / msw_island / islands are compared (order included) with the model run by the Lean driver on
the same edge list; scripts of Bus.set/alter('u') + ConnMan.init/record/act are run on the REAL ConnMan and
every intermediate (error kind, busu0, changes, is_needed, status of every dependent device) is compared;
System.g_islands / j_islands are compared on the real dae.g / dae.gy pattern.
Oracle (independent of the model): union-find components, degree-zero vertices, slack counts, 'device off
iff it was off or sits on a switched-off bus', rows/columns of isolated buses in gy, power-flow convergence
with isolated loaded buses."""
import glob
import json
import os
import random
import traceback

from harness import common as C

PROP_MODULES = ['Andes.Props.C12', 'Andes.Props.C12Acc']
RULE = ('connectivity case = (generated topology of 1-14 buses: tree / ring / random multigraph / many islands / '
        'self loop, lines and jumpers, 0-3 slacks) x (on/off pattern of every line, jumper, slack: random density, '
        'all on, all off, single outage, slack disconnected); ConnMan case = (topology, buses off in the data, '
        'script of Bus.set/alter u=0/1 on one or several buses, act); distinct = distinct (topology, pattern) or '
        '(topology, script); non-trivial = at least one in-service edge and (>= 2 islands or an isolated bus), or a '
        'script that switches at least one bus')
ASSUMPTIONS = [
    'statuses are exactly 0 or 1 (the sparse pattern of products of statuses is then the boolean pattern; '
    'fractional statuses are outside the modelled domain)',
    'series devices are Line and Jumper (Fortescue legs enter System.connectivity the same way, the model takes any edge list)',
    'ConnMan is modelled with TDS.initialized == False (act raises NotImplementedError otherwise, by design)',
    'the ipadd branch of j_islands is modelled (config.ipadd = 1 with kvxopt >= 1.2.6, the default)',
    'power-flow convergence with isolated buses is tested on the real code only (runtime residue)',
]
CORPUS = os.path.join(C.ROOT, 'corpus', 'c12')
# the harness's own copy of the dependency table (bus_deps of the pinned tree): the model and the oracle are fed
# from THIS table, so a change of andes.core.connman.bus_deps shows up as a disagreement / oracle failure
DEPS = [('ACLine', ['bus1', 'bus2']), ('ACShort', ['bus1', 'bus2']), ('FreqMeasurement', ['bus']), ('Interface', ['bus']),
        ('Motor', ['bus']), ('PhasorMeasurement', ['bus']), ('StaticACDC', ['bus']), ('StaticGen', ['bus']),
        ('StaticLoad', ['bus']), ('StaticShunt', ['bus'])]


# ------------------------------------------------------------------ generators (ctx.rng only)

def gen_topology(rng):
    kind = rng.choice(['tree', 'ring', 'multi', 'islands', 'random', 'random', 'tiny', 'selfloop'])
    n = rng.choice([1, 2, 3]) if kind == 'tiny' else rng.randint(2, 14)
    edges = []
    if kind == 'tree':
        for i in range(1, n):
            edges.append((rng.randrange(i), i))
    elif kind == 'ring':
        for i in range(n):
            edges.append((i, (i + 1) % n))
        if n == 2:
            edges = edges[:1]
    elif kind == 'multi':
        for i in range(1, n):
            edges.append((rng.randrange(i), i))
        for _ in range(rng.randint(1, 4)):
            edges.append(rng.choice(edges)[::rng.choice([1, -1])])
    elif kind == 'islands':
        # several chains
        cuts = sorted(rng.sample(range(1, n), min(n - 1, rng.randint(1, 4)))) if n > 1 else []
        for i in range(1, n):
            if i not in cuts:
                edges.append((i - 1, i))
    else:
        m = rng.randint(0, 2 * n)
        for _ in range(m):
            a, b = rng.randrange(n), rng.randrange(n)
            if a != b:
                edges.append((a, b))
    if kind == 'selfloop' and n >= 1:
        b = rng.randrange(n)
        edges.append((b, b))
    # shuffle bus numbering so that uid order is not the construction order
    perm = list(range(n))
    rng.shuffle(perm)
    edges = [(perm[a], perm[b]) if rng.random() < 0.5 else (perm[b], perm[a]) for a, b in edges]
    rng.shuffle(edges)
    lines, jumpers = [], []
    for e in edges:
        (jumpers if rng.random() < 0.25 else lines).append([e[0], e[1], 1])
    idx = rng.sample(range(1, 60), n)
    ns = rng.choice([0, 1, 1, 1, 2, 3])
    slack = [[rng.randrange(n), 1] for _ in range(ns)]
    pv = [rng.randrange(n) for _ in range(rng.randint(0, 3))]
    if rng.random() < 0.4 and slack:
        pv.append(slack[0][0])          # PV and Slack (two models of StaticGen) on one bus
    pq = [rng.randrange(n) for _ in range(rng.randint(0, n))]
    shunt = [rng.randrange(n) for _ in range(rng.randint(0, 2))]
    return {'kind': kind, 'n': n, 'idx': idx, 'lines': lines, 'jumpers': jumpers, 'slack': slack, 'pv': pv,
            'pq': pq, 'shunt': shunt}


def gen_pattern(rng, topo):
    nl, nj, ns = len(topo['lines']), len(topo['jumpers']), len(topo['slack'])
    r = rng.random()
    if r < 0.12:
        lu, ju = [1] * nl, [1] * nj
    elif r < 0.22:
        lu, ju = [0] * nl, [0] * nj
    elif r < 0.34 and nl + nj:
        lu, ju = [1] * nl, [1] * nj
        k = rng.randrange(nl + nj)
        if k < nl:
            lu[k] = 0
        else:
            ju[k - nl] = 0
    elif r < 0.44 and nl + nj:
        lu, ju = [0] * nl, [0] * nj
        for _ in range(rng.randint(1, 2)):
            k = rng.randrange(nl + nj)
            if k < nl:
                lu[k] = 1
            else:
                ju[k - nl] = 1
    elif r < 0.52 and ns:
        # disconnect the (first) slack bus
        b = topo['slack'][0][0]
        lu = [0 if b in e[:2] else 1 for e in topo['lines']]
        ju = [0 if b in e[:2] else 1 for e in topo['jumpers']]
    else:
        p = rng.choice([0.3, 0.5, 0.7, 0.9])
        lu = [int(rng.random() < p) for _ in range(nl)]
        ju = [int(rng.random() < p) for _ in range(nj)]
    su = [int(rng.random() < 0.8) for _ in range(ns)]
    return {'lu': lu, 'ju': ju, 'su': su}


def gen_script(rng, topo):
    n = topo['n']
    r = rng.random()
    u0 = [1] * n
    if r < 0.15:
        u0[rng.randrange(n)] = 0
    elif r < 0.2 and n >= 2:
        for b in rng.sample(range(n), 2):
            u0[b] = 0
    ops = [['i']]
    alive = [b for b in range(n) if u0[b]]
    style = rng.choice(['single', 'single', 'seq', 'seq', 'batch', 'mixed', 'onoff', 'noop'])
    if style == 'single' and alive:
        ops += [['s', [rng.choice(alive)], 0], ['a']]
    elif style == 'seq' and alive:
        acts_between = rng.random() < 0.5
        for b in rng.sample(alive, min(len(alive), rng.randint(2, 3))):
            ops.append(['s', [b], 0])
            if acts_between:
                ops.append(['a'])
        ops.append(['a'])
    elif style == 'batch' and len(alive) >= 2:
        ops += [['s', sorted(rng.sample(alive, rng.randint(2, min(3, len(alive))))), 0], ['a']]
    elif style == 'mixed' and alive:
        for _ in range(rng.randint(1, 4)):
            k = rng.random()
            if k < 0.5:
                ops.append(['s', [rng.randrange(n)], 0])
            elif k < 0.6:
                ops.append(['s', [rng.randrange(n)], 1])
            else:
                ops.append(['a'])
        ops.append(['a'])
    elif style == 'onoff' and alive:
        b = rng.choice(alive)
        ops += [['s', [b], 0], ['a'], ['s', [b], 1], ['a']]
    else:
        ops += [['a'], ['s', [rng.randrange(n)], 1], ['a']]
    lu = [int(rng.random() < 0.85) for _ in topo['lines']]
    ju = [int(rng.random() < 0.85) for _ in topo['jumpers']]
    return {'u0': u0, 'ops': ops, 'lu': lu, 'ju': ju}


def gen_spec(rng, npat, nscr):
    topo = gen_topology(rng)
    return {'topo': topo, 'patterns': [gen_pattern(rng, topo) for _ in range(npat)],
            'scripts': [gen_script(rng, topo) for _ in range(nscr)],
            'neutral': rng.random() < 0.5, 'pflow': rng.random() < 0.35}


# ------------------------------------------------------------------ the real code

def build_system(topo):
    import andes
    ss = andes.System(no_output=True, default_config=True)
    idx = topo['idx']
    for i in range(topo['n']):
        ss.add('Bus', dict(idx=idx[i], name='B%d' % i, Vn=110))
    for k, (f, t, u) in enumerate(topo['lines']):
        ss.add('Line', dict(idx='L%d' % k, bus1=idx[f], bus2=idx[t], u=u, x=0.1, r=0.01, b=0.02, Vn1=110, Vn2=110))
    for k, (f, t, u) in enumerate(topo['jumpers']):
        ss.add('Jumper', dict(idx='J%d' % k, bus1=idx[f], bus2=idx[t], u=u))
    for k, b in enumerate(topo['pq']):
        ss.add('PQ', dict(idx='PQ%d' % k, bus=idx[b], p0=0.05, q0=0.02, Vn=110))
    for k, b in enumerate(topo['pv']):
        ss.add('PV', dict(idx='PV%d' % k, bus=idx[b], p0=0.02, v0=1.0, Vn=110))
    for k, (b, u) in enumerate(topo['slack']):
        ss.add('Slack', dict(idx='S%d' % k, bus=idx[b], u=u, v0=1.0, Vn=110))
    for k, b in enumerate(topo['shunt']):
        ss.add('Shunt', dict(idx='SH%d' % k, bus=idx[b], g=0.01, b=0.02, Vn=110))
    ss.setup()
    return ss


def err_kind(e):
    n = type(e).__name__
    return n if n in ('IndexError', 'KeyError', 'NotImplementedError') else 'Other:' + n


def conn_obs(ss):
    B = ss.Bus
    return {'islanded': [int(x) for x in B.islanded_buses], 'sets': [[int(x) for x in s] for s in B.island_sets],
            'nosw': [int(x) for x in B.nosw_island], 'msw': [int(x) for x in B.msw_island],
            'islands': [[int(x) for x in s] for s in B.islands]}


def edges_now(ss):
    """what System.connectivity reads: addresses and statuses of Line and Jumper"""
    es = []
    for m in (ss.Line, ss.Jumper):
        for f, t, u in zip(m.a1.a.tolist(), m.a2.a.tolist(), m.u.v.tolist()):
            es.append([int(f), int(t), int(u)])
    return es


def slacks_now(ss):
    return [[int(u), int(b)] for u, b in zip(ss.Slack.u.v.tolist(), ss.Bus.idx2uid(ss.Slack.bus.v))]


def groups_now(ss):
    """devices of the bus-dependent groups in bus_deps order: [nsrc, [[ [id,u,b...], ...] per model]]"""
    out = []
    for gname, srcs in DEPS:
        grp = ss.__dict__[gname]
        ids = {}
        models = []
        for mdl in grp.models.values():
            devs = []
            for k in range(mdl.n):
                did = ids.setdefault(mdl.idx.v[k], len(ids))
                devs.append([did, int(mdl.u.v[k])] + [int(mdl.__dict__[s].v[k]) for s in srcs])
            models.append(devs)
        out.append([len(srcs), models])
    return out


def dev_status(ss):
    out = []
    for gname, _ in DEPS:
        for mdl in ss.__dict__[gname].models.values():
            out += [int(x) for x in mdl.u.v]
    return out


def run_script(ss, sc, saved):
    from andes.core.connman import ConnMan
    for name, v in saved.items():
        ss.__dict__[name].u.v[:] = v
    ss.Line.u.v[:] = sc['lu']
    ss.Jumper.u.v[:] = sc['ju']
    ss.Bus.u.v[:] = sc['u0']
    ss.conn = ConnMan(ss)
    obs = {'groups': groups_now(ss), 'snaps': [], 'dev0': dev_status(ss)}
    for op in sc['ops']:
        err = 'ok'
        try:
            if op[0] == 'i':
                ss.conn.init()
            elif op[0] == 'a':
                ss.conn.act()
            else:
                ids = [ss.Bus.idx.v[u] for u in op[1]]
                if len(ids) == 1:
                    ss.Bus.alter('u', ids[0], op[2])
                else:
                    ss.Bus.set(src='u', idx=ids, attr='v', value=op[2])
        except Exception as e:      # noqa
            err = err_kind(e)
        cm = ss.conn
        obs['snaps'].append([err, [int(x) for x in cm.busu0], [int(x) for x in cm.changes['on']],
                             [int(x) for x in cm.changes['off']], int(bool(cm.is_needed)), dev_status(ss)])
    obs['bus_u'] = [int(x) for x in ss.Bus.u.v]
    obs['edges_end'] = edges_now(ss)
    try:
        obs['conn_as_left'] = conn_obs(ss)       # what the code itself left behind, before the harness asks again
    except Exception as e:      # noqa
        obs['conn_as_left'] = {'error': err_kind(e)}
    try:
        ss.connectivity(info=False)
        obs['conn_end'] = conn_obs(ss)
    except Exception as e:      # noqa
        obs['conn_end'] = {'error': err_kind(e)}
    return obs


def neutral_obs(ss, rng):
    """g_islands / j_islands on the real dae after a power-flow initialisation"""
    import numpy as np
    out = {}
    n = ss.Bus.n
    ss.connectivity(info=False)
    isl = [int(x) for x in ss.Bus.islanded_buses]
    out['isl'] = isl
    g = np.array([rng.uniform(0.5, 2.0) for _ in range(ss.dae.m)])
    ss.dae.g[:] = g
    ss.g_islands()
    out['g'] = ''.join('z' if ss.dae.g[i] == 0.0 else ('k' if ss.dae.g[i] == g[i] else '?') for i in range(ss.dae.m))
    ss.PFlow.init()
    ss.connectivity(info=False)
    # j_update = assemble + j_islands; look at the effect of j_islands alone on the assembled matrix
    ss.j_update(models=ss.exist.pflow)
    gy = ss.dae.gy
    I, J, V = list(gy.I), list(gy.J), list(gy.V)
    out['gy_after'] = [[int(i), int(j), float(v)] for i, j, v in zip(I, J, V)]
    # mark every stored entry with a sentinel, apply j_islands, read the classes back
    from kvxopt import spmatrix
    sent = spmatrix([7.25] * len(I), I, J, gy.size, 'd')
    ss.dae.gy = sent
    ss.j_islands()
    eps = ss.config.diag_eps
    out['pairs'] = [[int(i), int(j)] for i, j in zip(sent.I, sent.J)]
    out['mask'] = ''.join('k' if v == 7.25 else ('e' if v == eps else ('z' if v == 0.0 else '?')) for v in sent.V)
    out['eps'] = eps
    out['m'] = int(ss.dae.m)
    ss.dae.gy = gy
    return out


def pflow_obs(ss):
    """isolated buses (possibly loaded) next to ONE island with exactly one enabled slack: must converge"""
    ss.connectivity(info=False)
    B = ss.Bus
    ok_shape = len(B.island_sets) == 1 and not B.nosw_island and not B.msw_island and len(B.islanded_buses) >= 1
    if not ok_shape:
        return None
    try:
        conv = bool(ss.PFlow.run())
    except Exception as e:     # noqa
        return {'error': err_kind(e) + ':' + str(e)[:80]}
    import numpy as np
    return {'converged': conv, 'mis': float(np.max(np.abs(ss.dae.g))) if ss.dae.m else 0.0,
            'isolated': [int(x) for x in B.islanded_buses],
            'loaded': sorted(set(int(x) for x in B.idx2uid(ss.PQ.bus.v)) & set(int(x) for x in B.islanded_buses))}


def worker(spec):
    import andes
    andes.config_logger(stream_level=50)
    rng = random.Random(json.dumps(spec['topo'], sort_keys=True))
    res = {'patterns': [], 'scripts': [], 'neutral': None, 'pflow': None, 'error': None}
    try:
        ss = build_system(spec['topo'])
        saved = {name: mdl.u.v.copy() for name, mdl in ss.models.items() if mdl.n > 0 and hasattr(mdl, 'u')}
        for pat in spec['patterns']:
            ss.Line.u.v[:] = pat['lu']
            ss.Jumper.u.v[:] = pat['ju']
            ss.Slack.u.v[:] = pat['su']
            o = {'edges': edges_now(ss), 'slacks': slacks_now(ss)}
            try:
                ss.connectivity(info=False)
                o.update(conn_obs(ss))
            except Exception as e:      # noqa
                o['error'] = err_kind(e)
            res['patterns'].append(o)
        for sc in spec['scripts']:
            res['scripts'].append(run_script(ss, sc, saved))
        if spec.get('neutral') or spec.get('pflow'):
            from andes.core.connman import ConnMan
            for name, v in saved.items():
                ss.__dict__[name].u.v[:] = v
            ss.conn = ConnMan(ss)
            ss.conn.init()
            pats = [p for p in spec['patterns'] if any(p['lu']) or any(p['ju'])]
            if pats and spec.get('neutral'):
                pat = pats[0]
                ss.Line.u.v[:] = pat['lu']
                ss.Jumper.u.v[:] = pat['ju']
                res['neutral'] = neutral_obs(ss, rng)
            if spec.get('pflow'):
                for pat in pats[:6]:
                    ss.Line.u.v[:] = pat['lu']
                    ss.Jumper.u.v[:] = pat['ju']
                    ss.Slack.u.v[:] = pat['su']
                    r = pflow_obs(ss)
                    if r is not None:
                        r['pattern'] = pat
                        res['pflow'] = r
                        break
    except Exception:      # noqa
        res['error'] = traceback.format_exc()[-1200:]
    return spec, res


def run_many(specs, procs=14):
    import multiprocessing as mp
    if len(specs) < 3:
        return [worker(s) for s in specs]
    with mp.get_context('fork').Pool(procs) as pool:
        return pool.map(worker, specs, chunksize=1)


def tds_worker(job):
    """a stock dynamic case with Toggles on lines: System.connectivity must be re-run at every switch time and
    report the components of the statuses valid from that time on (tds.py: 'check system connectivity after a switching')"""
    import andes
    andes.config_logger(stream_level=50)
    try:
        ss = andes.load(andes.get_case('kundur/kundur_full.xlsx'), setup=False, no_output=True, default_config=True)
        for k, (li, t) in enumerate(job['toggles']):
            ss.add('Toggle', dict(idx='TG%d' % k, model='Line', dev=ss.Line.idx.v[li], t=t))
        ss.setup()
        if not ss.PFlow.run():
            return job, {'skip': 'pflow'}
        calls = []
        orig = ss.connectivity

        def wrap(info=True):
            orig(info=info)
            calls.append({'t': float(ss.dae.t), 'edges': edges_now(ss), 'obs': conn_obs(ss)})
        ss.connectivity = wrap
        ss.TDS.config.tf = job['tf']
        ss.TDS.config.no_tqdm = 1
        try:
            import contextlib
            import io
            with contextlib.redirect_stdout(io.StringIO()):
                ss.TDS.run()
                if job.get('custom'):
                    # a topology change made between two runs and signalled through TDS.custom_event (what a
                    # perturbation file or an EventFlag does): all lines between one pair of buses are opened,
                    # chosen so that no bus loses its last line
                    pairs = {}
                    for k, (a, b, u) in enumerate(edges_now(ss)):
                        if u:
                            pairs.setdefault((min(a, b), max(a, b)), []).append(k)
                    deg = {}
                    for (a, b), ks in pairs.items():
                        deg[a] = deg.get(a, 0) + 1
                        deg[b] = deg.get(b, 0) + 1
                    cand = sorted(p for p in pairs if deg[p[0]] > 1 and deg[p[1]] > 1)
                    pick = cand[job['custom'] % len(cand)]
                    for k in pairs[pick]:
                        ss.Line.alter('u', ss.Line.idx.v[k], 0)
                    ss.TDS.custom_event = True
                    ss.TDS.config.tf = job['tf'] + 0.3
                    ss.TDS.run()
        except Exception as e:      # noqa
            return job, {'n': int(ss.Bus.n), 'calls': calls, 'exc': err_kind(e), 'line_u': [int(x) for x in ss.Line.u.v]}
        return job, {'n': int(ss.Bus.n), 'calls': calls, 'line_u': [int(x) for x in ss.Line.u.v], 'end': conn_obs(ss),
                     'edges_end': edges_now(ss), 't_end': float(ss.dae.t)}
    except Exception:      # noqa
        return job, {'skip': traceback.format_exc()[-300:]}


def check_tds(ctx, njobs):
    import multiprocessing as mp
    jobs = []
    for _ in range(njobs):
        k = ctx.rng.choice([1, 2, 3])
        lines = ctx.rng.sample(range(15), k)
        jobs.append({'toggles': [[li, round(0.1 * (i + 1), 3)] for i, li in enumerate(lines)], 'tf': round(0.1 * k + 0.05, 3)})
    for _ in range(max(2, njobs // 3)):
        jobs.append({'toggles': [], 'tf': 0.2, 'custom': ctx.rng.randrange(1, 1000)})
    with mp.get_context('fork').Pool(min(4, len(jobs))) as pool:
        res = pool.map(tds_worker, jobs, chunksize=1)
    lines, exp = [], []
    for job, r in res:
        ctx.case(json.dumps(job), None)
        if 'skip' in r:
            ctx.count('tds:skipped')
            continue
        ctx.count('tds:runs')
        ctx.count('tds:connectivity_calls', len(r['calls']))
        case = {'tds': job}
        for c in r['calls']:
            if 'error' not in c['obs']:
                for key, what in oracle_connectivity(r['n'], c['edges'], [], dict(c['obs'], nosw=list(range(len(c['obs']['sets']))), msw=[])):
                    ctx.oracle_fail('tds-' + key, 'during TDS at t=%r: %s' % (c['t'], what), case)
                lines.append(isl_line(r['n'], c['edges'], []))
                exp.append(isl_impl(dict(c['obs'], nosw=[], msw=[])).split('|N=')[0])
        if 'exc' in r:
            ctx.count('tds:exception:' + r['exc'])
            continue
        for li, t in job['toggles']:
            if t <= r['t_end'] and not any(c['t'] == t and c['edges'][li][2] == 0 for c in r['calls']):
                ctx.oracle_fail('tds-no-recheck-after-switch', 'no connectivity check with the new status of line %d at the switch time %r' % (li, t), case)
        iso, comps = components(r['n'], r['edges_end'])
        if sorted(sorted(x) for x in r['end']['sets']) != comps or r['end']['islanded'] != iso:
            ctx.oracle_fail('tds-stale-islands', 'after the run Bus.island_sets %r / islanded %r do not match the final statuses'
                            % (r['end']['sets'], r['end']['islanded']), case)
    outs = ctx.driver.ask(lines)
    for ln, e, o in zip(lines, exp, outs):
        if e != o.split('|N=')[0]:
            ctx.disagree('connectivity-in-tds', ln, e, o)


# ------------------------------------------------------------------ model lines

def nats(l):
    return ','.join(str(x) for x in l) or '-'


def sets_str(l):
    return ';'.join(nats(s) for s in l) or '-'


def isl_line(n, edges, slacks):
    return 'island isl %d %s %s' % (n, ';'.join('%d,%d,%d' % tuple(e) for e in edges) or '-',
                                    ';'.join('%d,%d' % tuple(s) for s in slacks) or '-')


def isl_impl(o):
    if 'error' in o:
        return 'ERR:' + o['error']
    return 'I=%s|S=%s|N=%s|M=%s|A=%s' % (nats(o['islanded']), sets_str(o['sets']), nats(o['nosw']), nats(o['msw']),
                                         sets_str(o['islands']))


def bits(l):
    return ''.join(str(int(x)) for x in l) or '-'


def cm_line(topo, sc, obs):
    gs = []
    for nsrc, models in obs['groups']:
        if not models:
            gs.append('%d:~' % nsrc)
        else:
            gs.append('%d:%s' % (nsrc, '|'.join('+'.join(','.join(str(x) for x in d) for d in m) or '-' for m in models)))
    ops = []
    for op in sc['ops']:
        ops.append(op[0] if op[0] in 'ia' else 's%d:%s' % (op[2], nats(op[1])))
    return 'island cm %s %s %s %s' % (nats(topo['idx']), bits(sc['u0']), '/'.join(gs), ';'.join(ops))


def cm_impl(obs):
    return ';'.join(' '.join([s[0], bits(s[1]), bits(s[2]), bits(s[3]), str(s[4]), bits(s[5])]) for s in obs['snaps'])


# ------------------------------------------------------------------ property oracle (independent of the model)

def components(n, edges):
    """union-find over in-service edges: (isolated vertices, sorted list of sorted components of the others)"""
    parent = list(range(n))

    def find(x):
        while parent[x] != x:
            parent[x] = parent[parent[x]]
            x = parent[x]
        return x
    touched = set()
    for f, t, u in edges:
        if u:
            touched.add(f)
            touched.add(t)
            a, b = find(f), find(t)
            if a != b:
                parent[a] = b
    comps = {}
    for v in sorted(touched):
        comps.setdefault(find(v), []).append(v)
    return [v for v in range(n) if v not in touched], sorted(comps.values())


def oracle_connectivity(n, edges, slacks, o):
    bad = []
    iso, comps = components(n, edges)
    if 'error' in o:
        if o['error'] == 'IndexError' and len(iso) == n:
            bad.append(('all-islanded-indexerror', 'System.connectivity raises IndexError when every bus is isolated '
                        '(all series devices out of service): the start-bus scan walks past n'))
        else:
            bad.append(('connectivity-exception:' + o['error'], 'System.connectivity raised ' + o['error']))
        return bad
    if o['islanded'] != iso:
        bad.append(('islanded-buses-wrong', 'islanded_buses %r, degree-zero vertices %r' % (o['islanded'], iso)))
    if sorted(sorted(s) for s in o['sets']) != comps:
        bad.append(('island-sets-wrong', 'island_sets %r, components %r' % (o['sets'], comps)))
    if sorted(sorted(s) for s in o['islands']) != sorted([[v] for v in iso] + comps):
        bad.append(('islands-wrong', 'islands %r do not partition the buses into components' % (o['islands'],)))
    for k, isl in enumerate(o['sets']):
        cnt = sum(1 for u, b in slacks if u == 1 and b in isl)
        if (k in o['nosw']) != (cnt == 0) or (k in o['msw']) != (cnt >= 2):
            bad.append(('slack-classification-wrong', 'island %r has %d enabled slacks, nosw=%r msw=%r'
                        % (isl, cnt, o['nosw'], o['msw'])))
    if any(k >= len(o['sets']) for k in o['nosw'] + o['msw']):
        bad.append(('slack-classification-wrong', 'nosw/msw index outside island_sets'))
    return bad


def oracle_script(topo, sc, obs):
    """after the closing act(): a dependent device is off iff it was off or one of its bus fields names a bus that is off"""
    bad = []
    ops = sc['ops']
    if any(op[0] == 's' and op[2] == 1 for op in ops):
        return bad          # switching a bus on is documented as unsupported; not judged
    errs = [s[0] for s in obs['snaps']]
    idx = topo['idx']
    off_buses = set(idx[b] for b in range(topo['n']) if not obs['bus_u'][b])
    if 'KeyError' in errs:
        bad.append(('bus-off-none-keyerror', 'ConnMan.act raises KeyError (idx=None reaches Group.set) when two or more '
                    'buses are off in one recorded change'))
        return bad
    if 'IndexError' in errs:
        bad.append(('all-islanded-indexerror', 'System.connectivity (called by ConnMan.act) raises IndexError: every bus isolated'))
        return bad
    other = [e for e in errs if e != 'ok']
    if other:
        bad.append(('connman-exception:' + other[0], 'ConnMan raised ' + other[0]))
        return bad
    if ops[-1][0] != 'a':
        return bad
    final = obs['snaps'][-1][5]
    k = 0
    # which buses were present in changes['off'] when some act() ran (record() overwrites, it does not accumulate)
    cur = list(sc['u0'])
    acted = set(idx[b] for b in range(topo['n']) if not cur[b])
    pending = None
    for op in ops[1:]:
        if op[0] == 's':
            pending = set(idx[b] for b in op[1] if cur[b] == 1)
            for b in op[1]:
                cur[b] = 0
        elif op[0] == 'a' and pending is not None:
            acted |= pending
            pending = None
    for nsrc, models in obs['groups']:
        on_bus_by_model = [set(b for d in m for b in d[2:]) for m in models]
        for mi, m in enumerate(models):
            for d in m:
                want_off = (d[1] == 0) or any(b in off_buses for b in d[2:])
                got_off = final[k] == 0
                k += 1
                if want_off and not got_off:
                    hit = [b for b in d[2:] if b in off_buses]
                    earlier_model = any(hit[0] in on_bus_by_model[j] for j in range(mi))
                    if all(h not in acted for h in hit):
                        bad.append(('record-overwrites-off', 'device on bus %r stays on: the bus was switched off, then another '
                                    'Bus.set was recorded before act() (ConnMan.record overwrites changes[off])' % hit[0]))
                    elif earlier_model:
                        bad.append(('find-idx-first-model-only', 'device of the second model of a group stays on after its bus '
                                    '%r is switched off (Group.find_idx(allow_all=True) returns the first model only)' % hit[0]))
                    else:
                        bad.append(('bus-off-device-stays-on', 'device on bus %r stays on after the bus was switched off and act() ran' % hit[0]))
                elif got_off and not want_off:
                    bad.append(('bus-off-extra-device', 'a device not attached to any switched-off bus was turned off'))
    # act() has switched devices: the islands it leaves behind are those of the statuses it has just written
    n = topo['n']
    left = obs.get('conn_as_left')
    # (only when the last act() had something to do: otherwise it returns at once and says nothing about islands)
    acted_last = len(obs['snaps']) >= 2 and obs['snaps'][-2][4] == 1 and any(obs['snaps'][-2][3])
    if acted_last and left is not None and 'error' not in left and 'error' not in obs['conn_end']:
        if sorted(sorted(x) for x in left['sets']) != sorted(sorted(x) for x in obs['conn_end']['sets']) or \
                sorted(left['islanded']) != sorted(obs['conn_end']['islanded']):
            bad.append(('stale-islands-after-act', 'after ConnMan.act() switched devices off, Bus.islanded_buses / island_sets still '
                        'describe the old statuses (%r / %r; a fresh connectivity check gives %r / %r)'
                        % (left['islanded'], left['sets'][:3], obs['conn_end']['islanded'], obs['conn_end']['sets'][:3])))
    # the islands reported after the scripts match the final graph
    if 'error' not in obs['conn_end']:
        for key, what in oracle_connectivity(n, obs['edges_end'], [], dict(obs['conn_end'], nosw=list(range(len(obs['conn_end']['sets']))), msw=[])):
            bad.append((key, 'after act(): ' + what))
    return bad


def oracle_neutral(topo, o):
    bad = []
    n, isl = topo['n'], set(o['isl'])
    for i, c in enumerate(o['g']):
        want = 'z' if (i in isl or (i - n) in isl and i >= n) else 'k'
        if i < 2 * n and c != want:
            bad.append(('g-islands-wrong', 'dae.g[%d] is %s after g_islands, isolated buses %r' % (i, c, sorted(isl))))
            break
    eps = o['eps']
    rows = set(isl) | set(n + b for b in isl)
    # bus-level decoupling: within the 2n bus equations/variables an isolated bus keeps only its eps diagonals
    # (equations of devices sitting on the bus may still mention its variables; that cannot make gy singular)
    for i, j, v in o['gy_after']:
        if (i in rows or j in rows) and i < 2 * n and j < 2 * n:
            if i == j and v != eps:
                bad.append(('gy-diagonal-not-eps', 'gy[%d,%d] = %r for an isolated bus (expected diag_eps)' % (i, j, v)))
                break
            if i != j and v != 0.0:
                bad.append(('gy-isolated-coupling', 'gy[%d,%d] = %r couples an isolated bus to a bus variable' % (i, j, v)))
                break
    for b in isl:
        for d in (b, n + b):
            if not any(i == d and j == d for i, j, v in o['gy_after']):
                bad.append(('gy-diagonal-missing', 'no stored gy diagonal for isolated variable %d' % d))
    return bad


# ------------------------------------------------------------------ check

def corpus_specs():
    return [json.load(open(f)) for f in sorted(glob.glob(os.path.join(CORPUS, '*.json')))]


def check_specs(ctx, specs, with_model=True):
    results = run_many(specs)
    lines, where = [], []
    for si, (spec, res) in enumerate(results):
        topo = spec['topo']
        if res['error']:
            ctx.count('harness_build_error')
            ctx.oracle_fail('build-exception:' + res['error'].strip().split('\n')[-1][:60],
                            'building / driving the generated system raised: ' + res['error'].strip().split('\n')[-1][:200], spec)
            continue
        for pi, o in enumerate(res['patterns']):
            lines.append(isl_line(topo['n'], o['edges'], o['slacks']))
            where.append(('isl', si, pi))
        for ki, obs in enumerate(res['scripts']):
            lines.append(cm_line(topo, spec['scripts'][ki], obs))
            where.append(('cm', si, ki))
        if res['neutral']:
            o = res['neutral']
            lines.append('island neu %d %s %d %s' % (topo['n'], nats(o['isl']), o['m'],
                                                     ';'.join('%d,%d' % tuple(p) for p in o['pairs']) or '-'))
            where.append(('neu', si, 0))
    outs = ctx.driver.ask(lines) if with_model else [None] * len(lines)
    for ln, out, (kind, si, k) in zip(lines, outs, where):
        spec, res = results[si]
        topo = spec['topo']
        if kind == 'isl':
            o = res['patterns'][k]
            case = {'topo': topo, 'patterns': [spec['patterns'][k]], 'scripts': []}
            impl = isl_impl(o)
            n_on = sum(1 for e in o['edges'] if e[2])
            nontrivial = n_on > 0 and 'error' not in o and (len(o['sets']) >= 2 or o['islanded'])
            ctx.case(ln if nontrivial else None, {'line': ln, 'impl': impl})
            ctx.count('isl:kind:' + topo['kind'])
            ctx.count('isl:n=%d' % topo['n'])
            ctx.count('isl:error' if 'error' in o else 'isl:islands=%s' % min(len(o['sets']), 5))
            if 'error' not in o:
                ctx.count('isl:isolated=%s' % min(len(o['islanded']), 4))
                ctx.count('isl:nosw', len(o['nosw']))
                ctx.count('isl:msw', len(o['msw']))
            if with_model and impl != out:
                ctx.disagree('connectivity', case, impl, out)
            for key, what in oracle_connectivity(topo['n'], o['edges'], o['slacks'], o):
                ctx.oracle_fail(key, what, case)
        elif kind == 'cm':
            obs = res['scripts'][k]
            sc = spec['scripts'][k]
            case = {'topo': topo, 'patterns': [], 'scripts': [sc]}
            impl = cm_impl(obs)
            switched = any(op[0] == 's' for op in sc['ops'])
            ctx.case(ln if switched else None, {'line': ln[:300], 'impl': impl[:300]})
            ctx.traces += 1
            ctx.count('cm:ops', len(sc['ops']))
            for s in obs['snaps']:
                ctx.count('cm:err:' + s[0])
            if with_model and impl != out:
                ctx.disagree('connman', case, impl, out)
            for key, what in oracle_script(topo, sc, obs):
                ctx.oracle_fail(key, what, case)
        else:
            o = res['neutral']
            impl = '%s %s' % (o['g'], o['mask'] or '-')
            ctx.case(ln if o['isl'] else None, None)
            ctx.count('neu:isolated=%d' % min(len(o['isl']), 4))
            if with_model and impl != out:
                ctx.disagree('neutralise', {'topo': topo, 'patterns': spec['patterns'][:1], 'scripts': [], 'neutral': True}, impl, out)
            for key, what in oracle_neutral(topo, o):
                ctx.oracle_fail(key, what, {'topo': topo, 'patterns': spec['patterns'][:1], 'scripts': [], 'neutral': True})
    for spec, res in results:
        r = res.get('pflow')
        if r:
            ctx.count('pflow:runs')
            ctx.case(None, None)
            case = {'topo': spec['topo'], 'patterns': [r.get('pattern')], 'scripts': [], 'pflow': True}
            if 'error' in r:
                ctx.oracle_fail('pflow-isolated-exception', 'power flow with isolated buses raised ' + r['error'], case)
            elif not r['converged']:
                ctx.oracle_fail('pflow-isolated-diverges', 'power flow with one slack island and isolated buses %r did not converge'
                                % r['isolated'], case)
            else:
                ctx.count('pflow:converged')
                if r['loaded']:
                    ctx.count('pflow:converged_with_loaded_isolated_bus')
    return results


def run(ctx):
    from andes.core.connman import bus_deps
    ctx.case(None, None)
    if [(k, list(v)) for k, v in bus_deps.items()] != DEPS:
        ctx.disagree('bus_deps-table', 'andes.core.connman.bus_deps', [(k, list(v)) for k, v in bus_deps.items()], DEPS)
    specs = corpus_specs()
    ctx.count('corpus', len(specs))
    nsys = ctx.n(32, 400)
    specs += [gen_spec(ctx.rng, ctx.n(30, 40), ctx.n(10, 14)) for _ in range(nsys)]
    check_specs(ctx, specs)
    check_tds(ctx, ctx.n(3, 16))
    ctx.cov['source_hashes'] = {
        'System.connectivity': C.hash_source(C.REPO + '/andes/system.py', 'System.connectivity'),
        'System.g_islands': C.hash_source(C.REPO + '/andes/system.py', 'System.g_islands'),
        'System.j_islands': C.hash_source(C.REPO + '/andes/system.py', 'System.j_islands'),
        'ConnMan': C.hash_source(C.REPO + '/andes/core/connman.py', 'ConnMan'),
        'GroupBase.find_idx': C.hash_source(C.REPO + '/andes/models/group.py', 'GroupBase.find_idx'),
        'TDS.do_switch': C.hash_source(C.REPO + '/andes/routines/tds.py', 'TDS.do_switch'),
    }


def search(ctx):
    rng = random.Random(ctx.seed * 7919 + 12)
    specs = [d['case'] for d in ctx.disagreements[:30] if isinstance(d['case'], dict) and 'topo' in d['case']]
    specs += [gen_spec(rng, 30, 10) for _ in range(ctx.n(80, 400))]
    check_specs(ctx, specs, with_model=False)


def replay(ctx, rep):
    if 'tds' in rep['case']:
        job, r = tds_worker(rep['case']['tds'])
        print('  ', {k: v for k, v in r.items() if k not in ('calls',)})
        iso, comps = components(r['n'], r['edges_end']) if 'edges_end' in r else (None, None)
        return 'end' in r and sorted(sorted(x) for x in r['end']['sets']) == comps and r['end']['islanded'] == iso
    spec = dict(rep['case'])
    spec.setdefault('patterns', [])
    spec.setdefault('scripts', [])
    ctx2 = C.Ctx(ctx.pid, 'quick', ctx.seed)
    ctx2.known = {}
    check_specs(ctx2, [spec], with_model=False)
    for f in ctx2.oracle_failures:
        print('  ', f['key'], f['what'])
    return not ctx2.oracle_failures
