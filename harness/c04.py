"""C04 — every accepted simulation step satisfies the implicit integration rule.

Lean: Andes/Props/C04.lean; Andes/Gen/DaeInt.lean is REGENERATED from andes/routines/daeint.py on every
run (calc_q / calc_jac of both methods), so the rule theorems are re-checked against the current source.
Newton loop and step-size control: hand models of C17/C06 with their scripted correspondences.
Oracle on the real code: every accepted step of real runs (both methods x fixed/variable step x g_scale
x honest) is re-evaluated on an independent clone system: |T(x1-x0) - h/2(f1+f0)| and |g(x1,y1)| <= tol;
step sizes <= tstep in fixed-step mode and never past tf; step-halving order measurement."""
import json
import os
import subprocess
import sys

from harness import common as C
from harness import tds_stub as T
from harness import c06

PROP_MODULES = ['Andes.Props.C04', 'Andes.Props.C04Order']
RULE = ('calc_q: random argument vectors through the real Trapezoid/BackEuler.calc_q vs the rule; scripted TDS loop '
        'scenarios (step-size bounds); recorded real steps: (case, method, fixt, g_scale, honest) with every accepted '
        'step re-evaluated on a clone; distinct = distinct configuration / scenario; non-trivial = a disturbance is active')
ASSUMPTIONS = [
    'the residual bound for nonlinear systems is measured (<= tol on recorded steps), not proved; Newton convergence is an input of the model',
    'order of accuracy is proved for the linear test equation (amplification factors) and measured by step halving on a stock case',
    'steps accepted by the chatter rule are excluded (finding chatter-accepts-unconverged, C17)',
]


def generate(ctx):
    from translator import daeint
    items = daeint.generate(C.LEAN)
    ctx.cov['generated_defs'] = items
    return {'modules': ['Andes.Gen.DaeInt'], 'theorems': []}


def calc_q_stream(ctx, n):
    import numpy as np
    from andes.routines.daeint import Trapezoid, BackEuler
    rng = np.random.default_rng(ctx.rng.randrange(1 << 30))
    for k in range(n):
        m = int(rng.integers(1, 6))
        x, f, x0, f0 = (rng.normal(size=m) for _ in range(4))
        Tf = rng.choice([0.0, 1.0, 0.02, 8.0], size=m)
        h = float(rng.choice([1 / 30, 1e-3, 0.1, 0.5]))
        qt = Trapezoid.calc_q(x, f, Tf, h, x0, f0)
        qb = BackEuler.calc_q(x, f, Tf, h, x0, f0)
        rt = Tf * (x - x0) - h / 2 * (f + f0)
        rb = Tf * (x - x0) - h * f
        ctx.case(('calc_q', k) if m > 1 else None, {'x': x.tolist(), 'h': h} if k < 2 else None)
        if np.max(np.abs(qt - rt)) > 1e-12 * (1 + np.max(np.abs(rt))):
            ctx.oracle_fail('trapezoid-q-not-rule', 'Trapezoid.calc_q differs from T(x-x0)-h/2(f+f0) by %.3g' % np.max(np.abs(qt - rt)),
                            {'x': x.tolist(), 'f': f.tolist(), 'Tf': Tf.tolist(), 'h': h, 'x0': x0.tolist(), 'f0': f0.tolist()})
        if np.max(np.abs(qb - rb)) > 1e-12 * (1 + np.max(np.abs(rb))):
            ctx.oracle_fail('backeuler-q-not-rule', 'BackEuler.calc_q differs from T(x-x0)-h f by %.3g' % np.max(np.abs(qb - rb)),
                            {'x': x.tolist(), 'f': f.tolist(), 'Tf': Tf.tolist(), 'h': h, 'x0': x0.tolist(), 'f0': f0.tolist()})


def oracle_steps(sc, obs):
    """step-size clauses on the real scripted loop"""
    bad = []
    st = obs['stamps']
    if sc['fixt'] and sc['tstep'] > 0:
        for a, b in zip(st, st[1:]):
            if b - a > sc['tstep'] * (1 + 1e-9) + 1e-15:
                bad.append(('step-exceeds-tstep', 'fixed-step mode: step %r -> %r is longer than tstep %r' % (a, b, sc['tstep'])))
                break
    tfmax = max(s['tf'] for s in obs['segs'])
    if st and st[-1] > tfmax:
        if st[-1] - tfmax <= 1e-12 * max(1.0, abs(tfmax)):
            bad.append(('end-time-rounding', 'floating point: the last step t + (tf - t) lands one ulp beyond tf (%r > %r); the run then does not '
                        'report success because t != tf' % (st[-1], tfmax)))
        else:
            bad.append(('step-past-tf', 'a stored stamp %r lies beyond the end time %r' % (st[-1], tfmax)))
    pos = 0
    for sg in obs['segs']:
        moved = sg['used'] > 0 or sg['t'] > sg.get('t_start', sg['t'])     # the clock advanced during this segment
        if sg['nstamps'] and not sg['busted'] and sg['t'] > max(sg['tf'], st[0] if st else 0) and moved \
                and sg['t'] - sg['tf'] > 1e-12 * max(1.0, abs(sg['tf'])):
            bad.append(('time-past-tf', 'the segment to tf = %r left the clock at t = %r, beyond its end time' % (sg['tf'], sg['t'])))
    return bad


REC_SCRIPT = r'''
import sys, json, warnings, io, contextlib
warnings.simplefilter('ignore')
import numpy as np, andes
andes.config_logger(stream_level=50)
spec = json.loads(sys.argv[1])
def mk(tstep=None, tol=None):
    ss = andes.load(andes.get_case(spec['case']), no_output=True, default_config=True, setup=False)
    if spec.get('alter_tc'):
        # a timed change of a time constant during the run (inertia of the first machine times 0.8 at t = 1 s)
        gm = ss.GENROU if ss.GENROU.n else ss.GENCLS
        ss.add('Alter', dict(t=1.0, model=gm.class_name, dev=gm.idx.v[0], src='M', attr='v', method='*', amount=0.8))
    if spec.get('aw_bind'):
        # drive an anti-windup limiter onto its upper (+1) / lower (-1) limit by a step of the voltage reference of the
        # first exciter, then apply and clear a bus fault while it is held there (steps with many Newton iterations)
        ss.Toggle.u.v = [0] * ss.Toggle.n
        ex = [m for m in ss.groups['Exciter'].models.values() if m.n]
        if ex:
            ss.add('Alter', dict(t=0.5, model=ex[0].class_name, dev=ex[0].idx.v[0], src='vref0', attr='v', method='+',
                                 amount=0.3 * spec['aw_bind']))
        ss.add('Fault', dict(bus=ss.Bus.idx.v[4], tf=0.7, tc=0.75, xf=1e-4, rf=0))
    ss.setup()
    ss.PFlow.run(); c = ss.TDS.config
    c.no_tqdm = 1; c.criteria = 0; c.method = spec['method']; ss.TDS.set_method(spec['method'])
    c.fixt = spec['fixt']; c.g_scale = spec['g_scale']; c.honest = spec['honest']
    c.tstep = tstep or spec.get('tstep', 1/30)
    if tol: c.tol = tol
    return ss
sink = io.StringIO()
if spec['kind'] == 'record':
    a, b = mk(), mk()
    with contextlib.redirect_stdout(sink):
        b.TDS.init()
    a.TDS.config.tf = spec['tf']
    def time_constants(ss_):
        # the time constants as the MODELS hold them (parameter values), not the vector the integrator keeps
        T = np.ones(ss_.dae.n)
        for mdl in ss_.exist.pflow_tds.values():
            for st in mdl.states.values():
                if st.t_const is not None and len(st.a):
                    T[st.a] = st.t_const.v
        return T
    rec = []
    orig = a.TDS.itm_step
    def wrap():
        x0 = a.dae.x.copy(); f0 = a.dae.f.copy(); h = float(a.TDS.h); t = float(a.dae.t); y0 = a.dae.y.copy()
        ok = orig()
        if ok:
            peg = set()
            for item in a.antiwindups:
                for key, _, _ in item.x_set:
                    peg.update(int(k) for k in np.ravel(key))
            # "held at a limit" means AT it (to within the Newton tolerance: the last increment moves a clamped state by at most
            # tol): a flagged state that sits on neither of its limiter's limits is not exempt
            at_limit = set()
            for item in a.antiwindups:
                adr = np.ravel(item.state.a)
                xv = a.dae.x[adr]
                if not item.no_upper:
                    up = np.ravel(-item.upper.v if item.sign_upper.v == -1 else item.upper.v) * np.ones(len(adr))
                    at_limit.update(int(k) for k in adr[np.abs(xv - up) <= 10 * a.TDS.config.tol * (1 + np.abs(up))])
                if not item.no_lower:
                    lo = np.ravel(-item.lower.v if item.sign_lower.v == -1 else item.lower.v) * np.ones(len(adr))
                    at_limit.update(int(k) for k in adr[np.abs(xv - lo) <= 10 * a.TDS.config.tol * (1 + np.abs(lo))])
            off_limit = sorted(peg - at_limit)
            peg = peg & at_limit
            stat = {('Line', 'u'): np.array(a.Line.u.v).copy()}
            if a.Fault.n:
                # the status the step was solved with (a fault is applied / cleared by do_switch AFTER the step that
                # lands on its time has been accepted)
                stat[('Fault', 'uf')] = np.array(a.Fault.uf.v).copy()
            if spec.get('aw_bind'):
                for m in a.groups['Exciter'].models.values():
                    if m.n and hasattr(m, 'vref0'):
                        stat[(m.class_name, 'vref0')] = np.array(m.vref0.v).copy()
            stat[('__T', '')] = time_constants(a)
            rec.append((t, h, x0, f0, a.dae.x.copy(), a.dae.y.copy(), stat,
                        sorted(peg), int(a.TDS.niter), bool(a.TDS.chatter), float(np.max(np.abs(a.TDS.inc))), off_limit,
                        a.dae.f.copy()))
        else:
            if not (np.array_equal(a.dae.x, x0) and np.array_equal(a.dae.y, y0) and np.array_equal(a.dae.f, f0)):
                rec.append(('not-restored', t))
        return ok
    a.TDS.itm_step = wrap
    with contextlib.redirect_stdout(sink):
        ok = a.TDS.run()
    wq = wg = 0.0; worst = None; hs = []; notrest = 0; chat = 0; active = 0; held_steps = 0; flagged_off = []; stale = []
    uf = None
    for r in rec:
        if r[0] == 'not-restored':
            notrest += 1; continue
        (t, h, x0, f0, x1, y1, us, peg, nit, ch, incmax, off_limit, f1_own) = r
        hs.append(h)
        if peg:
            held_steps += 1
        if off_limit and not ch:
            flagged_off.append((t, [str(a.dae.x_name[k]) for k in off_limit[:3]]))
        if ch:
            chat += 1
        b.dae.x[:] = x1; b.dae.y[:] = y1; b.dae.t = np.array(t)
        Tf = us.pop(('__T', ''))
        for (m, attr), u in us.items():
            getattr(b.__dict__[m], attr).v[:] = u
        b.vars_to_models()
        b.TDS.fg_update(b.exist.pflow_tds)
        f1 = b.dae.f.copy(); g1 = b.dae.g.copy()
        q = Tf * (x1 - x0) - (h * 0.5 * (f1 + f0) if spec['method'] == 'trapezoid' else h * f1)
        if peg:
            q[peg] = 0
        if t > 0 and not ch:
            if np.max(np.abs(f1)) > 1e-6:
                active += 1
            mq, mg = float(np.max(np.abs(q))), float(np.max(np.abs(g1)))
            if mq > a.TDS.config.tol and peg:
                # is the violation explained by the right-hand sides the integrator itself held at acceptance?  With a
                # state pegged by an anti-windup limiter, System.fg_update evaluates f BEFORE the limiter clamps the
                # state: equations fed by the pegged state see the value the previous Newton increment left there
                q_own = Tf * (x1 - x0) - (h * 0.5 * (f1_own + f0) if spec['method'] == 'trapezoid' else h * f1_own)
                q_own[peg] = 0
                if float(np.max(np.abs(q_own))) <= a.TDS.config.tol:
                    k = int(np.argmax(np.abs(q)))
                    stale.append((mq, t, h, str(a.dae.x_name[k]), [str(a.dae.x_name[j]) for j in peg][:3]))
                    continue
            if mq > wq: wq, worst = mq, (t, h, int(np.argmax(np.abs(q))))
            wg = max(wg, mg)
    print(json.dumps({'ok': bool(ok), 'steps': len(hs), 'wq': wq, 'wg': wg, 'worst': worst, 'hmax': max(hs) if hs else 0,
                      't_end': float(a.dae.t), 'not_restored': notrest, 'chatter_steps': chat, 'active_steps': active,
                      'held_steps': held_steps, 'flagged_off_limit': flagged_off[:3], 'stale_f': sorted(stale, reverse=True)[:3], 'n_stale_f': len(stale), 'tol': float(a.TDS.config.tol)}))
else:
    outs = []
    for k in (1, 2, 4):
        a = mk(tstep=spec['tstep'] / k, tol=1e-9)
        a.TDS.config.tf = spec['tf']
        with contextlib.redirect_stdout(sink):
            ok = a.TDS.run()
        outs.append((bool(ok), a.dae.x.copy()))
    e1 = float(np.max(np.abs(outs[0][1] - outs[2][1]))); e2 = float(np.max(np.abs(outs[1][1] - outs[2][1])))
    print(json.dumps({'ok': all(o[0] for o in outs), 'e1': e1, 'e2': e2}))
'''


def rec_job(spec):
    p = subprocess.run([sys.executable, '-c', REC_SCRIPT, json.dumps(spec)], stdout=subprocess.PIPE,
                       stderr=subprocess.PIPE, text=True, timeout=1800)
    if p.returncode != 0:
        return {'error': p.stderr[-600:]}
    return json.loads(p.stdout.strip().split('\n')[-1])


def real_stream(ctx):
    import multiprocessing as mp
    specs = []
    cases = [('kundur/kundur_full.xlsx', 2.4)]
    if ctx.thorough:
        cases.append(('ieee14/ieee14_fault.xlsx', 1.5))
    combos = [(m, fx, gs, hon) for m in ('trapezoid', 'backeuler') for fx in (1, 0) for gs in (1, 0) for hon in (0, 1)]
    if not ctx.thorough:
        ctx.rng.shuffle(combos)
        keep = [c for c in combos if c[:2] in (('trapezoid', 1), ('backeuler', 1))][:2] + combos[:4]
        combos = list(dict.fromkeys(keep))
    for case, tf in cases:
        for (m, fx, gs, hon) in combos:
            specs.append({'kind': 'record', 'case': case, 'tf': tf, 'method': m, 'fixt': fx, 'g_scale': gs, 'honest': hon})
    specs.append({'kind': 'record', 'case': cases[0][0], 'tf': 2.4, 'method': 'trapezoid', 'fixt': 1, 'g_scale': 1, 'honest': 0,
                  'alter_tc': 1})
    for sgn in (1, -1):
        specs.append({'kind': 'record', 'case': cases[0][0], 'tf': 1.0, 'method': 'trapezoid', 'fixt': 1, 'g_scale': 1, 'honest': 0,
                      'aw_bind': sgn})
    for m in ('trapezoid', 'backeuler'):
        specs.append({'kind': 'order', 'case': cases[0][0], 'tf': 2.4, 'method': m, 'fixt': 1, 'g_scale': 1, 'honest': 0,
                      'tstep': 1 / 30})
    with mp.get_context('fork').Pool(8) as pool:
        res = pool.map(rec_job, specs)
    orders = {}
    for sp, r in zip(specs, res):
        key = {k: sp.get(k) for k in ('case', 'method', 'fixt', 'g_scale', 'honest', 'kind', 'alter_tc', 'aw_bind', 'tf')}
        ctx.case(json.dumps(key, sort_keys=True), key)
        if 'error' in r:
            ctx.oracle_fail('real-run-raises', 'real TDS run raised: ' + r['error'][-200:], key)
            continue
        if sp['kind'] == 'record':
            ctx.count('recorded_accepted_steps', r['steps'])
            ctx.count('recorded_active_steps', r['active_steps'])
            ctx.count('recorded_steps_with_a_state_held_at_a_limit', r.get('held_steps', 0))
            if sp.get('aw_bind'):
                ctx.count('aw_bind_run_held_steps:%+d' % sp['aw_bind'], r.get('held_steps', 0))
            ctx.cov['max_rule_residual'] = max(ctx.cov.get('max_rule_residual', 0.0), r['wq'])
            ctx.cov['max_g_residual'] = max(ctx.cov.get('max_g_residual', 0.0), r['wg'])
            if not r['ok'] or r['t_end'] != sp['tf']:
                ctx.oracle_fail('stable-case-not-simulated-to-tf', 'a stable stock case was not simulated to tf (%r)' % r, key)
            if r.get('flagged_off_limit'):
                ctx.oracle_fail('pegged-state-not-at-limit', 'a state flagged as held by an anti-windup limiter sits on neither limit after '
                                'an accepted step (and is thereby exempted from the rule): %r' % (r['flagged_off_limit'],), key)
            if r.get('n_stale_f'):
                ctx.count('steps_with_stale_f_after_clamp', r['n_stale_f'])
                ctx.oracle_fail('stale-f-after-antiwindup-clamp', 'accepted step: the equation of %s (fed by the anti-windup state %s, pegged in '
                                'this step) violates the rule by %.3g at t = %.4f when f is evaluated at the accepted state; with the f the '
                                'integrator held (computed before the limiter clamped the state) it is satisfied'
                                % (r['stale_f'][0][3], r['stale_f'][0][4], r['stale_f'][0][0], r['stale_f'][0][1]), key)
            if r['wq'] > r['tol']:
                ctx.oracle_fail('accepted-step-violates-rule', 'accepted step violates the %s rule: max residual %.3g > tol %.1e at (t,h,state)=%r'
                                % (sp['method'], r['wq'], r['tol'], r['worst']), key)
            if r['wg'] > r['tol']:
                ctx.oracle_fail('accepted-step-violates-g', 'accepted step leaves |g| = %.3g > tol' % r['wg'], key)
            if sp['fixt'] and r['hmax'] > 1 / 30 * (1 + 1e-9):
                ctx.oracle_fail('step-exceeds-tstep', 'fixed-step run used h = %r > tstep' % r['hmax'], key)
            if r['not_restored']:
                ctx.oracle_fail('rejected-step-not-restored', 'a rejected step did not restore the state exactly', key)
        else:
            ratio = r['e1'] / r['e2'] if r['e2'] > 0 else float('inf')
            orders[sp['method']] = {'e(h)': r['e1'], 'e(h/2)': r['e2'], 'ratio': ratio}
            lo = 3.3 if sp['method'] == 'trapezoid' else 2.2
            if r['ok'] and r['e2'] > 1e-10 and ratio < lo:
                ctx.oracle_fail('order-not-observed', '%s: error ratio under step halving is %.2f (expected about %s)'
                                % (sp['method'], ratio, '5' if sp['method'] == 'trapezoid' else '3'), key)
    ctx.cov['step_halving'] = orders


def run(ctx):
    import andes
    andes.config_logger(stream_level=50)
    calc_q_stream(ctx, ctx.n(200, 2000))
    scs = [T.gen_scenario(ctx.rng, allow_findings=False) for _ in range(ctx.n(100, 1000))]
    c06.check_scenarios(ctx, scs, oracle=oracle_steps, stream='tds-loop-stepsize')
    # the Newton loop of one step on a real initialised system with scripted increments: a rejected step must
    # restore x, y and f exactly; an accepted one has an increment within tol (or is a chatter acceptance)
    from harness import c17
    c17.step_stream(ctx, ctx.n(120, 1500))
    real_stream(ctx)


def search(ctx):
    ctx.tier = 'thorough'
    real_stream(ctx)


def replay(ctx, rep):
    print('replay: re-run the recorded-step oracle for', json.dumps(rep.get('case'))[:300])
    case = rep.get('case') or {}
    if 'method' in case:
        r = rec_job(dict(case, kind=case.get('kind', 'record'), tf=case.get('tf') or 2.4))
        print(r)
        return 'error' not in r and r.get('wq', 0) <= r.get('tol', 1e-4) and not r.get('n_stale_f') and not r.get('flagged_off_limit')
    return True
