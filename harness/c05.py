"""C05 — dynamic initialisation is an equilibrium consistent with the power flow.

Lean: Andes/Props/C05.lean over REGENERATED tables: Andes/Gen/InitTables.lean (per model: generated
initialisation sequence vs. dependency table of the declared initialisers, `decide`) and
Andes/Gen/Handover.lean (PQ load equations, both branches); hand-written: test_init verdict, load
hand-over, power split, undisturbed equilibrium stays.
Oracle on the real code (residue, measured): every stock dynamic case and generated attachments (power
split between two machines on one static generator, offline devices): after TDS.init all residuals are
below tol exactly when test_ok is True, bus voltages are those of the power flow, an undisturbed run
stays at the initial point; corrupted data makes the initialisation report failure."""
import glob
import json
import os
import subprocess
import sys

from harness import common as C

PROP_MODULES = ['Andes.Props.C05']
RULE = ('case = stock dynamic case file or generated attachment (gamma split 0.3/0.7 of one machine, one device offline, '
        'corrupted limit); distinct = distinct case/variant; non-trivial = the case has differential states')
ASSUMPTIONS = [
    'that each model\'s data-dependent initial point lies inside its limiter ranges and balances all equations is measured on stock cases and attachments, not proved per model',
    'iterative initialisers (v_iter) are exercised by the real Newton solver only',
    'the dependency criterion is syntactic: a variable mentioned by an initialiser string (after SubsService substitution)',
]
CLEAN_REBUILD = False


def generate(ctx):
    from translator import initgen
    from harness import c02
    C.ensure_pycode()
    r = initgen.generate(C.LEAN, c02.pycode_dir())
    ctx.cov['init_tables'] = len(r['theorems'])
    for p in r['problems']:
        ctx.broken.append('translator: ' + p)
    return {'modules': ['Andes.Gen.InitTables', 'Andes.Gen.Handover'], 'theorems': r['theorems']}


SCRIPT = r'''
import sys, json, warnings, io, contextlib
warnings.simplefilter('ignore')
import numpy as np, andes
andes.config_logger(stream_level=50)
spec = json.loads(sys.argv[1])
sink = io.StringIO()
out = {}
ss = andes.load(spec['file'], no_output=True, default_config=True, setup=False)
for mdl in (ss.Toggle, ss.Fault, ss.Alter):
    for tp in mdl.timer_params.values():
        for i in range(len(tp.v)):
            tp.v[i] = -1.0
var = spec.get('variant')
if var == 'split' and ss.GENROU.n > 0:
    # two machines share the first static generator 0.3 / 0.7
    d = ss.GENROU.as_dict(vin=True) if False else None
    row = {k: p.v[0] for k, p in ss.GENROU.params.items() if k not in ('idx', 'name') and len(p.v) > 0}
    # (different shares of P and of Q, each pair summing to one)
    row['gammap'] = 0.3; row['gammaq'] = 0.6
    ss.GENROU.gammap.v[0] = 0.7; ss.GENROU.gammaq.v[0] = 0.4
    row['Sn'] = row['Sn']
    ss.add('GENROU', row)
elif var == 'offline' and ss.TGOV1.n > 0:
    ss.TGOV1.u.v[-1] = 0
elif var == 'offline_exc':
    # the first device of every exciter model of the case is out of service while its generator stays online
    # (explicitly and iteratively initialised exciter types alike)
    for mdl in ss.groups['Exciter'].models.values():
        if mdl.n > 0:
            mdl.u.v[0] = 0
elif var == 'unit_off':
    # one unit completely out of service in the data: static generator, the machine that replaces it, its governor
    g = ss.PV.idx.v[0]
    ss.PV.u.v[0] = 0
    for mname in ('GENCLS', 'GENROU'):
        mdl = ss.models[mname]
        for i, gg in enumerate(mdl.gen.v):
            if gg == g:
                mdl.u.v[i] = 0
                for tg in ss.TurbineGov.models.values():
                    for j, syn in enumerate(tg.syn.v):
                        if syn == mdl.idx.v[i]:
                            tg.u.v[j] = 0
                for ex in ss.Exciter.models.values():
                    for j, syn in enumerate(ex.syn.v):
                        if syn == mdl.idx.v[i]:
                            ex.u.v[j] = 0
elif var == 'nan_droop':
    # zero droop: the governor gain is 1/R = inf and inf * 0 = NaN in its damping equation
    for tg in (ss.TG2, ss.TGOV1):
        if tg.n > 0:
            tg.R.v[0] = 0.0
elif var == 'split_pq':
    # every static generator already shared by two dynamic devices (of any classes): unequal P and Q shares
    by_gen = {}
    for mdl in ss.models.values():
        if mdl.n and all(k in mdl.params for k in ('gen', 'gammap', 'gammaq')):
            for i, g in enumerate(mdl.gen.v):
                by_gen.setdefault(g, []).append((mdl, i))
    for g, devs in by_gen.items():
        if len(devs) == 2:
            for (mdl, i), (gp, gq) in zip(devs, ((0.6, 0.3), (0.4, 0.7))):
                mdl.gammap.v[i] = gp
                mdl.gammaq.v[i] = gq
elif var == 'zipmix':
    # a non-default but valid conversion of the static loads for the time-domain simulation
    c_ = ss.PQ.config
    c_.p2p, c_.p2i, c_.p2z = 0.3, 0.4, 0.3
    c_.q2q, c_.q2i, c_.q2z = 0.2, 0.5, 0.3
elif var in ('underexcited', 'sat_active') and ss.GENROU.n > 0:
    # a round-rotor machine WITH saturation data whose sub-transient flux lies below ('underexcited') / above
    # ('sat_active') the saturation threshold SAT_A: the terminal voltage set-point of its static generator is lowered
    g = ss.GENROU.gen.v[0]
    for sg in (ss.PV, ss.Slack):
        if g in sg.idx.v:
            sg.v0.v[sg.idx.v.index(g)] = 0.85 if var == 'underexcited' else 0.95
    ss.GENROU.S10.v[0] = 0.1; ss.GENROU.S12.v[0] = 0.5
elif var == 'corrupt' and ss.TGOV1.n > 0:
    for i in range(len(ss.TGOV1.VMAX.v)):
        ss.TGOV1.VMAX.v[i] = 0.1
if ss.Bus.n == 0:
    print(json.dumps({'skip': 'no buses: a data sheet meant to be added to a static case, not a case'})); sys.exit(0)
try:
    ss.setup()
    pf = ss.PFlow.run()
except Exception as e:
    print(json.dumps({'error': 'setup/pflow: ' + repr(e)[:200]})); sys.exit(0)
out['pf'] = bool(pf)
if pf:
    xs, ys = ss.PFlow.x_sol.copy(), ss.PFlow.y_sol.copy()
    nb = ss.Bus.n
    c = ss.TDS.config; c.no_tqdm = 1; c.criteria = 0; c.tf = spec.get('tf', 1.0)
    try:
        with contextlib.redirect_stdout(sink):
            ss.TDS.init()
    except Exception as e:
        print(json.dumps({'error': 'TDS.init: ' + repr(e)[:200], 'pf': True})); sys.exit(0)
    fg = ss.dae.fg.copy()
    fgc = fg.copy()
    if var in ('underexcited', 'sat_active') and ss.GENROU.n > 0:
        out['flux_minus_threshold'] = float(ss.GENROU.psi20_abs.v[0] - ss.GENROU.SAT_A.v[0])
    # devices whose input is a recorded time series drive the system: a run with them is not an undisturbed run
    out['driven'] = sorted(n for n in ('PLBVFU1', 'TimeSeries') if n in ss.models and ss.models[n].n > 0)
    out.update(n=int(ss.dae.n), m=int(ss.dae.m), test_ok=ss.TDS.test_ok, maxfg=float(np.nanmax(np.abs(fg))) if len(fg) else 0.0,
               nan=bool(np.isnan(fg).any()), tol=float(c.tol),
               bus_same=bool(np.array_equal(ss.dae.y[:2 * nb], ys[:2 * nb])),
               islands=len(ss.Bus.islands), islanded=len(ss.Bus.islanded_buses))
    if ss.TDS.test_ok and ss.dae.n > 0 and spec.get('run', True):
        x0, y0 = ss.dae.x.copy(), ss.dae.y.copy()
        with contextlib.redirect_stdout(sink):
            ok = ss.TDS.run()
        out['run_ok'] = bool(ok)
        dx, dy = np.abs(ss.dae.x - x0), np.abs(ss.dae.y - y0)
        out['drift'] = float(max(np.max(dx), np.max(dy)))
        k = int(np.argmax(dx)) if np.max(dx) >= np.max(dy) else None
        out['drift_var'] = ss.dae.x_name[k] if k is not None else ss.dae.y_name[int(np.argmax(dy))]
print(json.dumps(out))
'''


def job(spec):
    p = subprocess.run([sys.executable, '-c', SCRIPT, json.dumps(spec)], stdout=subprocess.PIPE, stderr=subprocess.PIPE,
                       text=True, timeout=1800)
    if p.returncode != 0:
        return {'error': 'crash: ' + p.stderr[-400:]}
    try:
        return json.loads(p.stdout.strip().split('\n')[-1])
    except Exception:
        return {'error': 'no json: ' + p.stdout[-200:]}


def run(ctx):
    import multiprocessing as mp
    import andes
    root = os.path.join(os.path.dirname(andes.get_case('kundur/kundur_full.xlsx')), '..')
    files = sorted(glob.glob(os.path.join(root, '*', '*.xlsx')))
    files = [f for f in files if os.path.basename(f) not in ('plbvf.xlsx', 'pqts.xlsx')]   # data sheets, not cases
    if not ctx.thorough:
        keep = [f for f in files if os.path.basename(f) in ('kundur_full.xlsx', 'ieee14_full.xlsx', 'ieee39_full.xlsx')]
        rest = [f for f in files if f not in keep]
        ctx.rng.shuffle(rest)
        files = keep + rest[:9]
    specs = [{'file': os.path.abspath(f)} for f in files]
    base = os.path.abspath(os.path.join(root, 'kundur', 'kundur_full.xlsx'))
    for v in ('split', 'offline', 'offline_exc', 'corrupt', 'zipmix', 'underexcited', 'sat_active'):
        specs.append({'file': base, 'variant': v})
    specs.append({'file': os.path.abspath(os.path.join(root, 'ieee14', 'ieee14_full.xlsx')), 'variant': 'split'})
    specs.append({'file': os.path.abspath(os.path.join(root, 'ieee14', 'ieee14_wt3n.xlsx')), 'variant': 'split_pq'})
    for f in ('ieee14_exac1.xlsx', 'ieee14_esac1a.xlsx', 'ieee14_ac8b.xlsx', 'ieee14_esst1a.xlsx'):
        specs.append({'file': os.path.abspath(os.path.join(root, 'ieee14', f)), 'variant': 'offline_exc', 'run': False})
    pjm = os.path.abspath(os.path.join(root, '5bus', 'pjm5bus.xlsx'))
    specs.append({'file': pjm, 'variant': 'unit_off'})
    specs.append({'file': pjm, 'variant': 'nan_droop'})
    with mp.get_context('fork').Pool(8) as pool:
        res = pool.map(job, specs)
    for sp, r in zip(specs, res):
        tag = {'case': os.path.relpath(sp['file'], root), 'variant': sp.get('variant')}
        ctx.case(json.dumps(tag, sort_keys=True) if r.get('n', 0) > 0 else None, dict(tag, maxfg=r.get('maxfg'), test_ok=r.get('test_ok')))
        if 'skip' in r:
            ctx.count('skipped_not_a_case')
            continue
        if 'error' in r:
            ctx.oracle_fail('init-raises:%s' % (sp.get('variant') or 'stock'), 'initialisation raised on %s: %s' % (tag, r['error'][-200:]), tag)
            continue
        if not r.get('pf'):
            ctx.count('pflow_not_converged')
            continue
        ctx.count('cases_initialised')
        if 'flux_minus_threshold' in r:
            ctx.count('saturating_machine_flux_%s_threshold' % ('below' if r['flux_minus_threshold'] < 0 else 'above'))
        small = (not r['nan']) and r['maxfg'] < r['tol']
        # the verdict must agree with the residuals (independent evaluation of the same vector)
        if r['test_ok'] is True and not small:
            ctx.oracle_fail('init-success-with-residual', '%s: initialisation reports success with max residual %.3g (NaN: %s)' % (tag, r['maxfg'], r['nan']), tag)
        if r['test_ok'] is False and small:
            ctx.oracle_fail('init-failure-without-residual', '%s: initialisation reports failure although all residuals are below tol' % (tag,), tag)
        if not r['bus_same']:
            ctx.oracle_fail('bus-voltages-changed-by-init', '%s: bus voltages after dynamic initialisation differ from the power-flow solution' % (tag,), tag)
        if sp.get('variant') == 'nan_droop':
            ctx.count('nan_residual_reported' if r['test_ok'] is False else 'nan_residual_case_without_nan' if not r['nan'] else 'nan_residual_not_reported')
            continue     # (a NaN residual presented as success is caught by init-success-with-residual above)
        if sp.get('variant') == 'corrupt':
            ctx.count('corrupt_reported' if r['test_ok'] is False else 'corrupt_not_reported')
            if r['test_ok'] is not False:
                ctx.oracle_fail('inconsistent-data-not-reported', 'limits inconsistent with the operating point, yet initialisation reports %r' % r['test_ok'], tag)
            continue
        consistent = r['islands'] <= 1 and r['islanded'] == 0
        if r['test_ok'] is not True:
            if sp.get('variant') and consistent:
                # attachments are built from a case that initialises: they are consistent by construction
                ctx.oracle_fail('consistent-attachment-fails-init:%s' % sp['variant'],
                                '%s: an attachment built from consistent data does not initialise (max residual %.3g)' % (tag, r['maxfg']), tag)
            else:
                ctx.count('stock_case_reports_failed_init')    # whether the shipped data are consistent is not ours to say
            continue
        if 'drift' in r and r.get('driven'):
            ctx.count('undisturbed_run_skipped_driven_by_time_series')
        elif 'drift' in r:
            ctx.count('undisturbed_runs')
            ctx.cov['max_undisturbed_drift'] = max(ctx.cov.get('max_undisturbed_drift', 0.0), r['drift'])
            # an initial point accepted with residual maxfg < tol is corrected by the first Newton iterations by an
            # amount of that order: the bound scales with the accepted residual (tol = 1e-4 at most)
            if not r['run_ok'] or r['drift'] > 1e-5 + 20 * r['maxfg']:
                mdl = (r.get('drift_var') or '? ?').split()[1] if len((r.get('drift_var') or '').split()) > 1 else '?'
                ctx.oracle_fail('undisturbed-run-drifts:%s' % mdl, '%s: an undisturbed run moves away from the initial point: %s changes by %.3g in 1 s (completed: %s)'
                                % (tag, r.get('drift_var'), r['drift'], r['run_ok']), tag)


def search(ctx):
    ctx.tier = 'thorough'
    run(ctx)


def replay(ctx, rep):
    spec = rep.get('case') or {}
    print('replay', spec)
    return True
