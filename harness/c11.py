"""C11 — per-unit conversion and parameter alteration keep both value bases consistent.

Lean: Andes/Props/C11.lean (model Andes/Model/PerUnit.lean).  Andes/Gen/PuCoeff.lean is REGENERATED from the
`coeffs` dictionary of System.calc_pu_coeff on every run, so `coeff_matches_source` re-checks the model's
coefficient table against the current source.

Tie (bit-exact, floats travel as IEEE bits):
* stream `static`: every model of set-up stock systems with randomly rescaled device / bus / system bases:
  the resolved bases, pu_coeff, v, vin of every flagged parameter vs the model's `setup`;
* stream `ops`: random operation sequences (alter / Group.alter / Model.set / Group.set / reset / xlsx dump /
  json dump, before set-up, after power flow, after TDS initialisation) on random flagged / time-constant /
  base parameters of random models of real systems: v, vin, pu_coeff, dae.Tf, Teye and the exported columns
  after EVERY operation vs the model.
Oracle on the real code (independent of the model): textbook ratio recomputed from the bases in Python,
alter semantics, export == current vin, reset restores, Tf/Teye == v, the arrays handed to the residual
functions are the altered ones, the residual of a PQ load moves by exactly k*delta, and an alteration of the
inertia after TDS initialisation gives the same trajectory as a case that had that value from the start."""
import contextlib
import glob
import io
import json
import os

from harness import common as C

PROP_MODULES = ['Andes.Props.C11']
RULE = ('static: (case, rescaling of Sn/Vn/Bus.Vn/mva, model) with every flagged parameter of the model; ops: (case, model, '
        'tracked parameters, operation sequence); distinct = distinct (case, model, op-kind sequence, parameter kinds); '
        'non-trivial = the model has a flagged or time-constant parameter and at least one alter/set after set-up')
ASSUMPTIONS = [
    'theorems are over a field of characteristic zero; IEEE rounding (value/k*k) is exercised by the bit-exact correspondence only',
    'NumPy vectorisation is modelled per device; parameters with ndim != 1 or non-float dtype are not tracked',
    'inf -> 1e8 replacement of NumParam.to_array is not modelled (generators produce finite values)',
    'System.reset(force=True) after TDS initialisation is outside the domain (documented as unpredictable; it raises NotImplementedError)',
    'operation sequences track one model class at a time; parameters of other models are not altered inside a sequence, '
    'models whose base parameters (Sn, Vn, ...) are ExtParams are covered by the static stream only',
    'a limiter that adjusts its limit parameter to the initial value during initialisation (allow_adjust) moves v away from vin*k on purpose; '
    'a sequence ends where that happens (counted as ops_ended_limit_adjusted_by_init)',
    'dependent ConstServices are not recomputed by alter (not part of the statement); the oracle looks at the parameter arrays themselves',
]
CORPUS = os.path.join(C.ROOT, 'corpus', 'c11')
CASES = ['kundur/kundur_full.xlsx', 'ieee14/ieee14_full.xlsx', '5bus/pjm5bus.xlsx', 'ieee39/ieee39_full.xlsx',
         'kundur/kundur_vsc.xlsx', 'ieee14/ieee14_solar.xlsx', 'wscc9/wscc9.xlsx']
ROLE = {'Sn': 1, 'Vn': 2, 'Vn1': 3, 'Vdcn': 4, 'Vdcn1': 5, 'Idcn': 6}
KINDS = ['voltage', 'power', 'ipower', 'current', 'z', 'y', 'dc_voltage', 'dc_current', 'r', 'g']
f2h = C.f2h


def generate(ctx):
    from translator import pucoeff
    items = pucoeff.generate(C.LEAN)
    keys = [k for k, _ in pucoeff.extract()[0]]
    ctx.cov['generated_defs'] = items
    ctx.cov['coeff_keys_in_source'] = keys
    return {'modules': ['Andes.Gen.PuCoeff'], 'theorems': []}


# ------------------------------------------------------------------ helpers on the real system

def quiet():
    import warnings
    import numpy as np
    import andes
    warnings.simplefilter('ignore')
    np.seterr(all='ignore')
    andes.config_logger(stream_level=50)


def load(case, setup=False):
    import andes
    return andes.load(andes.get_case(case), setup=setup, no_output=True, default_config=True)


def hexs(a):
    a = list(a)
    return ','.join(f2h(x) for x in a) if a else '-'


def kinds_of(p):
    prop = getattr(p, 'property', {}) or {}
    return [i for i, k in enumerate(KINDS) if prop.get(k)]


def plain_num(p):
    from andes.core.param import NumParam, ExtParam, TimerParam
    return isinstance(p, NumParam) and not isinstance(p, (ExtParam, TimerParam)) and p.vtype == float \
        and p.export and p.iconvert is None and p.oconvert is None


def isnum(x):
    import numpy as np
    return isinstance(x, (int, float, np.integer, np.floating)) and not isinstance(x, bool) and x == x \
        and abs(x) != float('inf')


def tc_states(mdl, p):
    return [s for s in mdl.states.values() if s.t_const is p]


def shape(mdl):
    d = mdl.__dict__
    return [int('bus' in d), int('bus1' in d), int('node' in d), int('node1' in d),
            int(bool(mdl.flags.pflow)), int(bool(mdl.flags.tds))]


def ext_cols(ss, mdl):
    d = mdl.__dict__
    n = mdl.n
    z = [0.0] * n
    vb = list(ss.Bus.get(src='Vn', idx=d['bus'].v, attr='v')) if 'bus' in d else z
    vb1 = list(ss.Bus.get(src='Vn', idx=d['bus1'].v, attr='v')) if 'bus1' in d and 'bus' not in d else z
    vd = list(ss.Node.get(src='Vdcn', idx=d['node'].v, attr='v')) if 'node' in d else z
    vd1 = list(ss.Node.get(src='Vdcn', idx=d['node1'].v, attr='v')) if 'node1' in d and 'node' not in d else z
    return ';'.join(hexs(c) for c in (vb, vb1, vd, vd1))


def textbook(kind, Sn, Sb, Vn, Vb, Vdcn, Vdcb, Idcn):
    """device base / system base of the quantity kind, from the definitions (independent of the code)"""
    def base(S, V, Vdc, Idc):
        return {'voltage': V, 'power': S, 'ipower': 1.0 / S, 'current': S / V, 'z': V * V / S, 'y': S / (V * V),
                'dc_voltage': Vdc, 'dc_current': Idc, 'r': Vdc / Idc, 'g': Idc / Vdc}[kind]
    return base(Sn, Vn, Vdcn, Idcn) / base(Sb, Vb, Vdcb, Sb / Vdcb)


def resolved_bases(ss, mdl):
    """per-device (Sn, Sb, Vn, Vb, Vdcn, Vdcb, Idcn) as the documentation of calc_pu_coeff describes them"""
    import numpy as np
    d = mdl.__dict__
    n = mdl.n
    Sb = float(ss.config.mva)
    one = np.ones(n)
    Sn = np.array(d['Sn'].v, dtype=float) if 'Sn' in d else Sb * one
    Vb, Vn = one, one
    if 'bus' in d:
        Vb = np.array(ss.Bus.get(src='Vn', idx=d['bus'].v, attr='v'), dtype=float)
        Vn = np.array(d['Vn'].v, dtype=float) if 'Vn' in d else Vb
    elif 'bus1' in d:
        Vb = np.array(ss.Bus.get(src='Vn', idx=d['bus1'].v, attr='v'), dtype=float)
        Vn = np.array(d['Vn1'].v, dtype=float) if 'Vn1' in d else Vb
    Vdcb, Vdcn, Idcn = one, one, one
    if 'node' in d or 'node1' in d:
        nd, vk = ('node', 'Vdcn') if 'node' in d else ('node1', 'Vdcn1')
        Vdcb = np.array(ss.Node.get(src='Vdcn', idx=d[nd].v, attr='v'), dtype=float)
        Vdcn = np.array(d[vk].v, dtype=float) if vk in d else Vdcb
        Idcn = np.array(d['Idcn'].v, dtype=float) if 'Idcn' in d else Sb / Vdcb
    return [tuple(float(x[i]) for x in (Sn, Sb * one, Vn, Vb, Vdcn, Vdcb, Idcn)) for i in range(n)]


def close(a, b, tol=1e-12):
    return a == b or abs(a - b) <= tol * (1 + abs(a) + abs(b))


# ------------------------------------------------------------------ stream `static`

def static_case(ctx, case, scal, lines, metas):
    """set up `case` with rescaled bases; one driver line + oracle per model"""
    import numpy as np
    ss = load(case)
    ss.config.mva = float(ss.config.mva) * scal['mva']
    r = __import__('random').Random(scal['seed'])
    for mdl in ss.models.values():
        if mdl.n == 0:
            continue
        for nm in ('Sn', 'Vn', 'Vn1', 'Vdcn', 'Vdcn1', 'Idcn'):
            p = mdl.__dict__.get(nm)
            if p is not None and plain_num(p) and isinstance(p.v, list):
                for i in range(len(p.v)):
                    if isnum(p.v[i]):
                        p.v[i] = float(p.v[i]) * r.choice(scal['factors'])
    ss.setup()
    for name, mdl in ss.models.items():
        if mdl.n == 0:
            continue
        flagged = [(pn, p) for pn, p in mdl.num_params.items()
                   if kinds_of(p) and getattr(p.v, 'ndim', 0) == 1 and p.v.dtype == float and p.vin is not None]
        if not flagged:
            ctx.count('static_models_without_flagged_param')
            continue
        d = mdl.__dict__
        plist = []
        for rn, rid in ROLE.items():
            if rn in d and hasattr(d[rn], 'v') and not kinds_of(d[rn]):
                plist.append((rn, '-:%d:0:%s' % (rid, hexs(np.array(d[rn].v, dtype=float)))))
        nrole = len(plist)
        for pn, p in flagged:
            if pn in ROLE:
                continue
            plist.append((pn, '%s:0:0:%s' % ('.'.join(str(k) for k in kinds_of(p)), hexs(p.vin))))
        line = 'pu %s %s %s %s S' % (''.join(str(b) for b in shape(mdl)), f2h(ss.config.mva), ext_cols(ss, mdl),
                                    ';'.join(x[1] for x in plist))
        impl = []
        for pn, _ in plist:
            p = d[pn]
            if pn in ROLE and not hasattr(p, 'pu_coeff'):
                impl.append(None)
                continue
            impl.append('/'.join([hexs(p.v), hexs(p.vin), hexs(p.pu_coeff), '-', '-']))
        lines.append(line)
        metas.append({'stream': 'static', 'case': case, 'scal': scal, 'model': name, 'impl': impl, 'names': [x[0] for x in plist]})
        # oracle: textbook ratio from the documented meaning of the bases
        bases = resolved_bases(ss, mdl)
        sig = (case, name, tuple(sorted({KINDS[kinds_of(p)[-1]] for _, p in flagged})), scal['seed'])
        ctx.case(sig, {'case': case, 'model': name, 'flagged': [pn for pn, _ in flagged][:6]} if len(ctx.samples) < 2 else None)
        ctx.count('static_models')
        for pn, p in flagged:
            ks = kinds_of(p)
            if len(ks) > 1:
                ctx.count('param_with_several_flags')
            kind = KINDS[ks[-1]]
            ctx.count('static_kind_' + kind)
            for i in range(mdl.n):
                k = textbook(kind, *bases[i])
                if not (close(float(p.pu_coeff[i]), k) and close(float(p.v[i]), float(p.vin[i]) * k)):
                    ctx.oracle_fail('pu-coeff-not-textbook',
                                    '%s.%s[%d] (%s): pu_coeff %r, v %r, vin %r but textbook ratio is %r for bases %r'
                                    % (name, pn, i, kind, float(p.pu_coeff[i]), float(p.v[i]), float(p.vin[i]), k, bases[i]),
                                    {'stream': 'static', 'case': case, 'scal': scal, 'model': name})
                    break


def static_stream(ctx, n):
    lines, metas = [], []
    for k in range(n):
        case = CASES[k % len(CASES)] if k < len(CASES) else ctx.rng.choice(CASES)
        scal = {'mva': 1.0 if k < 2 else ctx.rng.choice([0.5, 1.0, 2.0, 10.0, 0.37]),
                'factors': [1.0] if k < 2 else ctx.rng.choice([[1.0, 2.0], [0.5, 1.0, 1.1], [0.9, 3.0, 7.0]]),
                'seed': ctx.rng.randrange(1 << 20)}
        static_case(ctx, case, scal, lines, metas)
    outs = ctx.driver.ask(lines)
    for line, meta, out in zip(lines, metas, outs):
        parts = out.split(' ')
        model = parts[1].split(';') if len(parts) == 3 else [out]
        impl = meta['impl']
        for i, nm in enumerate(meta['names']):
            if impl[i] is None:
                continue
            if i >= len(model) or model[i] != impl[i]:
                ctx.disagree('static', {k: meta[k] for k in ('stream', 'case', 'scal', 'model')} | {'param': nm, 'line': line[:400]},
                             impl[i][:300], (model[i] if i < len(model) else out)[:300])
                break


# ------------------------------------------------------------------ stream `ops`

_meta_cache = {}


def case_meta(case):
    """what the generator needs to know about a case: per model the trackable parameters"""
    if case in _meta_cache:
        return _meta_cache[case]
    ss = load(case)
    ss2 = load(case, setup=True)
    out = {}
    for name, mdl in ss.models.items():
        if mdl.n == 0 or not mdl.group or name in ('Toggle', 'Fault', 'Alter', 'TimeSeries'):
            continue
        if ss2.models[name].n != mdl.n:
            continue   # set-up adds devices to this model (find_devices): the device list is not fixed
        d = mdl.__dict__
        roles = [rn for rn in ROLE if rn in d and plain_num(d[rn])]
        cand = {pn: {'kinds': kinds_of(p), 'tc': bool(tc_states(mdl, p)), 'tcn': len(tc_states(mdl, p)), 'role': ROLE.get(pn, 0),
                     'v': [float(x) for x in p.v]}
                for pn, p in mdl.num_params.items()
                if plain_num(p) and isinstance(p.v, list) and all(isnum(x) for x in p.v)}
        if not all(rn in cand for rn in roles):
            continue
        out[name] = {'n': mdl.n, 'idx': list(mdl.idx.v), 'params': cand, 'roles': roles, 'group': mdl.group,
                     'tds': bool(mdl.flags.tds), 'pflow': bool(mdl.flags.pflow)}
    _meta_cache[case] = out
    return out


def shared_tc_models(case):
    """models of the case with a parameter that is the time constant of two or more states"""
    meta = case_meta(case)
    return sorted(m for m in meta if any(p.get('tcn', 0) >= 2 for p in meta[m]['params'].values()))


def gen_spec(rng, case, want=None, shared_tc=False):
    meta = case_meta(case)
    names = sorted(m for m in meta if meta[m]['params'])
    good = [m for m in names if any(p['kinds'] or p['tc'] for p in meta[m]['params'].values())]
    mname = want or rng.choice(good if rng.random() < 0.9 else names)
    mm = meta[mname]
    ps = mm['params']
    flagged = sorted(p for p in ps if ps[p]['kinds'] and p not in mm['roles'])
    tcs = sorted(p for p in ps if ps[p]['tc'] and p not in mm['roles'])
    # unflagged, non-time-constant parameters: continuous-valued ones only (selectors / switches such as `u`,
    # `control` are integer valued and make set-up or initialisation fail when set to arbitrary numbers)
    plain = sorted(p for p in ps if not ps[p]['kinds'] and not ps[p]['tc'] and p not in mm['roles']
                   and not all(float(x).is_integer() for x in ps[p]['v']))
    tracked = list(mm['roles'])
    tracked += rng.sample(flagged, min(len(flagged), rng.randint(1, 3)))
    tracked += [p for p in rng.sample(tcs, min(len(tcs), rng.randint(1, 2))) if p not in tracked]
    shared = [p for p in tcs if ps[p].get('tcn', 0) >= 2]      # one parameter, several states
    if shared and (shared_tc or rng.random() < 0.5):
        q = rng.choice(shared)
        if q not in tracked:
            tracked.append(q)
    if plain and (rng.random() < 0.4 or not tracked):
        tracked.append(rng.choice(plain))
    if not tracked:
        tracked.append(rng.choice(plain or sorted(ps)))

    def target(phase):
        # base parameters are altered less often; after TDS initialisation time constants are preferred
        pool = [p for p in tracked if p not in mm['roles']] or tracked
        tcp = [p for p in tracked if ps[p]['tc']]
        if shared_tc and phase == 'tds':
            tcp = [p for p in tcp if ps[p].get('tcn', 0) >= 2] or tcp
        if phase == 'tds' and tcp and (shared_tc or rng.random() < 0.6):
            return rng.choice(tcp), rng.randrange(mm['n'])
        p = rng.choice(tracked) if rng.random() < 0.2 else rng.choice(pool)
        return p, rng.randrange(mm['n'])

    def value(p, uid):
        cur = ps[p]['v'][uid]
        if p in mm['roles'] or rng.random() < 0.5:
            return (cur if cur else 1.0) * rng.choice([0.5, 0.9, 1.1, 2.0, 1.37])
        return round(rng.uniform(0.05, 12.0), rng.choice([1, 2, 3]))

    def edit(phase):
        e = edit0(phase)
        if e.get('op') in ('A', 'M', 'G') and phase != 'pre' and rng.random() < 0.15:
            e['same'] = rng.choice(['v', 'vin'])      # resolved when the operation is executed
        return e

    def edit0(phase):
        k = rng.random()
        p, uid = target(phase)
        attr = 'v' if rng.random() < (0.9 if phase == 'pre' else 0.6) else 'i'
        if k < 0.45:
            return {'op': 'A', 'p': p, 'uid': uid, 'x': value(p, uid), 'attr': attr, 'g': 0}
        if k < 0.62:
            return {'op': 'A', 'p': p, 'uid': uid, 'x': value(p, uid), 'attr': attr, 'g': 1}
        if k < 0.72:
            return {'op': 'M', 'p': p, 'uid': uid, 'x': value(p, uid), 'attr': attr}
        if k < 0.80:
            return {'op': 'G', 'p': p, 'uid': uid, 'x': value(p, uid), 'attr': attr}
        if k < 0.90:
            return {'op': rng.choice('XJ')}
        return {'op': 'J'} if phase != 'tds' else {'op': 'X'}

    ops = []
    for _ in range(rng.choice([0, 0, 1, 2])):
        ops.append(edit('pre'))
    if rng.random() < 0.08:
        ops.append({'op': 'R', 'force': 0})
    ops.append({'op': 'S'})
    if rng.random() < 0.05:
        ops.append({'op': 'S'})
    for _ in range(rng.choice([0, 1, 2, 3])):
        ops.append(edit('setup'))
    rounds = rng.choice([1, 1, 2])
    for rd in range(rounds):
        ops.append({'op': 'P'})
        for _ in range(rng.choice([0, 1, 2, 3])):
            ops.append(edit('pflow'))
        if rd < rounds - 1 or rng.random() < 0.25:
            ops.append({'op': 'R', 'force': rng.choice([0, 0, 1])})
            for _ in range(rng.choice([0, 1, 2])):
                ops.append(edit('setup'))
            if rd == rounds - 1:
                ops.append({'op': 'P'})
    if shared_tc or rng.random() < 0.75:
        ops.append({'op': 'T'})
        for _ in range(rng.choice([1, 2, 3, 4])):
            ops.append(edit('tds'))
        if rng.random() < 0.2:
            ops.append({'op': rng.choice(['R', 'T']), 'force': 0})
        if rng.random() < 0.5:
            ops.append({'op': 'X'})
            ops.append({'op': 'J'})
    return {'stream': 'ops', 'case': case, 'model': mname, 'tracked': tracked, 'ops': ops}


class Capture:
    """records the data frames handed to DataFrame.to_excel by the xlsx writer"""

    def __init__(self):
        self.sheets = {}

    def __enter__(self):
        import pandas as pd
        self.orig = pd.DataFrame.to_excel
        cap = self

        def to_excel(df, writer, sheet_name='Sheet1', **kw):
            cap.sheets[sheet_name] = df
        pd.DataFrame.to_excel = to_excel
        return self

    def __exit__(self, *a):
        import pandas as pd
        pd.DataFrame.to_excel = self.orig


def dump_xlsx(ss, mname, tracked):
    from andes.io import xlsx
    with Capture() as cap:
        xlsx._write_system(ss, None, True)
    df = cap.sheets[mname]
    return [[float(x) for x in df[p].tolist()] for p in tracked]


def dump_json(ss, mname, tracked):
    from andes.io import json as ajson
    rows = json.loads(ajson._dump_system(ss, True))[mname]
    return [[float(r[p]) for r in rows] for p in tracked]


def observe(ss, mdl, tracked, status, written):
    ps = []
    for pn in tracked:
        p = mdl.__dict__[pn]
        st = tc_states(mdl, p)
        addressed = any(len(s.a) > 0 for s in mdl.states.values())
        tf = te = '-'
        if st and addressed:
            cols = [hexs(ss.dae.Tf[s.a]) for s in st]
            tf = cols[0] if all(c == cols[0] for c in cols) else 'differ:' + '|'.join(cols)
            if ss.TDS.Teye is None:
                te = 'none'
            else:
                cols = [hexs([ss.TDS.Teye[int(a), int(a)] for a in s.a]) for s in st]
                te = cols[0] if all(c == cols[0] for c in cols) else 'differ:' + '|'.join(cols)
        ps.append('/'.join([hexs(p.v), hexs(p.vin) if p.vin is not None else '-',
                            hexs(p.pu_coeff) if p.vin is not None else '-', tf, te]))
    w = '-' if written is None else ';'.join(hexs(c) for c in written)
    return ' '.join([status, ';'.join(ps), w])


def op_token(op, tracked):
    k = op['op']
    if k in 'SPTXJ':
        return k
    if k == 'R':
        return 'R:%d' % op['force']
    pi = tracked.index(op['p'])
    if k == 'A':
        return 'A:%d:%d:%s:%s:%d' % (pi, op['uid'], f2h(op['x']), op['attr'], op['g'])
    return '%s:%d:%d:%s:%s' % (k, pi, op['uid'], op['attr'], f2h(op['x']))


def run_spec(spec, fails):
    """execute the operation sequence on the real code; returns (driver line, observation string, executed ops).
    `fails` collects (key, what) oracle failures."""
    import numpy as np
    ss = load(spec['case'])
    mdl = ss.models[spec['model']]
    grp = ss.groups[mdl.group]
    tracked = spec['tracked']
    d = mdl.__dict__
    plist = []
    for pn in tracked:
        p = d[pn]
        plist.append('%s:%d:%d:%s' % ('.'.join(str(k) for k in kinds_of(p)) or '-', ROLE.get(pn, 0),
                                      int(bool(tc_states(mdl, p))), hexs(p.v)))
    for rn, vals in fixed_roles(spec['case'], spec['model']).items():
        plist.append('-:%d:0:%s' % (ROLE[rn], hexs(vals)))
    calls = {'set_address': 0, 'setup': 0}
    for fn in calls:
        orig = getattr(ss, fn)

        def wrap(*a, _o=orig, _n=fn, **kw):
            calls[_n] += 1
            return _o(*a, **kw)
        setattr(ss, fn, wrap)
    obs, done = [], []
    ext = None
    tainted = set()      # (param, uid) whose v or vin was written by `set`
    tf_tainted = set()
    fresh = False        # the model's input dictionary was refreshed after the arrays were last re-created
    kref = {}            # textbook coefficient per tracked param / device at the last set-up
    pf_ok = False

    def fail(key, what):
        fails.append((key, what))

    def snapshot_k():
        bases = resolved_bases(ss, mdl)
        for pn in tracked:
            ks = kinds_of(d[pn])
            kref[pn] = [textbook(KINDS[ks[-1]], *bases[i]) if ks else 1.0 for i in range(mdl.n)]

    for op in spec['ops']:
        k = op['op']
        status, written = 'ok', None
        before = {pn: (list(d[pn].v), list(d[pn].vin) if d[pn].vin is not None else None) for pn in tracked}
        was_setup = bool(ss.is_setup)
        if k == 'P' and not was_setup:
            continue
        if k == 'T' and not (pf_ok and ss.PFlow.converged):
            continue
        if k == 'R' and op['force'] and ss.TDS.initialized:
            continue
        if k in 'AMG' and ext is None and was_setup:
            pass
        if k in 'AMG' and op.get('same'):
            # the requested number is the one currently held in the system-base ('v') / input-base ('vin') array of
            # this very entry (a user who types back a value read from the other representation)
            pcur = d[op['p']]
            arr = pcur.v if (op['same'] == 'v' or pcur.vin is None) else pcur.vin
            op['x'] = float(arr[op['uid']])
        try:
            c0 = dict(calls)
            if k == 'S':
                if ss.setup() is False and calls['set_address'] == c0['set_address']:
                    status = 'refused'
            elif k == 'R':
                ss.reset(force=bool(op['force']))
                if calls['setup'] == c0['setup']:
                    status = 'refused'
                else:
                    pf_ok = False
                    fresh = False
            elif k == 'P':
                ss.PFlow.run()
                pf_ok = bool(ss.PFlow.converged)
                if mdl.flags.pflow:
                    fresh = True
            elif k == 'T':
                with contextlib.redirect_stdout(io.StringIO()):
                    ss.TDS.init()
                if calls['set_address'] == c0['set_address']:
                    status = 'refused'
                elif mdl.flags.tds or mdl.flags.pflow:
                    fresh = True
            elif k == 'X':
                written = dump_xlsx(ss, spec['model'], tracked)
            elif k == 'J':
                written = dump_json(ss, spec['model'], tracked)
            else:
                idx = mdl.idx.v[op['uid']]
                attr = 'v' if op['attr'] == 'v' else 'vin'
                if k == 'A':
                    (grp if op['g'] else mdl).alter(op['p'], idx, op['x'], attr=attr)
                elif k == 'M':
                    mdl.set(op['p'], idx, attr, op['x'])
                else:
                    grp.set(op['p'], idx, attr, op['x'])
        except TypeError:
            status = 'TypeError'
        except Exception as e:   # anything else ends the sequence; reported as a disagreement by the caller
            obs.append('Exception:' + type(e).__name__)
            done.append(op)
            break
        if ext is None and ss.is_setup:
            ext = ext_cols(ss, mdl)
        if k in 'PT' and any(list(d[pn].v) != before[pn][0] for pn in tracked):
            # initialisation itself moved a parameter (a limiter adjusting its limit to the initial value,
            # `allow_adjust`): documented behaviour outside the statement; the sequence ends before this op
            fails.append(('_adjusted', k))
            break
        done.append(op)
        obs.append(observe(ss, mdl, tracked, status, written))
        # ---------------- property oracle (independent of the model)
        if status == 'TypeError':
            if k == 'A':
                fail('alter-vin-before-setup-raises', "alter(attr='vin') before set-up raises TypeError (vin is None)")
            elif k == 'R':
                fail('reset-before-setup-raises', 'System.reset before set-up raises TypeError in _p_restore (vin is None)')
            continue
        if status == 'refused':
            continue
        if k in ('S', 'R'):
            snapshot_k()
            tainted.clear()
            tf_tainted.clear()
            for pn in tracked:
                p = d[pn]
                for i in range(mdl.n):
                    if not (close(float(p.pu_coeff[i]), kref[pn][i]) and close(float(p.v[i]), float(p.vin[i]) * kref[pn][i])):
                        fail('pu-coeff-not-textbook' if k == 'S' else 'reset-not-restored',
                             '%s.%s[%d]: after %s v=%r vin=%r pu=%r, textbook ratio %r' % (spec['model'], pn, i,
                             'set-up' if k == 'S' else 'reset', float(p.v[i]), float(p.vin[i]), float(p.pu_coeff[i]), kref[pn][i]))
                        break
                if k == 'R' and before[pn][1] is not None and list(p.vin) != before[pn][1]:
                    fail('reset-changes-input', '%s.%s: reset changed the input values' % (spec['model'], pn))
        if k in 'AMG':
            pn, uid, x = op['p'], op['uid'], op['x']
            p = d[pn]
            for qn in tracked:
                nv, nvin = list(d[qn].v), (list(d[qn].vin) if d[qn].vin is not None else None)
                for i in range(mdl.n):
                    if (qn, i) != (pn, uid) and (nv[i] != before[qn][0][i] or (nvin is not None and nvin[i] != before[qn][1][i])):
                        fail('alter-touches-other-entry', '%s: %s of %s[%d] changed %s[%d]' % (spec['model'], k, pn, uid, qn, i))
            if k == 'A':
                tainted.discard((pn, uid))
                tf_tainted.discard((pn, uid))
                if was_setup:
                    kk = float(p.pu_coeff[uid])
                    good = (float(p.vin[uid]) == x and close(float(p.v[uid]), x * kk)) if op['attr'] == 'v' else \
                        (float(p.v[uid]) == x and (kk == 0 or close(float(p.vin[uid]), x / kk)))
                    if not good:
                        fail('alter-inconsistent', '%s.%s[%d]: alter(%r, attr=%s) left v=%r vin=%r with pu_coeff %r'
                             % (spec['model'], pn, uid, x, op['attr'], float(p.v[uid]), float(p.vin[uid]), kk))
                elif float(p.v[uid]) != x:
                    fail('alter-inconsistent', '%s.%s[%d]: alter before set-up did not store the value' % (spec['model'], pn, uid))
            else:
                tainted.add((pn, uid))
                if k == 'G' and op['attr'] == 'v':
                    tf_tainted.add((pn, uid))
        if k in 'XJ':
            for ci, pn in enumerate(tracked):
                p = d[pn]
                want = [float(z) for z in (p.vin if p.vin is not None else p.v)]
                if written[ci] != want:
                    fail('xlsx-export-stale' if k == 'X' else 'json-export-stale',
                         '%s.%s: the %s export writes %r while the input values are %r'
                         % (spec['model'], pn, 'xlsx' if k == 'X' else 'json', written[ci][:4], want[:4]))
                    break
        if ss.is_setup and kref:
            for pn in tracked:
                p = d[pn]
                for i in range(mdl.n):
                    if (pn, i) not in tainted and not close(float(p.v[i]), float(p.vin[i]) * float(p.pu_coeff[i])):
                        fail('bases-inconsistent', '%s.%s[%d]: v=%r but vin*pu_coeff=%r after %s'
                             % (spec['model'], pn, i, float(p.v[i]), float(p.vin[i]) * float(p.pu_coeff[i]), k))
        addressed = any(len(s.a) > 0 for s in mdl.states.values())
        if addressed:
            for pn in tracked:
                p = d[pn]
                for s in tc_states(mdl, p):
                    for i in range(mdl.n):
                        a = int(s.a[i])
                        bad = float(ss.dae.Tf[a]) != float(p.v[i]) or ss.TDS.Teye is None or float(ss.TDS.Teye[a, a]) != float(p.v[i])
                        if bad:
                            fail('group-set-skips-tf' if (pn, i) in tf_tainted else 'tf-not-propagated',
                                 '%s.%s[%d] = %r is the time constant of %s but dae.Tf holds %r'
                                 % (spec['model'], pn, i, float(p.v[i]), s.name, float(ss.dae.Tf[a])))
        if fresh and len(mdl._input):
            for pn in tracked:
                p = d[pn]
                arrs = [mdl._input.get(pn)] + [a for nm, a in zip(mdl.calls.f_args, mdl.f_args) if nm == pn] + \
                       [a for nm, a in zip(mdl.calls.g_args, mdl.g_args) if nm == pn]
                if any(a is None or not np.array_equal(a, p.v) for a in arrs):
                    fail('alter-not-visible-to-residual', '%s.%s: the array handed to the residual functions is not the '
                         'parameter array after %s' % (spec['model'], pn, k))
    line = 'pu %s %s %s %s %s' % (''.join(str(b) for b in shape(mdl)), f2h(ss.config.mva),
                                  ext or ext_cols_presetup(mdl), ';'.join(plist),
                                  ';'.join(op_token(o, tracked) for o in done) or '-')
    return line, '|'.join(obs), done


_fixed_cache = {}


def fixed_roles(case, mname):
    """base parameters of the model that are not plain NumParams (ExtParams linked from another model at every
    set-up): their linked values; constant within a sequence because other models are not altered"""
    if case not in _fixed_cache:
        ss = load(case, setup=True)
        out = {}
        for name, mdl in ss.models.items():
            d = mdl.__dict__
            out[name] = {rn: [float(x) for x in d[rn].v] for rn in ROLE
                         if rn in d and not plain_num(d[rn]) and hasattr(d[rn], 'v')}
        _fixed_cache[case] = out
    return _fixed_cache[case][mname]


def strip_extra(obs, nt):
    """drop the pseudo parameters (fixed base columns) from a model observation string"""
    out = []
    for o in obs.split('|'):
        parts = o.split(' ')
        if len(parts) != 3:
            out.append(o)
            continue
        w = parts[2] if parts[2] == '-' else ';'.join(parts[2].split(';')[:nt])
        out.append(' '.join([parts[0], ';'.join(parts[1].split(';')[:nt]), w]))
    return '|'.join(out)


def ext_cols_presetup(mdl):
    return ';'.join(hexs([0.0] * mdl.n) for _ in range(4))


def op_sig(spec, done):
    return (spec['case'], spec['model'], ''.join(o['op'] + o.get('attr', '') for o in done), tuple(spec['tracked']))


def check_specs(ctx, specs, with_model=True):
    lines, recs = [], []
    for spec in specs:
        fails = []
        try:
            line, impl, done = run_spec(spec, fails)
        except Exception as e:
            ctx.count('ops_harness_exception_' + type(e).__name__)
            ctx.oracle_fail('exception:' + type(e).__name__, 'running the sequence raised %r' % (e,), spec)
            continue
        post = [o for o in done if o['op'] in 'AMG']
        seen_setup = False
        nontriv = False
        for o in done:
            seen_setup = seen_setup or o['op'] == 'S'
            nontriv = nontriv or (seen_setup and o['op'] in 'AMG')
        ctx.case(op_sig(spec, done) if nontriv else None,
                 {'case': spec['case'], 'model': spec['model'], 'tracked': spec['tracked'],
                  'ops': ''.join(o['op'] for o in done)} if len(ctx.samples) < 5 else None)
        ctx.count('ops_len_%d' % min(len(done) // 4 * 4, 20))
        for o in done:
            ctx.count('op_' + o['op'] + o.get('attr', ''))
        ctx.count('ops_model_' + spec['model'])
        if len(done) < len(spec['ops']):
            ctx.count('ops_skipped_not_applicable', len(spec['ops']) - len(done))
        for key, what in dict((k, w) for k, w in reversed(fails)).items():
            if key == '_adjusted':
                ctx.count('ops_ended_limit_adjusted_by_init')
                continue
            ctx.oracle_fail(key, what, dict(spec, ops=done))
        lines.append(line)
        recs.append((spec, impl, done))
    if not with_model:
        return
    outs = ctx.driver.ask(lines)
    for (spec, impl, done), out, line in zip(recs, outs, lines):
        out = strip_extra(out, len(spec['tracked']))
        for st in out.split('|'):
            ctx.count('status_' + st.split(' ')[0])
        if impl != out:
            a, b = impl.split('|'), out.split('|')
            i = next((j for j in range(min(len(a), len(b))) if a[j] != b[j]), min(len(a), len(b)))
            ctx.disagree('ops', dict(spec, ops=done, first_difference_at_op=i),
                         (a[i] if i < len(a) else 'missing')[:600], (b[i] if i < len(b) else 'missing')[:600])


def ops_stream(ctx, n):
    specs = []
    for k in range(n):
        case = CASES[k % len(CASES)]
        specs.append(gen_spec(ctx.rng, case))
    # directed: a time constant shared by several states (REGCA1.Tg, REPCA1.Tfltr, ...) altered after TDS initialisation
    for case in CASES:
        for m in shared_tc_models(case):
            for _ in range(ctx.n(1, 4)):
                specs.append(gen_spec(ctx.rng, case, want=m, shared_tc=True))
                ctx.count('specs_shared_time_constant')
    # directed: after set-up, a flagged parameter of a device whose base differs from the system base is altered to the
    # number currently shown in the OTHER representation (through the model and through the group, both attributes)
    for case in CASES:
        meta = case_meta(case)
        for mname in sorted(meta):
            ps = meta[mname]['params']
            flagged = sorted(p for p in ps if ps[p]['kinds'] and p not in meta[mname]['roles'])
            if not flagged or meta[mname]['n'] == 0:
                continue
            if ctx.rng.random() > (0.5 if not ctx.thorough else 1.0):
                continue
            p_ = ctx.rng.choice(flagged)
            uid = ctx.rng.randrange(meta[mname]['n'])
            ops = [{'op': 'S'}]
            for g in (1, 0):
                for same in ('v', 'vin'):
                    ops.append({'op': 'A', 'p': p_, 'uid': uid, 'x': 0.0, 'attr': ctx.rng.choice(['v', 'v', 'i']), 'g': g, 'same': same})
                    ops.append({'op': 'A', 'p': p_, 'uid': uid, 'x': round(ctx.rng.uniform(0.5, 9.0), 2), 'attr': 'v', 'g': g})
            ops += [{'op': 'X'}, {'op': 'J'}]
            specs.append({'stream': 'ops', 'case': case, 'model': mname, 'tracked': list(meta[mname]['roles']) + [p_], 'ops': ops})
            ctx.count('specs_coinciding_values')
    check_specs(ctx, specs)


# ------------------------------------------------------------------ effect on the residual and on the dynamics

def residual_effect(ctx, n):
    """after power flow, alter PQ.p0 / q0 by delta (input base): the next g evaluation moves by exactly k*delta
    at that bus and nowhere else"""
    import numpy as np
    for k in range(n):
        case = ctx.rng.choice(['ieee14/ieee14_full.xlsx', 'kundur/kundur_full.xlsx', 'ieee39/ieee39_full.xlsx'])
        ss = load(case, setup=True)
        ss.PFlow.run()
        uid = ctx.rng.randrange(ss.PQ.n)
        src = ctx.rng.choice(['p0', 'q0'])
        delta = ctx.rng.choice([0.25, -0.1, 1.5])
        via = ctx.rng.choice(['model', 'group'])

        def geval():
            ss.PFlow.fg_update()
            return ss.dae.g.copy()
        g0 = geval()
        p = ss.PQ.__dict__[src]
        new = float(p.vin[uid]) + delta
        (ss.PQ if via == 'model' else ss.StaticLoad).alter(src, ss.PQ.idx.v[uid], new)
        g1 = geval()
        addr = int((ss.PQ.a.a if src == 'p0' else ss.PQ.v.a)[uid])
        want = np.zeros_like(g0)
        want[addr] = float(ss.PQ.u.v[uid]) * delta * float(p.pu_coeff[uid])
        spec = {'stream': 'residual', 'case': case, 'uid': uid, 'src': src, 'delta': delta, 'via': via}
        ctx.case((case, uid, src, delta, via), spec if k == 0 else None)
        ctx.count('residual_effect_cases')
        if np.max(np.abs((g1 - g0) - want)) > 1e-10:
            ctx.oracle_fail('alter-not-visible-to-residual',
                            'PQ.%s altered by %r (x k=%r): the residual moved by %r at its bus, expected %r'
                            % (src, delta, float(p.pu_coeff[uid]), float((g1 - g0)[addr]), float(want[addr])), spec)


def dynamics_effect(ctx, n):
    """altering the inertia M of a machine after TDS initialisation gives the trajectory of a case that had this
    value of M from the start (M enters only as the time constant of omega)"""
    import numpy as np
    for k in range(n):
        case = 'kundur/kundur_full.xlsx'
        uid = ctx.rng.randrange(4)
        fac = ctx.rng.choice([0.5, 2.0, 1.3])
        via = ctx.rng.choice(['model', 'group'])
        attr = ctx.rng.choice(['v', 'vin'])
        outs = []
        for mode in ('late', 'early'):
            ss = load(case)
            idx = ss.GENROU.idx.v[uid]
            m_in = float(ss.GENROU.M.v[uid]) * fac
            if mode == 'early':
                ss.GENROU.alter('M', idx, m_in)
            ss.setup()
            ss.PFlow.run()
            ss.TDS.config.no_tqdm = 1
            ss.TDS.config.tf = 2.3
            with contextlib.redirect_stdout(io.StringIO()):
                ss.TDS.init()
                if mode == 'late':
                    tgt = ss.GENROU if via == 'model' else ss.SynGen
                    if attr == 'v':
                        tgt.alter('M', idx, m_in)
                    else:
                        tgt.alter('M', idx, m_in * float(ss.GENROU.M.pu_coeff[uid]), attr='vin')
                ok = ss.TDS.run()
            outs.append((ok, ss.dae.x.copy(), float(ss.GENROU.M.v[uid])))
        spec = {'stream': 'dynamics', 'uid': uid, 'fac': fac, 'via': via, 'attr': attr}
        ctx.case(('dyn', uid, fac, via, attr), spec if k == 0 else None)
        ctx.count('dynamics_effect_cases')
        err = float(np.max(np.abs(outs[0][1] - outs[1][1])))
        ctx.cov['dynamics_max_state_difference'] = max(ctx.cov.get('dynamics_max_state_difference', 0.0), err)
        if not (outs[0][0] and outs[1][0]) or err > 1e-8:
            ctx.oracle_fail('time-constant-not-effective',
                            'altering GENROU.M after TDS init (x%r, %s, attr=%s): final states differ by %.3g from the run '
                            'that had this M from the start' % (fac, via, attr, err), spec)


# ------------------------------------------------------------------ entry points

def corpus_specs():
    return [json.load(open(f)) for f in sorted(glob.glob(os.path.join(CORPUS, '*.json')))]


def run(ctx):
    import time
    quiet()
    t0 = time.time()

    def lap(name):
        ctx.cov.setdefault('stream_seconds', {})[name] = round(time.time() - t0, 1)
    ctx.cov['source_hashes'] = {
        'System.calc_pu_coeff': C.hash_source(os.path.join(C.REPO, 'andes/system.py'), 'System.calc_pu_coeff'),
        'Model.alter': C.hash_source(os.path.join(C.REPO, 'andes/core/model/model.py'), 'Model.alter'),
        'Model.set': C.hash_source(os.path.join(C.REPO, 'andes/core/model/model.py'), 'Model.set'),
        'Group.set': C.hash_source(os.path.join(C.REPO, 'andes/models/group.py'), 'GroupBase.set'),
        'NumParam.set_pu_coeff': C.hash_source(os.path.join(C.REPO, 'andes/core/param.py'), 'NumParam.set_pu_coeff'),
    }
    check_specs(ctx, corpus_specs())
    lap('corpus')
    static_stream(ctx, ctx.n(7, 40))
    lap('static')
    ops_stream(ctx, ctx.n(45, 400))
    lap('ops')
    residual_effect(ctx, ctx.n(3, 30))
    lap('residual')
    dynamics_effect(ctx, ctx.n(1, 6))
    lap('dynamics')
    list_param_stream(ctx)
    lap('list-params')


def list_param_stream(ctx):
    """parameters entered as list literals (switched-shunt blocks `gs`, `bs`: admittance-flagged, with an output
    converter) on devices whose base differs from the system base: v = vin * k element-wise, and the case export writes
    the ENTERED lists (reference: the cells of the case file read with pandas, not the System)"""
    import ast
    import numpy as np
    import pandas as pd
    import andes
    f = andes.get_case('ieee14/ieee14_shuntsw.xlsx')
    entered = pd.read_excel(f, sheet_name='ShuntSw')
    for sn_scale in (1.0, ctx.rng.choice([0.5, 2.0, 0.37])):
        ss = andes.load(f, setup=False, no_output=True, default_config=True)
        for i in range(ss.ShuntSw.n):
            ss.ShuntSw.Sn.v[i] = float(entered['Sn'][i]) * sn_scale
        ss.setup()
        spec = {'stream': 'list-params', 'sn_scale': sn_scale}
        ctx.case(('list-params', sn_scale), spec)
        from andes.io import json as ajson
        rows = json.loads(ajson._dump_system(ss, True))['ShuntSw']
        with Capture() as cap:
            from andes.io import xlsx
            xlsx._write_system(ss, None, True)
        xrows = cap.sheets['ShuntSw']
        bases = resolved_bases(ss, ss.ShuntSw)
        for pn in ('gs', 'bs'):
            par = ss.ShuntSw.__dict__[pn]
            for i in range(ss.ShuntSw.n):
                want = [float(x) for x in ast.literal_eval(str(entered[pn][i]))]
                k = textbook(KINDS[kinds_of(par)[-1]], *bases[i]) if kinds_of(par) else 1.0
                ctx.count('list_param_entries_checked')
                if not np.allclose(np.asarray(par.v[i], dtype=float), np.asarray(want) * k, rtol=1e-12, atol=0):
                    ctx.oracle_fail('pu-coeff-not-textbook', 'ShuntSw.%s[%d]: system-base list %r, entered %r, textbook ratio %r'
                                    % (pn, i, list(par.v[i]), want, k), spec)
                for label, cell in (('json', rows[i][pn]), ('xlsx', xrows[pn].tolist()[i])):
                    got = [float(x) for x in ast.literal_eval(str(cell))]
                    if len(got) != len(want) or any(abs(a - b) > 1e-12 * (1 + abs(b)) for a, b in zip(got, want)):
                        ctx.oracle_fail('export-list-param-not-input', 'ShuntSw.%s[%d] (k = %r): the %s export writes %r, the entered '
                                        'list is %r' % (pn, i, k, label, got, want), spec)


def search(ctx):
    ctx.tier = 'thorough'
    ops_stream(ctx, 200)


def replay(ctx, rep):
    quiet()
    case = rep.get('case') or {}
    ctx2 = C.Ctx(ctx.pid, 'quick', ctx.seed)
    ctx2.known = {}
    st = case.get('stream')
    if st == 'ops':
        check_specs(ctx2, [case], with_model=False)
    elif st == 'static':
        lines, metas = [], []
        static_case(ctx2, case['case'], case['scal'], lines, metas)
    elif st == 'residual':
        residual_effect(ctx2, 6)
    elif st == 'dynamics':
        dynamics_effect(ctx2, 2)
    else:
        print('replay: unknown stream', st)
        return True
    for f in ctx2.oracle_failures:
        print('  ', f['key'], f['what'])
    return not ctx2.oracle_failures
