"""C07 — simulated trajectories agree with an independent reference solution.

Lean: Andes/Props/C07.lean over the REGENERATED translations Andes/Gen/Gencls.lean (declared GENCLS
equations) and Andes/Gen/DaeInt.lean (calc_q): the code's classical machine reduces to the textbook swing
equation; the trapezoidal step map on a linear system is the (1,1)-Pade approximant with unit modulus on
the imaginary axis, backward Euler contracts; orders of accuracy.
Oracle on the real code (residue, measured): (a) single machine / infinite bus through two switched lines,
random inertia, damping, reactances, loading and switching times, both methods, against an independent
high-accuracy integration (SciPy RK45, rtol 1e-10, restarted at every switching time) of the swing equation
whose data are computed from the physical input data (not from ANDES' initialisation); error must shrink
under step halving and stay within a bound at the default step; (b) small perturbations of a stock case
against expm(As t) of its own linearisation."""
import json
import math
import os
import subprocess
import sys

from harness import common as C

PROP_MODULES = ['Andes.Props.C07', 'Andes.Props.C04Order']
RULE = ('SMIB case = (M, D, xd\', x1, x2, P, V, trip time, reclose time, method); small-signal case = (stock case, '
        'perturbation direction seed, method); distinct = distinct parameter tuple; non-trivial = a line is switched / '
        'the perturbation excites at least one oscillatory mode')
ASSUMPTIONS = [
    'convergence of the nonlinear trajectory is measured (step halving), not proved; the reference integrator (SciPy RK45) and expm are SciPy\'s',
    'the infinite bus is a Slack generator kept as a voltage source during the simulation',
    'theorems are about the regenerated equations (exact reals); rounding and Newton tolerance appear only in the measured errors',
]


def generate(ctx):
    from translator import gencls, daeint
    g = gencls.generate(C.LEAN)
    daeint.generate(C.LEAN)
    ctx.cov['gencls_binder'] = g['binder']
    ctx.cov['gencls_algebraic_equations'] = g['algebs']
    return {'modules': ['Andes.Gen.Gencls', 'Andes.Gen.DaeInt'], 'theorems': []}


SMIB = r'''
import sys, json, warnings, io, contextlib, cmath, math
warnings.simplefilter('ignore')
import numpy as np, andes
from scipy.integrate import solve_ivp
andes.config_logger(stream_level=50)
p = json.loads(sys.argv[1])
def build(tstep, method):
    ss = andes.System(default_config=True, no_output=True)
    ss.add('Bus', dict(idx=1, name='G', Vn=20.0, v0=1.0, a0=0.0))
    ss.add('Bus', dict(idx=2, name='INF', Vn=20.0, v0=1.0, a0=0.0))
    ss.add('Slack', dict(idx='S', bus=2, v0=p['Vinf'], a0=0.0, Sn=100.0, Vn=20.0, p0=0.0, q0=0.0, pmax=99, pmin=-99, qmax=99, qmin=-99))
    ss.add('PV', dict(idx='G1', bus=1, p0=p['P'], v0=p['V1'], Sn=100.0, Vn=20.0, pmax=99, pmin=-99, qmax=99, qmin=-99))
    ss.add('Line', dict(idx='L1', bus1=1, bus2=2, r=0.0, x=p['x1'], b=0.0, Vn1=20.0, Vn2=20.0, Sn=100.0))
    ss.add('Line', dict(idx='L2', bus1=1, bus2=2, r=0.0, x=p['x2'], b=0.0, Vn1=20.0, Vn2=20.0, Sn=100.0))
    if p.get('x3'):
        # a third parallel line that is switched at the SAME instants as L2 (two simultaneous switchings)
        ss.add('Line', dict(idx='L3', bus1=1, bus2=2, r=0.0, x=p['x3'], b=0.0, Vn1=20.0, Vn2=20.0, Sn=100.0))
        ss.add('Toggle', dict(model='Line', dev='L3', t=p['t_trip']))
        if p['t_close'] > 0:
            ss.add('Toggle', dict(model='Line', dev='L3', t=p['t_close']))
    ss.add('GENCLS', dict(idx='M1', bus=1, gen='G1', Sn=p.get('Sn', 100.0), Vn=20.0, M=p['M'], D=p['D'], xd1=p['xd1'], ra=0.0, fn=60.0))
    ss.add('Toggle', dict(model='Line', dev='L2', t=p['t_trip']))
    if p['t_close'] > 0:
        ss.add('Toggle', dict(model='Line', dev='L2', t=p['t_close']))
    ss.setup()
    ss.PFlow.config.check_conn = 0
    ok = ss.PFlow.run()
    c = ss.TDS.config
    c.no_tqdm = 1; c.criteria = 0; c.tf = p['tf']; c.tstep = tstep; c.fixt = 1; c.method = method; ss.TDS.set_method(method)
    c.tol = 1e-8
    return ss, ok
sink = io.StringIO()
out = {}
# ---- independent reference from the physical data
ss, ok = build(1/30, p['method'])
if not ok:
    print(json.dumps({'error': 'power flow did not converge'})); sys.exit(0)
V1 = ss.Bus.v.v[0] * cmath.exp(1j * ss.Bus.a.v[0])
Vinf = p['Vinf']
def xline(on2):
    y = 1.0 / p['x1']
    if on2:
        y += 1.0 / p['x2'] + (1.0 / p['x3'] if p.get('x3') else 0.0)
    return 1.0 / y
I = (V1 - Vinf) / (1j * xline(True))               # current from the machine bus into the network
# machine data are given on the machine rating Sn; the network is on the 100 MVA system base
kS = p.get('Sn', 100.0) / 100.0
xd1s, Ds = p['xd1'] / kS, p['D'] * kS
Ms = (p.get('M_alter') or p['M']) * kS          # (M_alter: the inertia is changed through alter() after TDS.init)
E = V1 + 1j * xd1s * I
Emag, delta0 = abs(E), cmath.phase(E)
Pm = (V1 * np.conj(I)).real
w0 = 2 * math.pi * 60.0
def rhs(on2):
    X = xd1s + xline(on2)
    return lambda t, y: [w0 * (y[1] - 1.0), (Pm - Emag * Vinf / X * math.sin(y[0]) - Ds * (y[1] - 1.0)) / Ms]
bps = [0.0, p['t_trip']] + ([p['t_close']] if p['t_close'] > 0 else []) + [p['tf']]
states = [True, False, True]
def reference(ts):
    y = [delta0, 1.0]; res = {}
    for k in range(len(bps) - 1):
        a, b = bps[k], bps[k + 1]
        tt = [t for t in ts if a < t <= b]
        sol = solve_ivp(rhs(states[k]), (a, b), y, t_eval=sorted(set(tt + [b])), rtol=1e-11, atol=1e-13, method='DOP853')
        for t, d, w in zip(sol.t, sol.y[0], sol.y[1]):
            res[float(t)] = (float(d), float(w))
        y = [sol.y[0][-1], sol.y[1][-1]]
    res[0.0] = (delta0, 1.0)
    return res
errs = []
for k in (1, 2, 4):
    ss, ok = build(1/30/k, p['method'])
    rejected = [0]
    if p.get('reject'):
        # injected fault: the first attempt of a few steps in the middle of the run is made to fail (iteration limit 1 for
        # that one call), so that the integrator has to reject the step, shrink it and try again from the SAME state
        nst = p['tf'] * 30 * k
        at = set(max(2, int(fr * nst)) for fr in p['reject'])
        calls = [0]
        orig = ss.TDS.itm_step
        def sabotaged():
            calls[0] += 1
            if calls[0] in at:
                mi = ss.TDS.config.max_iter
                ss.TDS.config.max_iter = 1       # two Newton iterations: the right-hand sides have been re-evaluated at an iterate
                # ... and the attempt DIVERGES: the linear solver's answer is scaled, the iterate flies away from the solution
                sv = ss.TDS.solver
                so, lo = sv.solve, sv.linsolve
                sv.solve = lambda A, b: -25.0 * so(A, b)
                sv.linsolve = lambda A, b: -25.0 * lo(A, b)
                try:
                    okk = orig()
                finally:
                    ss.TDS.config.max_iter = mi
                    sv.solve, sv.linsolve = so, lo
                if not okk:
                    rejected[0] += 1
                return okk
            return orig()
        ss.TDS.itm_step = sabotaged
    with contextlib.redirect_stdout(sink):
        if p.get('M_alter'):
            ss.TDS.init()
            ss.GENCLS.alter('M', 'M1', p['M_alter'])
        done = ss.TDS.run()
    ts = [float(t) for t in ss.dae.ts.t]
    d_addr = int(ss.GENCLS.delta.a[0]); w_addr = int(ss.GENCLS.omega.a[0])
    ref = reference(ts)
    xs = ss.dae.ts.x
    e_d = max(abs(xs[i, d_addr] - ref[t][0]) for i, t in enumerate(ts) if t in ref)
    e_w = max(abs(xs[i, w_addr] - ref[t][1]) for i, t in enumerate(ts) if t in ref)
    errs.append({'h': 1/30/k, 'done': bool(done), 'err_delta': float(e_d), 'err_omega': float(e_w), 'n': len(ts),
                 'delta0_andes': float(xs[0, d_addr]), 'rejected': rejected[0]})
swing = max(abs(v[0] - delta0) for v in ref.values())
# natural frequency of the swing (largest over the network states of the schedule), from the physical data
wn = max(math.sqrt(w0 * Emag * Vinf / (xd1s + xline(on)) * abs(math.cos(delta0)) / Ms) for on in (True, False))
out = {'errs': errs, 'delta0_ref': delta0, 'E': Emag, 'Pm': float(Pm), 'swing': float(swing), 'wn': float(wn),
       'vf0_andes': float(ss.GENCLS.vf0.v[0]), 'tm0_andes': float(ss.GENCLS.tm0.v[0])}
print(json.dumps(out))
'''

SMALL = r'''
import sys, json, warnings, io, contextlib
warnings.simplefilter('ignore')
import numpy as np, andes
from scipy.linalg import expm
andes.config_logger(stream_level=50)
p = json.loads(sys.argv[1])
sink = io.StringIO()
def mk(tstep):
    ss = andes.load(andes.get_case(p['case']), no_output=True, default_config=True)
    # remove the stock disturbances
    for mdl in (ss.Toggle, ss.Fault, ss.Alter):
        for tp in mdl.timer_params.values():
            for i in range(len(tp.v)):
                tp.v[i] = -1.0
    ss.PFlow.run()
    c = ss.TDS.config; c.no_tqdm = 1; c.criteria = 0; c.tf = p['tf']; c.tstep = tstep; c.fixt = 1; c.tol = 1e-9
    c.method = p['method']; ss.TDS.set_method(p['method'])
    with contextlib.redirect_stdout(sink):
        ss.TDS.init()
    return ss
ss = mk(1/120)
# reference linear model computed here from the Jacobian blocks (not by the EIG routine): states with a zero time
# constant are algebraic, As = T_D^-1 (F_DD - F_DA G_AA^-1 G_AD) over the states D with T != 0
from kvxopt import matrix as _mat
def dense(sp):
    return np.array(_mat(sp))
models = ss.exist.pflow_tds
ss.TDS.fg_update(models); ss.j_update(models)
fx, fy, gx, gy = dense(ss.dae.fx), dense(ss.dae.fy), dense(ss.dae.gx), dense(ss.dae.gy)
Tf = np.array(ss.dae.Tf, dtype=float)
D = np.where(Tf != 0)[0]; Z = np.where(Tf == 0)[0]
nz = len(Z)
F = np.block([[fx, fy], [gx, gy]])
nx = len(Tf)
A_idx = np.concatenate([Z, nx + np.arange(gy.shape[0])]).astype(int)
FAA = F[np.ix_(A_idx, A_idx)]
if np.linalg.matrix_rank(FAA) < len(A_idx) or np.linalg.cond(FAA) > 1e13:
    # states with zero time constants whose equations do not determine them (second-order blocks with both time
    # constants zero, IEEEST in ieee39_full): no reduced linear model exists to compare with
    print(json.dumps({'skip': 'the block of algebraic variables and zero-time-constant states is singular', 'zero_T': int(nz)}))
    sys.exit(0)
As = (F[np.ix_(D, D)] - F[np.ix_(D, A_idx)] @ np.linalg.solve(FAA, F[np.ix_(A_idx, D)])) / Tf[D][:, None]
xeq = ss.dae.x.copy()
rng = np.random.default_rng(p['seed'])
# excite slow modes only (|lambda| < 20 1/s): a random perturbation would mostly excite stiff modes (|h lambda| >> 1),
# for which no implicit one-step method at this step size reproduces the exponential
mu0, N0 = np.linalg.eig(As)
slow = [k for k in range(len(mu0)) if abs(mu0[k]) < 20.0]
dD = np.zeros(len(D))
for k in rng.choice(slow, size=min(3, len(slow)), replace=False):
    dD += rng.normal() * np.real(N0[:, k]) + rng.normal() * np.imag(N0[:, k])
dD *= p['eps'] / np.linalg.norm(dD)
d = np.zeros(len(xeq)); d[D] = dD        # the zero-T states follow algebraically (first negligible run below)
res = []
for k in (1, 2):
    ss = mk(1/120/k)
    ss.dae.x[:] = xeq + d
    ss.vars_to_models()
    # a first, negligible run to t = 1e-6 makes the algebraic variables and the stored right-hand side
    # consistent with the perturbed state (otherwise the first trapezoidal step would use the stale f0 = 0)
    ss.TDS.config.tf = 1e-6
    with contextlib.redirect_stdout(sink):
        ok = ss.TDS.run()
        ss.TDS.config.tf = p['tf']
        ok = ss.TDS.run() and ok
    ts = np.array(ss.dae.ts.t); xs = np.array(ss.dae.ts.x)
    worst = worst_s = 0.0
    h0 = float(ts[1] - ts[0]) if len(ts) > 1 else 0.0
    for i in range(0, len(ts), max(1, len(ts) // 40)):
        lin = expm(As * ts[i]) @ dD
        worst = max(worst, float(np.linalg.norm((xs[i] - xeq)[D] - lin)))
        # the loop integrates one step BEFORE storing the first row at t=0: rows are one step ahead of their stamps
        lin_s = expm(As * (ts[i] + h0)) @ dD
        worst_s = max(worst_s, float(np.linalg.norm((xs[i] - xeq)[D] - lin_s)))
    res.append({'h': 1/120/k, 'ok': bool(ok), 'err': worst, 'rel': worst / p['eps'], 'rel_shifted': worst_s / p['eps']})
mu = np.linalg.eigvals(As)
print(json.dumps({'res': res, 'n': len(xeq), 'zero_T': nz, 'max_re': float(mu.real.max()),
                  'osc_modes': int(np.count_nonzero(np.abs(mu.imag) > 1.0) // 2)}))
'''


def job(args):
    script, spec = args
    p = subprocess.run([sys.executable, '-c', script, json.dumps(spec)], stdout=subprocess.PIPE, stderr=subprocess.PIPE,
                       text=True, timeout=3000)
    if p.returncode != 0:
        return {'error': p.stderr[-500:]}
    try:
        return json.loads(p.stdout.strip().split('\n')[-1])
    except Exception:
        return {'error': 'no json: ' + p.stdout[-200:]}


def gen_smib(rng):
    x1 = round(rng.uniform(0.2, 0.6), 3)
    x2 = round(rng.uniform(0.2, 0.8), 3)
    # "for every choice of line-switching times": on-grid, short decimals, and arbitrary doubles (thirds, 1/30 multiples)
    def when(lo, hi):
        k = rng.random()
        x = rng.uniform(lo, hi)
        if k < 0.35:
            return round(x, rng.choice([1, 2, 4]))
        if k < 0.55:
            return round(x * 30) / 30.0
        return x
    t_trip = when(0.1, 0.6)
    t_close = when(t_trip + 0.05, t_trip + 0.5) if rng.random() < 0.7 else -1.0
    Sn = rng.choice([100.0, 100.0, 50.0, 200.0, 80.0])
    M = round(rng.uniform(3.0, 12.0), 2)
    return {'Sn': Sn, 'M_alter': (round(M * 100.0 / Sn * rng.choice([0.6, 1.5]), 3) if rng.random() < 0.3 else None),
            'M': round(M * 100.0 / Sn, 3), 'D': rng.choice([0.0, 0.0, 1.0, 4.0]) * 100.0 / Sn, 'xd1': round(rng.uniform(0.15, 0.4) * Sn / 100.0, 4),
            'x1': x1, 'x2': x2, 'P': round(rng.uniform(0.3, 0.9), 2), 'V1': rng.choice([1.0, 1.02, 1.05]), 'Vinf': 1.0,
            't_trip': t_trip, 't_close': t_close, 'tf': 2.0, 'method': rng.choice(['trapezoid', 'trapezoid', 'backeuler']),
            'x3': (round(rng.uniform(0.3, 0.9), 3) if rng.random() < 0.3 else None),
            'reject': ([round(rng.uniform(0.15, 0.9), 3) for _ in range(rng.choice([1, 2, 3]))] if rng.random() < 0.4 else None)}


def run(ctx):
    import multiprocessing as mp
    jobs = [(SMIB, gen_smib(ctx.rng)) for _ in range(ctx.n(8, 60))]
    cases = ['kundur/kundur_full.xlsx'] + (['ieee14/ieee14_full.xlsx', 'ieee39/ieee39_full.xlsx'] if ctx.thorough else [])
    for case in cases:
        for _ in range(ctx.n(2, 5)):
            jobs.append((SMALL, {'case': case, 'seed': ctx.rng.randrange(1 << 30), 'eps': 1e-4, 'tf': 0.5,
                                 'method': ctx.rng.choice(['trapezoid', 'backeuler'])}))
    with mp.get_context('fork').Pool(8) as pool:
        res = pool.map(job, jobs)
    worst_ratio = {}
    for (script, spec), r in zip(jobs, res):
        ctx.case(json.dumps(spec, sort_keys=True), spec)
        if 'skip' in r:
            ctx.count('small_signal_skipped_singular_zeroT_block')
            continue
        if 'error' in r:
            if 'power flow did not converge' in r['error']:
                ctx.count('smib_pflow_not_converged')
                continue
            ctx.oracle_fail('benchmark-raises', 'benchmark run raised: ' + r['error'][-200:], spec)
            continue
        if script is SMIB:
            ctx.count('smib_cases')
            e = r['errs']
            if spec.get('x3'):
                ctx.count('smib_cases_with_two_simultaneous_switchings')
            if spec.get('reject'):
                ctx.count('smib_cases_with_injected_step_rejections')
                ctx.count('smib_rejected_steps', sum(x.get('rejected', 0) for x in e))
            if not all(x['done'] for x in e):
                ctx.oracle_fail('smib-not-simulated', 'a stable single-machine case was not simulated to the end', spec)
                continue
            # initial rotor angle and field voltage against the independent phasor computation
            if abs(e[0]['delta0_andes'] - r['delta0_ref']) > 1e-6 or abs(r['vf0_andes'] - r['E']) > 1e-6:
                ctx.oracle_fail('smib-initial-point', 'initial rotor angle / EMF %r / %r differ from the phasor diagram %r / %r'
                                % (e[0]['delta0_andes'], r['vf0_andes'], r['delta0_ref'], r['E']), spec)
            order = 2 if spec['method'] == 'trapezoid' else 1
            e1, e2, e4 = e[0]['err_delta'], e[1]['err_delta'], e[2]['err_delta']
            ctx.cov.setdefault('smib_err_default_step_max', 0.0)
            ctx.cov['smib_err_default_step_max'] = max(ctx.cov['smib_err_default_step_max'], e1)
            ratio = e1 / e4 if e4 > 0 else float('inf')
            worst_ratio.setdefault(spec['method'], []).append(ratio)
            # converging: quartering the step must reduce the error (about 16x for order 2, 4x for order 1)
            # backward Euler damps the swing itself: at these steps its error is of the size of the swing and far from
            # its asymptotic regime, so only a clear decrease is required of it
            need = 6.0 if order == 2 else 1.3
            if order == 1 and r.get('wn'):
                # backward Euler damps a swing of frequency wn like exp(-wn^2 h t / 2): at these steps the error saturates
                # at the swing amplitude, and quartering the step lowers it by (1 - e^{-c h}) / (1 - e^{-c h / 4}) only,
                # c = wn^2 T / 2 (a ratio near 1 for swings above 2 Hz); never stricter than the plain criterion
                ch = r['wn'] ** 2 * spec['tf'] / 2 / 30
                r_exp = (1 - math.exp(-ch)) / (1 - math.exp(-ch / 4))
                need = min(1.3, max(1.05, 0.85 * r_exp))
            if e1 > 1e-7 and ratio < need:
                ctx.oracle_fail('smib-not-converging', '%s: error in delta %.3g at h=1/30 and %.3g at h=1/120 (ratio %.2f < %.1f): the '
                                'trajectory does not converge to the reference at the method\'s order' % (spec['method'], e1, e4, ratio, need), spec)
            # sanity bound only (phase error of a ~1.5 Hz swing over 2 s at h = 1/30 is about 0.15 rad plus O(h) at each
            # switching instant); the claim that is tested sharply is the convergence under step reduction above
            # the trapezoidal rule reproduces an oscillation of frequency wn with the relative phase error (h wn)^2 / 12
            # per radian: over T seconds an error of up to swing * wn^3 h^2 T / 12 (at most 2 * swing) is the
            # discretisation error of the method, not a defect (an inertia altered downwards gives swings above 3 Hz)
            phase = r.get('wn', 0.0) ** 3 * (1 / 30) ** 2 * spec['tf'] / 12
            bound = (max(0.5, min(2.0, 3.0 * phase)) if order == 2 else 1.5) * max(r['swing'], 0.05)
            if e1 > bound:
                ctx.oracle_fail('smib-error-at-default-step', '%s: error in delta %.3g rad at the default step exceeds %.3g (swing %.3g rad)'
                                % (spec['method'], e1, bound, r['swing']), spec)
        else:
            ctx.count('small_signal_cases')
            rr = r['res']
            ctx.cov.setdefault('small_signal_rel_err_max', 0.0)
            ctx.cov['small_signal_rel_err_max'] = max(ctx.cov['small_signal_rel_err_max'], rr[-1]['rel'])
            if r['zero_T'] > 0:
                ctx.count('small_signal_skipped_zero_T')
                continue
            if not all(x['ok'] for x in rr):
                ctx.oracle_fail('small-signal-not-simulated', 'perturbed stock case not simulated to the end', spec)
                continue
            # modes up to |lambda| = 20/s over 0.5 s at h = 1/120: (h lambda)^2/12 * |lambda| t is about 2e-2 for the
            # trapezoidal rule, h |lambda|^2 t / 2 about 0.8 for backward Euler in the worst case
            tolrel = 0.03 if spec['method'] == 'trapezoid' else 0.9
            if rr[0]['rel'] > tolrel:
                ctx.oracle_fail('small-signal-response-differs', '%s %s: the response to a 1e-4 slow-mode perturbation differs from expm(As t) by %.3g of '
                                'the perturbation size at h=1/120' % (spec['case'], spec['method'], rr[0]['rel']), spec)
            if rr[1]['rel'] > tolrel:
                ctx.oracle_fail('small-signal-response-differs', '%s %s: the response to a 1e-4 slow-mode perturbation differs from expm(As t) by %.3g of '
                                'the perturbation size at h=1/240' % (spec['case'], spec['method'], rr[1]['rel']), spec)
    ctx.cov['smib_error_ratio_h_over_h4'] = {k: [round(x, 2) for x in v[:12]] for k, v in worst_ratio.items()}


def search(ctx):
    run(ctx)


def replay(ctx, rep):
    spec = rep.get('case') or {}
    r = job((SMIB if 'M' in spec else SMALL, spec))
    print(json.dumps(r)[:1500])
    return 'error' not in r
