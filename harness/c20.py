"""C20 — the configuration in effect is the one the user supplied.

Lean: Andes/Props/C20.lean (model Andes/Model/Config.lean; generated table Andes/Gen/ConfigTables.lean).
Tie: random triples (rc file, -O option list, constructor dict) over random fields of System / routines /
models go through the REAL andes.System(...) constructor, a short run-time script (attribute assignment,
Config.update, as_dict(refresh=True)), save_config and a new System(config_path=saved); the field values
with their Python types, the as_dict caches, the saved texts and the exceptions are compared with the Lean
model run on the same inputs.  The property itself is evaluated on the real code by an oracle that does not
use the model (expected value by channel precedence, alternatives, malformed options, save/load equality)."""
import configparser
import glob
import json
import math
import os
import random
import re
import shutil

from harness import common as C

# behaviours the harness observes and counts but which the statement of C20 does not cover: private `_`
# keys are not configurable fields; unknown sections / fields are not "values outside the declared
# alternatives"; None and upper-case duplicate keys are not representable int/float/string values of a field
OUT_OF_STATEMENT = {'roundtrip-private-key-dropped', 'unknown-section-accepted', 'unknown-field-accepted', 'save-exception'}

PROP_MODULES = ['Andes.Props.C20']
GEN_MODULE = 'Andes.Gen.ConfigTables'
RULE = ('case = (2-5 config sections incl. System; rc file absent / empty / missing path / with known, unknown and '
        'DEFAULT sections; option list absent / empty / 1-4 options incl. repeated sections, sections absent from the '
        'rc, upper-case keys, blanks, and a small malformed stream; constructor dict absent or 1-3 typed values; '
        '0-3 run-time ops: attribute assignment, Config.update, as_dict(refresh); save_config; reload); values: '
        'members and non-members of _alt, ints, floats, inf/nan, numeric-looking strings (007, 1_000, 1e3, +5), '
        'booleans, None, plain and untrimmed strings; distinct = distinct case; non-trivial = at least one channel '
        'or run-time op supplies a value')
ASSUMPTIONS = [
    'Python int()/float()/str() on numerals are parameters of the model (Numerals): int syntax+value and float syntax are '
    'implemented in Lean and cross-checked against Python on random numeral-like strings (stream numerals); float values '
    'and float printing are supplied per case by the harness from Python itself',
    'configparser file syntax (read/write of an rc file) is trusted library code: the model receives the key/value texts '
    'a fresh ConfigParser reads from the file the harness wrote; set/add_section/__contains__/DEFAULT/section proxies are modelled',
    'texts are ASCII without "%" (configparser interpolation) and without line breaks; keys are non-empty and do not collide after lower-casing',
    'the constructor dict ranks ABOVE options and file in the code (Config.add never overwrites); the statement leaves its rank open; the oracle accepts that rank',
    'a field counts as string-typed when its default is a str and its _alt is absent or a tuple/set of strings',
]
CORPUS = os.path.join(C.ROOT, 'corpus', 'c20')
RESERVED = ('_name', '_dict', '_help', '_tex', '_alt')

_STATE = {}
# exceptions raised by the CONSUMERS of a config value during construction (np.random.seed, int()/float() in a
# model class), not by the configuration machinery: counted, not compared with the model
CONSUMER_ERRORS = (r'invalid literal for int|could not convert string to float|argument must be a string or a|'
                   r'Seed must be between|cannot convert float|Cannot cast|cannot be interpreted as an integer|'
                   r'unsupported operand type|not supported between instances')


# ---------------------------------------------------------------- values and encodings

def enc_val(v):
    """python value -> JSON-able tagged value"""
    if type(v) is bool:
        return ['b', v]
    if type(v) is int:
        return ['i', v]
    if type(v) is float:
        return ['f', C.f2h(v)]
    if type(v) is str:
        return ['s', v]
    if v is None:
        return ['n']
    return ['o', repr(v)[:60]]


def dec_val(t):
    k = t[0]
    if k == 'b':
        return bool(t[1])
    if k == 'i':
        return int(t[1])
    if k == 'f':
        return C.h2f(t[1])
    if k == 's':
        return t[1]
    if k == 'n':
        return None
    raise ValueError(t)


def hx(s):
    return s.encode('latin-1').hex()


def tok_val(t):
    k = t[0]
    if k == 'b':
        return 'bT' if t[1] else 'bF'
    if k == 'i':
        return 'i%d' % t[1]
    if k == 'f':
        return 'f' + t[1]
    if k == 's':
        return 's' + hx(t[1])
    if k == 'n':
        return 'n'
    return 'o' + hx(t[1])


def tok_kvs(kvs):
    return ','.join('%s:%s' % (hx(k), tok_val(v)) for k, v in kvs) or '-'


def tok_sect(kvs):
    return ','.join('%s:%s' % (hx(k), hx(v)) for k, v in kvs) or '-'


def same_val(a, b):
    if type(a) is not type(b):
        return False
    if type(a) is float:
        return C.f2h(a) == C.f2h(b) or (math.isnan(a) and math.isnan(b))
    return a == b


# ---------------------------------------------------------------- the real declarations

def real_decls():
    """name -> {'defaults': [(k, v)], 'alt': {k: [members]}, 'altdoc': {k: str}} from a default System; also order"""
    if 'decls' in _STATE:
        return _STATE['decls'], _STATE['order']
    import andes
    andes.config_logger(stream_level=50)
    ss = andes.System(default_config=True, no_undill=True)
    objs = [('System', ss.config)] + [(n, m.config) for n, m in ss.models.items()] + \
           [(n, r.config) for n, r in ss.routines.items()]
    decls, order = {}, []
    for name, cfg in objs:
        d = [(k, v) for k, v in cfg.__dict__.items() if k not in RESERVED]
        alt, altdoc = {}, {}
        for k, a in cfg._alt.items():
            if isinstance(a, str):
                altdoc[k] = a
            elif isinstance(a, (tuple, set, list, frozenset)):
                mem = list(a)
                if not all(type(m) in (int, str) for m in mem):
                    raise RuntimeError('unsupported _alt member in %s.%s: %r' % (name, k, a))
                alt[k] = sorted(mem, key=lambda m: (type(m).__name__, m))
            else:
                raise RuntimeError('unsupported _alt in %s.%s: %r' % (name, k, a))
        decls[name] = {'defaults': d, 'alt': alt, 'altdoc': altdoc}
        order.append(name)
    _STATE['decls'], _STATE['order'] = decls, order
    _STATE['n_routines'] = len(ss.routines)
    return decls, order


def lean_str(s):
    return '"' + s.replace('\\', '\\\\').replace('"', '\\"') + '"'


def lean_val(v):
    if type(v) is bool:
        return '.bool ' + ('true' if v else 'false')
    if type(v) is int:
        return '.int (%d)' % v
    if type(v) is float:
        return '.flt 0x%s' % C.f2h(v)
    if type(v) is str:
        return '.str ' + lean_str(v)
    if v is None:
        return '.none'
    raise RuntimeError('unsupported default %r' % (v,))


def generate(ctx):
    """translator: the declared config fields and _alt tables of the REAL objects -> Andes/Gen/ConfigTables.lean"""
    decls, order = real_decls()
    out = ['import Andes.Model.Config',
           '/-! GENERATED by harness/c20.py from the config objects of andes.System(default_config=True) of the',
           'current /repo working tree: every config section with its defaults (in `add` order) and its tuple/set',
           '`_alt` entries.  Do not edit. -/',
           'namespace Andes.Config.Gen', 'open Andes.Config', '',
           'def decls : List (Decl Nat) := [']
    rows = []
    nfields = 0
    for name in order:
        d = decls[name]
        nfields += len(d['defaults'])
        defs = ', '.join('(%s, %s)' % (lean_str(k), lean_val(v)) for k, v in d['defaults'])
        alts = ', '.join('(%s, [%s])' % (lean_str(k), ', '.join(lean_val(m) for m in mem)) for k, mem in d['alt'].items())
        rows.append('  ⟨%s, [%s], [%s]⟩' % (lean_str(name), defs, alts))
    out.append(',\n'.join(rows) + ']')
    out += ['', 'def nSections : Nat := %d' % len(order), 'def nFields : Nat := %d' % nfields, '',
            'end Andes.Config.Gen', '']
    txt = '\n'.join(out)
    path = os.path.join(C.LEAN, 'Andes', 'Gen', 'ConfigTables.lean')
    os.makedirs(os.path.dirname(path), exist_ok=True)
    old = open(path).read() if os.path.exists(path) else None
    if old != txt:
        with open(path, 'w') as fh:
            fh.write(txt)
    ctx.cov['generated_table'] = {'sections': len(order), 'fields': nfields, 'rewritten': old != txt}
    return {'modules': [GEN_MODULE], 'theorems': []}


# ---------------------------------------------------------------- generator

IDENT = ['klu', 'umfpack', 'trapezoid', 'backeuler', 'NR', 'andes', 'warn', 'ignore', 'auto', 'manual', 'BusFreq',
         'foo', 'Bar', 'x1', 'ipc:///tmp/dime2', 'a b', 'None', 'none', 'True', 'False', 'true', 'yes', '',
         'sim #2', 'a ;b', 'x#y', 'p;q']      # ('#' and ';' inside a value are part of the value)
NUMTXT = ['0', '1', '2', '5', '7', '007', '1_000', '+5', '-3', '10', '25', '3.5', '0.02', '1e3', '1E-4', '1.', '.5',
          '2.0', '1.0', '0.0', 'inf', '-inf', 'nan', 'Infinity', '1e400', '1_0.5', '60', '50', '100', '200.0', '-1']
ODD = ['1__0', '_1', '1_', '1e', '.', '-', '+', '1.2.3', '0x10', '1,5', '1 0', 'e5', 'in', 'nane', '--1']


def gen_text(rng, decl, key):
    """a value text for an rc file or an option"""
    r = rng.random()
    mem = decl['alt'].get(key) if decl else None
    if mem and r < 0.5:
        return str(rng.choice(mem))
    if mem and r < 0.6:
        return rng.choice(['2', '-1', '1.0', '0.0', 'bogus', 'KLU', '1.5', 'True'])
    if r < 0.8:
        return rng.choice(NUMTXT)
    if r < 0.93:
        return rng.choice(IDENT)
    return rng.choice(ODD)


def gen_val(rng, decl, key, runtime=False):
    """a typed python value for the dict channel / attribute assignment / update"""
    r = rng.random()
    mem = decl['alt'].get(key) if decl else None
    if mem and r < 0.35:
        return rng.choice(mem)
    if r < 0.45:
        return rng.choice([0, 1, 2, 5, 60, 300, -1, 10 ** 20])
    if r < 0.58:
        return rng.choice([0.0, 1.0, 0.5, 3.5, 200.0, 1e-8, 0.1, float('inf'), float('nan'), -0.0, 1e22])
    if r < 0.68:
        return rng.choice([True, False])
    if r < 0.72:
        return None
    if r < 0.86:
        return rng.choice(NUMTXT + ODD)
    if r < 0.93 and runtime:
        return rng.choice([' x', 'y ', ' 12 ', 'a b '])
    return rng.choice(IDENT)


def pick_key(rng, decl, p_unknown=0.1):
    keys = [k for k, _ in decl['defaults']] if decl else []
    if keys and rng.random() > p_unknown:
        return rng.choice(keys)
    return rng.choice(['nosuchfield', 'extra', 'zz', '_hidden', 'tf2'])


def gen_case(rng):
    decls, order = real_decls()
    others = [n for n in order if n != 'System']
    fav = ['TDS', 'PFlow', 'EIG', 'GENCLS', 'GENROU', 'PQ', 'PV', 'Bus', 'Line', 'Toggle', 'TG2', 'ShuntSw']
    nsec = rng.choice([1, 2, 2, 3, 4])
    secs = []
    while len(secs) < nsec:
        n = rng.choice(fav) if rng.random() < 0.6 else rng.choice(others)
        if n not in secs:
            secs.append(n)
    sections = ['System'] + secs
    case = {'sections': sections, 'rc': None, 'opts': None, 'dict': None, 'script': []}

    def anysec(p_unknown=0.08, p_default=0.0):
        r = rng.random()
        if r < p_unknown:
            return rng.choice(['Nope', 'tds', 'Sys'])
        if r < p_unknown + p_default:
            return 'DEFAULT'
        return rng.choice(sections)

    # rc file
    r = rng.random()
    if r < 0.28:
        case['rc'] = None
    elif r < 0.33:
        case['rc'] = {'missing': True, 'defaults': [], 'sects': []}
    else:
        rc = {'missing': False, 'defaults': [], 'sects': []}
        if rng.random() < 0.08:
            rc['defaults'] = [[pick_key(rng, decls[rng.choice(sections)]), rng.choice(NUMTXT + IDENT)]]
        names = []
        for _ in range(rng.choice([0, 1, 2, 2, 3, 4])):
            s = anysec()
            if s not in names:
                names.append(s)
        if rng.random() < 0.5:
            for s in sections:          # a saved-config style file: all sections present
                if s not in names:
                    names.append(s)
        for s in names:
            d = decls.get(s)
            kvs = {}
            for _ in range(rng.choice([0, 1, 1, 2, 3])):
                k = pick_key(rng, d)
                kvs[k] = gen_text(rng, d, k)
            rc['sects'].append([s, [[k, v] for k, v in kvs.items()]])
        case['rc'] = rc

    # options
    r = rng.random()
    if r < 0.3:
        case['opts'] = None
    elif r < 0.34:
        case['opts'] = []
    else:
        opts = []
        for _ in range(rng.choice([1, 1, 2, 2, 3, 4])):
            s = anysec(p_default=0.02)
            d = decls.get(s)
            k = pick_key(rng, d)
            v = gen_text(rng, d, k)
            m = rng.random()
            if m < 0.78:
                item = '%s.%s=%s' % (s, k, v)
            elif m < 0.84:
                item = '%s.%s = %s ' % (s, k, v)
            elif m < 0.88:
                item = '%s.%s=%s' % (s, k.upper(), v)
            else:
                item = rng.choice(['%s.%s==%s' % (s, k, v), '%s.%s' % (s, k), '%s%s=%s' % (s, k, v),
                                   '%s.%s.x=%s' % (s, k, v), '.%s=%s' % (k, v), '%s.=%s' % (s, v),
                                   '%s.%s=' % (s, k), '=%s' % v, '%s.%s=%s=%s' % (s, k, v, v), ''])
            opts.append(item)
        case['opts'] = opts

    # constructor dict (System only)
    if rng.random() < 0.4:
        d = decls['System']
        kvs = {}
        for _ in range(rng.choice([1, 1, 2, 3])):
            k = pick_key(rng, d, 0.12)
            if rng.random() < 0.05:
                k = k.upper()
            kvs[k] = enc_val(gen_val(rng, d, k))
        if len(set(k.lower() for k in kvs)) == len(kvs):
            case['dict'] = [[k, v] for k, v in kvs.items()]

    # run-time script
    for _ in range(rng.choice([0, 0, 1, 1, 2, 3])):
        s = rng.choice(sections)
        d = decls[s]
        m = rng.random()
        if m < 0.5:
            k = pick_key(rng, d, 0.05)
            case['script'].append(['A', s, k, enc_val(gen_val(rng, d, k, runtime=True))])
        elif m < 0.85:
            kvs = {}
            for _ in range(rng.choice([1, 1, 2])):
                k = pick_key(rng, d, 0.05)
                kvs[k] = enc_val(gen_val(rng, d, k, runtime=True))
            case['script'].append(['U', s, [[k, v] for k, v in kvs.items()]])
        else:
            case['script'].append(['F', s])
    return case


# ---------------------------------------------------------------- real code

def write_rc(path, rc):
    with open(path, 'w') as fh:
        if rc['defaults']:
            fh.write('[DEFAULT]\n')
            for k, v in rc['defaults']:
                fh.write('%s = %s\n' % (k, v))
        for s, kvs in rc['sects']:
            fh.write('[%s]\n' % s)
            for k, v in kvs:
                fh.write('%s = %s\n' % (k, v))
            fh.write('\n')


def read_rc(path):
    """what a fresh ConfigParser (no interpolation) reads: (defaults, [(section, own items)])"""
    cp = configparser.ConfigParser(interpolation=None)
    cp.read(path)
    defaults = list(cp._defaults.items())
    sects = [(s, list(cp._sections[s].items())) for s in cp._sections]
    return defaults, sects


def err_enum(e):
    msg = str(e)
    if isinstance(e, configparser.NoSectionError):
        return 'NoSection', ''
    if isinstance(e, configparser.DuplicateSectionError):
        return 'DuplicateSection', ''
    if isinstance(e, ValueError):
        if 'Invalid section name' in msg:
            return 'BadSectionName', ''
        if 'must be an assignment expression' in msg:
            return 'BadAssign', ''
        if 'must use format SECTION.FIELD' in msg:
            return 'BadField', ''
        m = re.match(r'^\[(.*?)\]\.(.*?)=', msg)
        if m and 'is not a choice' in msg:
            return 'NotAChoice', m.group(1) + '.' + m.group(2)
    if isinstance(e, TypeError) and 'option values must be strings' in msg:
        return 'ValueType', ''
    if isinstance(e, configparser.DuplicateOptionError):
        return 'DuplicateOption', ''
    return 'Other-' + type(e).__name__, msg[:60]


def show_err(kind, detail, with_section=True):
    if not with_section and '.' in detail:
        detail = detail.split('.', 1)[1]
    return '!%s:%s' % (kind, hx(detail))


def cfg_of(ss, name):
    if name == 'System':
        return ss.config
    if name in ss.models:
        return ss.models[name].config
    return ss.routines[name].config


def dump(ss, sections):
    out = []
    for s in sections:
        c = cfg_of(ss, s)
        fields = [(k, enc_val(v)) for k, v in c.__dict__.items() if k not in RESERVED]
        cache = [(k, enc_val(v)) for k, v in c._dict.items()]
        out.append('%s~%s~%s' % (hx(s), tok_kvs(fields), tok_kvs(cache)))
    return '|'.join(out)


def live(ss, sections):
    return {s: {k: v for k, v in cfg_of(ss, s).__dict__.items() if k not in RESERVED} for s in sections}


def run_real(case, work):
    """drive the real code; returns obs dict (everything the comparison and the oracle need)"""
    import andes
    sections = compared_sections(case)
    obs = {'sections': sections, 'rc_parsed': None}
    kw = {'no_undill': True}
    if case['rc'] is None:
        kw['default_config'] = True
    else:
        p = os.path.join(work, 'in.rc')
        if os.path.exists(p):
            os.remove(p)
        if not case['rc'].get('missing'):
            write_rc(p, case['rc'])
        kw['config_path'] = p
        obs['rc_parsed'] = read_rc(p)
    if case['dict'] is not None:
        kw['config'] = {k: dec_val(v) for k, v in case['dict']}
    if case['opts'] is not None:
        kw['options'] = {'config_option': list(case['opts'])}
    try:
        ss = andes.System(**kw)
    except Exception as e:  # noqa
        obs['construct_err'] = err_enum(e)
        obs['construct_exc'] = type(e).__name__
        return obs
    obs['C'] = dump(ss, sections)
    obs['live0'] = live(ss, sections)
    errs, script_obs = [], []
    for i, op in enumerate(case['script']):
        c = cfg_of(ss, op[1])
        if op[0] == 'A':
            setattr(c, op[2], dec_val(op[3]))
            script_obs.append(None)
        elif op[0] == 'F':
            c.as_dict(refresh=True)
            script_obs.append(None)
        else:
            try:
                c.update({k: dec_val(v) for k, v in op[2]})
                script_obs.append('ok')
            except Exception as e:  # noqa
                kind, detail = err_enum(e)
                errs.append('%d%s' % (i, show_err(kind, detail, with_section=False)))
                script_obs.append(kind)
    obs['S'] = ','.join(errs) or '-'
    obs['script_obs'] = script_obs
    obs['P'] = dump(ss, sections)
    obs['live1'] = live(ss, sections)
    out = os.path.join(work, 'out.rc')
    if os.path.exists(out):
        os.remove(out)
    try:
        ss.save_config(out, overwrite=True)
    except Exception as e:  # noqa
        obs['save_err'] = err_enum(e)
        return obs
    obs['stale'] = {}
    for s in sections:
        c = cfg_of(ss, s)
        obs['stale'][s] = {k for k, v in c.__dict__.items() if k not in RESERVED and not k.startswith('_') and
                           (k not in c._dict or not same_val(c._dict[k], v))}
    try:
        _, sects = read_rc(out)
    except configparser.Error as e:
        obs['save_err'] = ('Unreadable-' + type(e).__name__, '')    # the file save_config wrote cannot be parsed
        return obs
    saved = [(s, kvs) for s, kvs in sects if s in sections]
    so = save_order(sections)
    saved.sort(key=lambda p: so.index(p[0]))
    obs['saved'] = saved
    obs['V'] = '|'.join('%s~%s' % (hx(s), tok_sect(kvs)) for s, kvs in saved) or '-'
    try:
        s2 = andes.System(config_path=out, no_undill=True)
    except Exception as e:  # noqa
        obs['reload_err'] = err_enum(e)
        return obs
    obs['L'] = dump(s2, sections)
    obs['live2'] = live(s2, sections)
    return obs


def save_order(sections):
    """collect_config visits System, then the routines, then the models"""
    _, order = real_decls()
    nr = _STATE['n_routines']
    routines = set(order[len(order) - nr:])
    return [s for s in sections if s == 'System'] + [s for s in sections if s in routines] + \
           [s for s in sections if s != 'System' and s not in routines]


def compared_sections(case):
    """the sections of the case, every known section its rc/options mention, and ALL sections when the
    parser-wide DEFAULT section is involved (it is visible in every section)"""
    _, order = real_decls()
    secs = set(case['sections']) | {'System'}
    everything = False
    if case['rc'] is not None:
        everything = bool(case['rc']['defaults'])
        secs |= {s for s, _ in case['rc']['sects']}
    for item in case['opts'] or []:
        head = item.split('=')[0]
        if head.count('.') == 1:
            sec = head.split('.')[0].strip()
            secs.add(sec)
            if sec in ('', 'DEFAULT'):
                everything = True
    for op in case['script']:
        secs.add(op[1])
    if everything:
        return list(order)
    return sorted((s for s in secs if s in order), key=order.index)


def impl_line(obs):
    if 'construct_err' in obs:
        return 'C=' + show_err(*obs['construct_err'])
    head = 'C=%s S=%s P=%s' % (obs['C'], obs['S'], obs['P'])
    if 'save_err' in obs:
        return head + ' V=' + show_err(obs['save_err'][0], '')
    if 'reload_err' in obs:
        return head + ' V=%s L=%s' % (obs['V'], show_err(*obs['reload_err']))
    return head + ' V=%s L=%s' % (obs['V'], obs['L'])


# ---------------------------------------------------------------- model line

def numeral_tables(case, obs, decls):
    texts, floats = set(), set()

    def see(v):
        if type(v) is str:
            texts.add(v)
        elif type(v) is float:
            floats.add(C.f2h(v))

    for s in obs['sections']:
        for k, v in decls[s]['defaults']:
            see(v)
    if obs['rc_parsed'] is not None:
        d, sects = obs['rc_parsed']
        for k, v in d:
            see(v)
        for s, kvs in sects:
            for k, v in kvs:
                see(v)
    for item in case['opts'] or []:
        for part in item.split('='):
            see(part)
            see(part.strip())
    for k, v in case['dict'] or []:
        see(dec_val(v))
    for op in case['script']:
        if op[0] == 'A':
            see(dec_val(op[3]))
        elif op[0] == 'U':
            for k, v in op[2]:
                see(dec_val(v))
    parse, prnt = {}, {}
    todo = list(texts)
    seen = set()
    while todo:
        t = todo.pop().strip()
        if t in seen:
            continue
        seen.add(t)
        try:
            int(t)
            continue
        except ValueError:
            pass
        try:
            x = float(t)
        except ValueError:
            continue
        parse[t] = C.f2h(x)
        floats.add(C.f2h(x))
    for b in sorted(floats):
        txt = str(C.h2f(b))
        prnt[b] = txt
        x = float(txt)
        parse[txt] = C.f2h(x)
        if C.f2h(x) not in prnt:
            prnt[C.f2h(x)] = str(x)
    ps = ','.join('%s:%s' % (hx(t), b) for t, b in sorted(parse.items())) or '-'
    qs = ','.join('%s:%s' % (b, hx(t)) for b, t in sorted(prnt.items())) or '-'
    return ps + ';' + qs


def tok_decl(name, d):
    alt = ','.join('%s:%s' % (hx(k), '/'.join(tok_val(enc_val(m)) for m in mem)) for k, mem in d['alt'].items()) or '-'
    return '%s~%s~%s' % (hx(name), tok_kvs([(k, enc_val(v)) for k, v in d['defaults']]), alt)


def model_line(case, obs):
    decls, _ = real_decls()
    num = numeral_tables(case, obs, decls)
    dl = '|'.join(tok_decl(s, decls[s]) for s in obs['sections'])
    dct = tok_kvs(case['dict'] or [])
    if obs['rc_parsed'] is None:
        rc = 'N'
    else:
        d, sects = obs['rc_parsed']
        parts = []
        if d:
            parts.append('*~' + tok_sect(d))
        for s, kvs in sects:
            parts.append('%s~%s' % (hx(s), tok_sect(kvs)))
        rc = 'R' + '|'.join(parts)
    if case['opts'] is None:
        opts = 'N'
    elif not case['opts']:
        opts = 'E'
    else:
        opts = ','.join(hx(o) for o in case['opts'])
    ops = []
    for op in case['script']:
        if op[0] == 'A':
            ops.append('A~%s~%s:%s' % (hx(op[1]), hx(op[2]), tok_val(op[3])))
        elif op[0] == 'U':
            ops.append('U~%s~%s' % (hx(op[1]), tok_kvs(op[2])))
        else:
            ops.append('F~%s' % hx(op[1]))
    so = ','.join(str(obs['sections'].index(s)) for s in save_order(obs['sections']))
    return 'cfg run %s %s %s %s %s %s %s' % (num, dl, dct, rc, opts, '|'.join(ops) or '-', so)


# ---------------------------------------------------------------- the property oracle (independent of the model)

def numeric(text):
    """the number a text denotes, else the text"""
    try:
        return int(text)
    except ValueError:
        try:
            return float(text)
        except ValueError:
            return text


def is_string_field(decl, key):
    dv = dict(decl['defaults']).get(key)
    if type(dv) is not str or key in decl['altdoc']:
        return False
    mem = decl['alt'].get(key)
    return mem is None or all(type(m) is str for m in mem)


def opt_parts(item):
    """(section, key, value) of a well-formed option, else None.  Well-formed: exactly one '=', exactly one
    '.' on the left, and non-empty SECTION, FIELD and VALUE"""
    if item.count('=') != 1:
        return None
    lhs, val = item.split('=')
    if lhs.count('.') != 1:
        return None
    sec, key = lhs.split('.')
    sec, key, val = sec.strip(), key.strip(), val.strip()
    if not sec or not key or not val:
        return None
    return sec, key, val


def in_alt(v, mem):
    for m in mem:
        if type(m) is str:
            if type(v) is str and v == m:
                return True
        elif type(v) in (int, float, bool) and v == m:
            return True
    return False


def oracle(case, obs):
    """list of (key, what): the statement of C20 evaluated on what the real code did"""
    decls, order = real_decls()
    bad = []
    sections = obs['sections']
    opts = case['opts'] or []
    parsed = [opt_parts(o) for o in opts]
    malformed = [o for o, p in zip(opts, parsed) if p is None]
    cerr = obs.get('construct_err')

    # (d) malformed option strings are rejected with an error
    if malformed:
        if cerr is None or obs.get('construct_exc') not in ('ValueError', 'NoSectionError', 'DuplicateSectionError'):
            if cerr is None:
                bad.append(('malformed-option-accepted', 'malformed option %r was accepted without an error' % malformed[0]))
        return bad   # nothing else is specified for such a call

    default_touch = any(p[0] == 'DEFAULT' for p in parsed)
    rc_def, rc_sects = obs['rc_parsed'] if obs['rc_parsed'] is not None else ([], [])
    rc_map = {s: dict(kvs) for s, kvs in rc_sects}
    rc_defaults = dict(rc_def)
    if default_touch:
        return bad   # DEFAULT is configparser's own mechanism; covered by the correspondence only

    # expected value of every declared field of the compared sections
    expected, supplied_bad_alt = {}, None
    for s in sections:
        d = decls[s]
        dd = dict(d['defaults'])
        for k in dd:
            src, val = 'default', dd[k]
            # DEFAULT is visible only in sections the parser has: those of the file and those an option adds
            if k in rc_defaults and (s in rc_map or any(p[0] == s for p in parsed)):
                src, val = 'file', rc_defaults[k]
            if s in rc_map and k in rc_map[s]:
                src, val = 'file', rc_map[s][k]
            for p in parsed:
                if p[0] == s and p[1].lower() == k:
                    src, val = 'option', p[2]
            if s == 'System' and case['dict'] is not None:
                for dk, dv in case['dict']:
                    if dk == k:
                        src, val = 'dict', dec_val(dv)
            if src != 'default' and type(val) is str and not is_string_field(d, k):
                val = numeric(val)
            expected[(s, k)] = (src, val)
            mem = d['alt'].get(k)
            if mem is not None and src != 'default' and not in_alt(val, mem) and supplied_bad_alt is None:
                supplied_bad_alt = (s, k, val)

    # unknown sections / fields
    known = set(order)
    unknown_sec = [p[0] for p in parsed if p[0] not in known] + [s for s in rc_map if s not in known]
    unknown_fld = [(p[0], p[1]) for p in parsed if p[0] in known and p[1].lower() not in dict(decls[p[0]]['defaults'])]
    unknown_fld += [(s, k) for s in rc_map if s in known for k in rc_map[s] if k not in dict(decls[s]['defaults'])]
    if case['dict'] is not None:
        unknown_fld += [('System', k) for k, _ in case['dict'] if k not in dict(decls['System']['defaults'])]

    if cerr is not None:
        kind = cerr[0]
        if kind == 'NotAChoice':
            if supplied_bad_alt is None:
                # a string-typed field coerced to a number falls out of its alternatives as well
                bad.append(('alt-rejects-valid-value', 'construction rejected %s although every supplied value is a declared alternative' % cerr[1]))
            return bad
        if kind == 'NoSection':
            bad.append(('option-nosection-when-rc-lacks-section',
                        'well-formed options %r raise configparser.NoSectionError because the loaded rc file has no such section' % opts))
        elif kind == 'DuplicateSection':
            bad.append(('option-dupsection-without-rc',
                        'well-formed options %r raise configparser.DuplicateSectionError (two options for one section, no rc file)' % opts))
        else:
            odd = [(sk, v) for sk, (src, v) in expected.items() if src != 'default' and
                   not is_string_field(decls[sk[0]], sk[1]) and type(v) not in (int, float)]
            if not odd and not re.search(CONSUMER_ERRORS, cerr[1]):    # otherwise: a non-number given for a numeric field was refused by the model class itself
                bad.append(('construct-exception:' + kind, 'construction raised %s %s' % cerr))
        return bad

    # (c) values outside the declared alternatives are rejected
    if supplied_bad_alt is not None:
        s, k, v = supplied_bad_alt
        bad.append(('alt-not-rejected', '%s.%s=%r is outside %r and was accepted' % (s, k, v, decls[s]['alt'][k])))
    if unknown_sec:
        bad.append(('unknown-section-accepted', 'section %r names no config object and was accepted silently' % unknown_sec[0]))
    if unknown_fld:
        bad.append(('unknown-field-accepted', 'field %s.%s is not a config field and was accepted silently' % unknown_fld[0]))

    # (a) the value in effect is the one supplied, option > file > default
    live0 = obs['live0']
    for (s, k), (src, val) in expected.items():
        got = live0[s].get(k, '<absent>')
        if not same_val(got, val):
            if type(val) is str and type(got) in (int, float) and is_string_field(decls[s], k):
                bad.append(('string-field-coerced', 'string field %s.%s given %r (%s) holds the %s %r'
                            % (s, k, val, src, type(got).__name__, got)))
            else:
                bad.append(('precedence', '%s.%s: expected %r from %s, in effect %r' % (s, k, val, src, got)))

    # (c) again, through Config.update at run time
    for op, res in zip(case['script'], obs['script_obs']):
        if op[0] != 'U':
            continue
        d = decls[op[1]]
        for k, v in op[2]:
            mem = d['alt'].get(k)
            v = dec_val(v)
            if type(v) is str and not is_string_field(d, k):
                v = numeric(v)
            if mem is not None and not in_alt(v, mem) and res == 'ok':
                bad.append(('alt-not-rejected-by-update',
                            'Config.update(%s=%r) on %s is outside %r and was accepted (check() reads the as_dict cache)'
                            % (k, v, op[1], mem)))

    # (b) save -> load reproduces every value with its type
    if 'save_err' in obs:
        bad.append(('save-exception:' + obs['save_err'][0], 'save_config raised %s' % (obs['save_err'],)))
        return bad
    if 'reload_err' in obs:
        # (a value saved as it is in effect may be one that a model class refuses when it is constructed from the
        # file, e.g. npv2pq = inf handed to int(): the refusal is the consumer's, as at first construction)
        if obs['reload_err'][0] != 'NotAChoice' and not re.search(CONSUMER_ERRORS, str(obs['reload_err'][1])):
            bad.append(('reload-exception:' + obs['reload_err'][0], 'loading the saved file raised %s' % (obs['reload_err'],)))
        return bad
    saved = {s: dict(kvs) for s, kvs in obs['saved']}
    for s in sections:
        for k, v in obs['live1'][s].items():
            got = obs['live2'][s].get(k, '<absent>')
            if same_val(got, v):
                continue
            txt = saved.get(s, {}).get(k.lower())
            if k.startswith('_'):
                key = 'roundtrip-private-key-dropped'
            elif k in obs['stale'][s]:
                key = 'save-stale-cache'
            elif txt is None and k == k.lower():
                key = 'save-field-missing'
            elif txt != str(v).strip():
                key = 'save-text-differs'
            elif type(v) is bool:
                key = 'roundtrip-bool-becomes-string'
            elif type(v) is str and v != v.strip():
                key = 'roundtrip-whitespace-stripped'
            elif type(v) is str and type(numeric(v)) is not str:
                key = 'roundtrip-numeric-string-coerced'
            elif k != k.lower():
                # no declared field has an upper-case letter: such a key is an unknown field (accepted silently, see
                # unknown-field-accepted) and the statement does not speak about it
                key = 'roundtrip-key-lowercased' if k in dict(decls[s]['defaults']) else 'unknown-field-accepted:lowercased-on-save'
            else:
                key = 'roundtrip-other'
            bad.append((key, '%s.%s in effect %r, saved text %r, reloaded %r' % (s, k, v, txt, got)))
    return bad


# ---------------------------------------------------------------- streams

def corpus_cases():
    return [json.load(open(f)) for f in sorted(glob.glob(os.path.join(CORPUS, '*.json')))]


def nontrivial(case):
    return bool(case['opts'] or case['dict'] or case['script'] or (case['rc'] and (case['rc']['sects'] or case['rc']['defaults'])))


def empty_key(case):
    for item in case['opts'] or []:
        if item.count('=') == 1 and item.split('=')[0].count('.') == 1 and not item.split('=')[0].split('.')[1].strip():
            return True
    return False


def first_diff(a, b):
    i = 0
    while i < min(len(a), len(b)) and a[i] == b[i]:
        i += 1
    lo = max(0, i - 200)
    return a[lo:i + 400], b[lo:i + 400]


def check_cases(ctx, cases, work):
    obs_list, lines = [], []
    for case in cases:
        obs = run_real(case, work)
        obs_list.append(obs)
        lines.append(model_line(case, obs))
    outs = ctx.driver.ask(lines)
    for case, obs, model in zip(cases, obs_list, outs):
        impl = impl_line(obs)
        ctx.traces += 1
        ctx.case(json.dumps(case, sort_keys=True) if nontrivial(case) else None,
                 {'case': case, 'impl': impl[:300]})
        ctx.count('rc:' + ('none' if case['rc'] is None else 'missing' if case['rc'].get('missing') else
                           'sections=%d' % min(len(case['rc']['sects']), 5)))
        ctx.count('opts:' + ('none' if case['opts'] is None else str(min(len(case['opts']), 4))))
        ctx.count('dict:' + ('none' if case['dict'] is None else str(len(case['dict']))))
        ctx.count('script_ops:%d' % len(case['script']))
        for op in case['script']:
            ctx.count('op:' + op[0])
        ctx.count('sections_compared', len(obs['sections']))
        if 'construct_err' in obs:
            ctx.count('construct:' + obs['construct_err'][0])
        elif 'save_err' in obs:
            ctx.count('save:' + obs['save_err'][0])
        elif 'reload_err' in obs:
            ctx.count('reload:' + obs['reload_err'][0])
        else:
            ctx.count('full_roundtrip')
        if obs.get('S', '-') != '-':
            ctx.count('update_raised')
        ce = obs.get('construct_err', ('', ''))
        if ce[0] in ('Other-ValueError', 'Other-TypeError', 'Other-OverflowError') and re.search(CONSUMER_ERRORS, ce[1]):
            ctx.count('out_of_model_exception')      # raised by a model class that uses the value, not by Config
        elif empty_key(case):
            # an empty field name is written as a continuation line by configparser.write: file syntax, not modelled
            ctx.count('out_of_model_empty_key')
            if impl.split(' V=')[0] != model.split(' V=')[0]:
                ctx.disagree('config', case, *first_diff(impl, model))
        elif impl != model:
            ctx.disagree('config', case, *first_diff(impl, model))
        for key, what in oracle(case, obs):
            ctx.count('oracle:' + key)
            if key in OUT_OF_STATEMENT or key.split(':')[0] in OUT_OF_STATEMENT:
                continue     # observed and counted, but the property statement does not speak about it
            ctx.oracle_fail(key, what, case)


def check_numerals(ctx, n):
    """int()/float() acceptance and int value: Lean classifier against Python on numeral-like strings"""
    rng = ctx.rng
    alpha = '0123456789' * 3 + '__..eE+-  ' + 'infa' + 'x,'
    strs = list(NUMTXT + ODD + IDENT + [' 12 ', '\t5', '5\n', '+ 5', '1_e5', '1e_5', '1e+5', '1e+', '1._5', '1_.5', '._5',
                                       'INF', 'NaN', '-nan', '+infinity', 'infinit', '00', '-0', '0_0', '1e5_0', '\x1c7'])
    for _ in range(n):
        k = rng.choice([1, 2, 3, 4, 5, 6, 8])
        strs.append(''.join(rng.choice(alpha) for _ in range(k)))
    lines, exp = [], []
    for s in strs:
        try:
            e = 'i%d' % int(s)
        except ValueError:
            try:
                float(s)
                e = 'f'
            except ValueError:
                e = 's'
        lines.append('cfg num x' + hx(s))
        exp.append(e)
        ctx.count('numeral:' + e[0])
    outs = ctx.driver.ask(lines)
    for s, e, o in zip(strs, exp, outs):
        ctx.evaluations += 1
        if e != o:
            ctx.disagree('numerals', s, e, o)


def check_paths(ctx, work):
    """which rc file System() reads: config_path argument > ./andes.rc > ~/.andes/andes.rc; default_config disables all"""
    import andes
    cwd0, home0 = os.getcwd(), os.environ.get('HOME')
    base = os.path.join(work, 'paths')
    lines, exp, cases = [], [], []
    try:
        for bits in range(16):
            a, d, c, h = [(bits >> i) & 1 for i in range(4)]
            shutil.rmtree(base, ignore_errors=True)
            os.makedirs(os.path.join(base, 'cwd'))
            os.makedirs(os.path.join(base, 'home', '.andes'))
            marks = {'arg': 111, 'cwd': 222, 'home': 333}
            open(os.path.join(base, 'arg.rc'), 'w').write('[System]\nmva = 111\n')
            if c:
                open(os.path.join(base, 'cwd', 'andes.rc'), 'w').write('[System]\nmva = 222\n')
            if h:
                open(os.path.join(base, 'home', '.andes', 'andes.rc'), 'w').write('[System]\nmva = 333\n')
            os.chdir(os.path.join(base, 'cwd'))
            os.environ['HOME'] = os.path.join(base, 'home')
            kw = {'no_undill': True}
            if a:
                kw['config_path'] = os.path.join(base, 'arg.rc')
            if d:
                kw['default_config'] = True
            ss = andes.System(**kw)
            got = {v: k for k, v in marks.items()}.get(ss.config.mva, 'none')
            os.chdir(cwd0)
            lines.append('cfg path %d %d %d %d' % (a, d, c, h))
            exp.append(got)
            cases.append((a, d, c, h))
            # oracle: the file the user named is the one in effect unless default_config was requested
            want = 'none' if d else 'arg' if a else 'cwd' if c else 'home' if h else 'none'
            if got != want:
                ctx.oracle_fail('config-path-precedence', 'rc file in effect %s, expected %s for (arg,default,cwd,home)=%r'
                                % (got, want, (a, d, c, h)), {'path_case': [a, d, c, h]})
    finally:
        os.chdir(cwd0)
        if home0 is not None:
            os.environ['HOME'] = home0
    outs = ctx.driver.ask(lines)
    for cs, e, o in zip(cases, exp, outs):
        ctx.evaluations += 1
        ctx.count('path:' + e)
        if e != o:
            ctx.disagree('config-path', list(cs), e, o)


def workdir():
    w = os.path.join(C.WORK, 'c20-%d' % os.getpid())
    os.makedirs(w, exist_ok=True)
    return w


def run(ctx):
    import andes
    andes.config_logger(stream_level=50)
    work = workdir()
    try:
        decls, order = real_decls()
        ctx.cov['config_sections'] = len(order)
        ctx.cov['config_fields'] = sum(len(d['defaults']) for d in decls.values())
        cases = corpus_cases()
        ctx.count('corpus', len(cases))
        cases += [gen_case(ctx.rng) for _ in range(ctx.n(260, 3000))]
        check_cases(ctx, cases, work)
        check_numerals(ctx, ctx.n(2000, 30000))
        check_paths(ctx, work)
        ctx.cov['source_hashes'] = {
            f: C.hash_source(C.REPO + p, f) for p, f in [
                ('/andes/core/common.py', 'Config'), ('/andes/system.py', 'System._update_config_object'),
                ('/andes/system.py', 'System.collect_config'), ('/andes/system.py', 'System.save_config'),
                ('/andes/system.py', 'load_config_rc'), ('/andes/utils/paths.py', 'get_config_path')]}
    finally:
        shutil.rmtree(work, ignore_errors=True)


def search(ctx):
    """something broke: look harder for an input on which the property fails on the real code"""
    import andes
    andes.config_logger(stream_level=50)
    rng = random.Random(ctx.seed * 7919 + 20)
    work = workdir()
    try:
        cases = [d['case'] for d in ctx.disagreements[:40] if isinstance(d['case'], dict) and 'sections' in d['case']]
        cases += [gen_case(rng) for _ in range(ctx.n(1500, 6000))]
        for case in cases:
            obs = run_real(case, work)
            for key, what in oracle(case, obs):
                if key in OUT_OF_STATEMENT or key.split(':')[0] in OUT_OF_STATEMENT:
                    continue
                ctx.oracle_fail(key, what, case)
    finally:
        shutil.rmtree(work, ignore_errors=True)


def replay(ctx, rep):
    import andes
    andes.config_logger(stream_level=50)
    case = rep['case']
    work = workdir()
    try:
        if 'path_case' in case:
            check_paths(ctx, work)
            bad = [(f['key'], f['what']) for f in ctx.oracle_failures]
        else:
            obs = run_real(case, work)
            bad = oracle(case, obs)
    finally:
        shutil.rmtree(work, ignore_errors=True)
    for key, what in bad:
        print('  ', key, what)
    return not bad
