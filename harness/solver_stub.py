"""Drives the REAL andes.linsolvers workers on small exact matrices, one forked child per stream
(KLU can take the interpreter down), with the C-library entry points wrapped (never edited) so that
the sequence of library calls of every operation is observed.

A stream: {"lib": "klu"|"umfpack"|"spsolve", "n": n, "mats": [[[i, j, v], ...], ...] (structural
entries, integer values, column-major order, no duplicates), "rhs": [[int]*n, ...],
"ops": [["s", k, r] | ["l", k, r] | ["c"] | ["f"] | ["n"]]}"""
import os
import signal
import struct
from fractions import Fraction

TOL = 1e-9
CALLS = {'S', 'N', 'V', 'A', 'U', 'T', 'X', 'L', 'l', 'P', 'p', 'Y', 'y', 'Q'}


# ------------------------------------------------------------------ exact linear algebra (oracle side)

def dense(n, ents):
    m = [[Fraction(0)] * n for _ in range(n)]
    for i, j, v in ents:
        m[i][j] += Fraction(v)
    return m


def solve_exact(n, ents, b):
    """Gaussian elimination over Fractions; None when singular"""
    m = [row[:] + [Fraction(x)] for row, x in zip(dense(n, ents), b)]
    for c in range(n):
        p = next((r for r in range(c, n) if m[r][c] != 0), None)
        if p is None:
            return None
        m[c], m[p] = m[p], m[c]
        pv = m[c][c]
        m[c] = [x / pv for x in m[c]]
        for r in range(n):
            if r != c and m[r][c] != 0:
                f = m[r][c]
                m[r] = [x - f * y for x, y in zip(m[r], m[c])]
    return [m[r][n] for r in range(n)]


def pattern(ents):
    return tuple((i, j) for i, j, _ in ents)


def qstr(v):
    return ','.join('%d/%d' % (x.numerator, x.denominator) for x in v)


# ------------------------------------------------------------------ wrappers around the C libraries

class _Log:
    fd = None
    cur = None          # index of the matrix of the current operation

    @classmethod
    def put(cls, s):
        if cls.fd is not None:
            os.write(cls.fd, s.encode())


def _pat(A):
    return tuple(zip(list(A.I), list(A.J)))


class LibProxy:
    """stands in for the module object `klu` / `umfpack` inside andes.linsolvers.suitesparse"""

    def __init__(self, real):
        self._real = real
        self._pats = {}
        self._keep = []

    def symbolic(self, A):
        F = self._real.symbolic(A)
        self._pats[id(F)] = (_pat(A), _Log.cur)
        self._keep.append(F)
        _Log.put('S ')
        return F

    def numeric(self, A, F):
        if F is None:
            _Log.put('T ')
            return self._real.numeric(A, F)
        p, src = self._pats.get(id(F), (None, -1))
        same = p == _pat(A)
        if not same:
            _Log.put('u%d ' % src)            # announced BEFORE the call: the call may not return
        try:
            N = self._real.numeric(A, F)
        except ValueError:
            _Log.put('V ')
            raise
        except ArithmeticError:
            _Log.put('A ' if same else 'U ')
            raise
        _Log.put('N ' if same else 'U ')
        return N

    def solve(self, *a):
        r = self._real.solve(*a)
        _Log.put('X ')
        return r

    def linsolve(self, A, b):
        try:
            r = self._real.linsolve(A, b)
        except ArithmeticError:
            _Log.put('l ')
            raise
        _Log.put('L ')
        return r

    def __getattr__(self, k):
        return getattr(self._real, k)


class LUProxy:
    def __init__(self, lu):
        self._lu = lu

    def solve(self, b):
        r = self._lu.solve(b)
        _Log.put('Y ')
        return r


_installed = False


def install():
    """wrap the library entry points used by andes.linsolvers (module globals, looked up at call time)"""
    global _installed
    if _installed:
        return
    import warnings
    import andes.linsolvers.suitesparse as ssm
    import andes.linsolvers.scipy as spm
    import andes.linsolvers.solverbase  # noqa: pre-import everything the child needs
    import numpy  # noqa
    ssm.klu = LibProxy(ssm.klu)
    ssm.umfpack = LibProxy(ssm.umfpack)
    # (the module may have been rewritten so that it no longer imports one of the two library entry points:
    # the wrappers are installed for whatever it does import)
    real_splu, real_spsolve = getattr(spm, 'splu', None), getattr(spm, 'spsolve', None)

    def splu(A, *args, **kwargs):
        try:
            lu = real_splu(A, *args, **kwargs)
        except Exception:
            _Log.put('p ')
            raise
        _Log.put('P ')
        return LUProxy(lu)

    def spsolve(A, b, *args, **kwargs):
        with warnings.catch_warnings():
            warnings.simplefilter('ignore')
            r = real_spsolve(A, b, *args, **kwargs)
        _Log.put('Q ')
        return r
    if real_splu is not None:
        spm.splu = splu
    if real_spsolve is not None:
        spm.spsolve = spsolve
    _installed = True


def f2h(x):
    return struct.pack('>d', float(x)).hex()


def h2f(s):
    return struct.unpack('>d', bytes.fromhex(s))[0]


def _child(stream, wfd):
    """runs in the forked child: executes the ops on a fresh Solver, reports through the pipe"""
    import numpy as np
    from kvxopt import matrix, spmatrix
    from andes.linsolvers.solverbase import Solver
    _Log.fd = wfd
    n = stream['n']
    mats = []
    for ents in stream['mats']:
        mats.append(spmatrix([float(e[2]) for e in ents], [e[0] for e in ents], [e[1] for e in ents], (n, n), 'd'))
    s = Solver(stream['lib'])
    for k, op in enumerate(stream['ops']):
        _Log.put('\nB%d ' % k)
        try:
            if op[0] in 'sl':
                _Log.cur = op[1]
                b = matrix([float(x) for x in stream['rhs'][op[2]]])
                x = s.solve(mats[op[1]], b) if op[0] == 's' else s.linsolve(mats[op[1]], b)
                x = np.asarray(x, dtype=float).ravel()
                _Log.put('R' + ','.join(f2h(v) for v in x) + ' ')
            elif op[0] == 'c':
                s.clear()
                _Log.put('R- ')
            elif op[0] == 'f':
                s.worker.factorize = True
                _Log.put('R- ')
            elif op[0] == 'n':
                s.worker.new_A = True
                _Log.put('R- ')
        except BaseException as e:      # noqa
            _Log.put('E' + type(e).__name__ + ' ')
    _Log.put('\nDONE')


def _parse(text, stream, sig):
    done = text.rstrip().endswith('DONE')
    out = []
    for line in text.split('\n'):
        if not line.startswith('B'):
            continue
        toks = line.split()
        tr, und, res = [], [], None
        pending = None
        for t in toks[1:]:
            if t[0] == 'u':
                pending = int(t[1:])
            elif t[0] == 'R':
                res = ('none',) if t == 'R-' else ('x', [h2f(h) for h in t[1:].split(',')])
            elif t[0] == 'E':
                res = ('exc', t[1:])
            elif t in CALLS:
                if t == 'U' and pending is not None:
                    und.append(pending)
                pending = None
                tr.append(t)
        if pending is not None:         # the announced call never returned
            tr.append('U')
            und.append(pending)
        if res is None:
            res = ('crash', sig)
        out.append({'trace': ''.join(tr), 'und': und, 'res': res})
    if not done and out and all(o['res'][0] != 'crash' for o in out):
        out[-1]['res'] = ('crash', sig)
    while len(out) < len(stream['ops']):
        out.append({'trace': '', 'und': [], 'res': ('notrun',)})
    return out, done


def _fork_run(streams, timeout):
    """one forked child runs the streams one after the other; -> (text per stream, terminating signal)"""
    install()
    r, w = os.pipe()
    pid = os.fork()
    if pid == 0:
        code = 0
        try:
            os.close(r)
            signal.alarm(timeout)
            dn = os.open(os.devnull, os.O_WRONLY)
            os.dup2(dn, 1)
            os.dup2(dn, 2)
            for st in streams:
                os.write(w, b'\n#')
                _child(st, w)
        except BaseException:       # noqa
            code = 3
        finally:
            os._exit(code)
    os.close(w)
    chunks = []
    while True:
        d = os.read(r, 65536)
        if not d:
            break
        chunks.append(d)
    os.close(r)
    _, status = os.waitpid(pid, 0)
    sig = os.WTERMSIG(status) if os.WIFSIGNALED(status) else 0
    parts = b''.join(chunks).decode().split('\n#')[1:]
    return parts, sig


def run_stream(stream, timeout=20):
    """fork, run, collect: returns a list (one per op) of {'trace': str, 'und': [src...], 'res': ...}
    res = ('x', [floats]) | ('none',) | ('exc', name) | ('crash', signal) | ('notrun',)"""
    parts, sig = _fork_run([stream], timeout)
    return _parse(parts[0] if parts else '', stream, sig)[0]


def run_batch(streams, timeout=60):
    """several streams in one child; if the child dies, every unfinished stream is re-run in a child of its own"""
    parts, sig = _fork_run(streams, timeout)
    out = []
    for k, st in enumerate(streams):
        if k < len(parts):
            obs, done = _parse(parts[k], st, sig)
            if done:
                out.append(obs)
                continue
        out.append(run_stream(st))
    return out


# ------------------------------------------------------------------ canonical form of what the code did

def candidates(stream, r):
    """exact vectors a returned vector is compared with: b itself and the solution for every regular matrix"""
    b = [Fraction(x) for x in stream['rhs'][r]]
    c = [('b', b)]
    for k, ents in enumerate(stream['mats']):
        x = solve_exact(stream['n'], ents, b)
        if x is not None:
            c.append((k, x))
    return c


def classify(stream, op, res):
    """-> (canonical word, set of tags matched)"""
    if res[0] == 'none':
        return 'ok', set()
    if res[0] == 'exc':
        return 'raise', set()
    if res[0] == 'crash':
        return 'crash', set()
    if res[0] == 'notrun':
        return 'notrun', set()
    x = res[1]
    if all(v != v for v in x):
        return 'nan', set()
    if any(v != v or v in (float('inf'), float('-inf')) for v in x):
        return 'garbage', set()
    tags, word = set(), None
    for tag, c in candidates(stream, op[2]):
        if len(c) == len(x) and all(abs(a - float(e)) <= TOL * (1 + abs(float(e))) for a, e in zip(x, c)):
            tags.add(tag)
            word = 'v:' + qstr(c)
    return (word or 'garbage'), tags


def impl_words(stream, obs):
    """canonical line of the real code; everything after a contract-violating library call is cut"""
    words, und = [], []
    for op, o in zip(stream['ops'], obs):
        if 'U' in o['trace']:
            for src in o['und']:
                und.append('%d>%d' % (src, op[1]))
            words.append(o['trace'][:o['trace'].index('U') + 1] + '|ub')
            break
        w, _ = classify(stream, op, o['res'])
        words.append((o['trace'] or '-') + '|' + w)
    return words, sorted(set(und))


def model_line(stream, und):
    mats = ';'.join(','.join('%d:%d:%d' % tuple(e) for e in m) or '-' for m in stream['mats'])
    rhs = ';'.join(','.join(str(x) for x in b) for b in stream['rhs'])
    ops = ','.join(o[0] + ('%d.%d' % (o[1], o[2]) if o[0] in 'sl' else '') for o in stream['ops'])
    u = ','.join(und) if (und and stream['lib'] == 'umfpack') else '-'
    return 'slv %s %d %s %s %s %s' % (stream['lib'], stream['n'], u, mats, rhs, ops)


# ------------------------------------------------------------------ the property itself (no model involved)

def oracle(stream, obs):
    """every call that is documented to factorise returns x with A x = b for the CURRENT matrix
    (a singular matrix must be reported: NaN vector or an exception).  -> [(key, what, opindex)]"""
    bad = []
    lib = stream['lib']
    pending = True          # SciPy: a refresh was requested (initially, or by factorize / new_A)
    for i, (op, o) in enumerate(zip(stream['ops'], obs)):
        if op[0] in 'fn':
            pending = True
            continue
        if op[0] == 'c':
            continue
        if o['res'][0] == 'notrun':
            break
        factorising = lib != 'spsolve' or op[0] == 'l' or pending
        if op[0] == 's':
            pending = False
        if not factorising:
            continue
        word, tags = classify(stream, op, o['res'])
        k = op[1]
        exact = solve_exact(stream['n'], stream['mats'][k], stream['rhs'][op[2]])
        call = 'solve' if op[0] == 's' else 'linsolve'
        if exact is not None:
            if k in tags:
                continue
            got = 'crash' if word == 'crash' else ('b unchanged' if 'b' in tags else
                                                   ('the solution for matrix %s of the history' % sorted(t for t in tags if t != 'b')
                                                    if tags else word))
            if 'U' in o['trace']:
                key = '%s-stale-symbolic-after-pattern-change' % lib
                what = ('%s Solver.%s after a sparsity-pattern change hands the cached symbolic factor to %s.numeric: %s'
                        % (lib.upper(), call, lib, 'the interpreter dies (signal %s)' % o['res'][1] if word == 'crash'
                           else 'returns ' + got + ' instead of the solution'))
            else:
                key = 'unsolved:%s:%s:regular' % (lib, call)
                what = '%s %s on a regular matrix returned %s' % (lib, call, got)
            bad.append((key, what, i))
        else:
            if word in ('nan', 'raise'):
                continue
            if 'U' in o['trace']:
                key = '%s-stale-symbolic-after-pattern-change' % lib
                what = ('%s Solver.%s after a sparsity-pattern change (singular matrix) hands the cached symbolic factor '
                        'to %s.numeric: %s' % (lib.upper(), call, lib, word))
            elif 'b' in tags and op[0] == 's' and 'V' in o['trace']:
                key = 'umfpack-singular-after-resymbolic-returns-b'
                what = ('UMFPACK solve on a singular matrix reached through the ValueError / re-symbolic branch returns '
                        'b unchanged (the NaN result of the recursive call is dropped)')
            elif 'b' in tags and op[0] == 'l' and lib != 'spsolve':
                key = 'suitesparse-linsolve-singular-returns-b'
                what = '%s linsolve on a singular matrix returns b unchanged instead of NaN' % lib.upper()
            else:
                key = 'unsolved:%s:%s:singular' % (lib, call)
                what = '%s %s on a singular matrix returned %s (no failure reported)' % (lib, call, word)
            bad.append((key, what, i))
        if word == 'crash':
            break
    return bad
