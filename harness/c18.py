"""C18 — control blocks realise their documented transfer functions from steady state.

Lean: Andes/Props/C18.lean (hand written) + Andes/Gen/Blocks.lean, REGENERATED on every run by translator/blocks.py from
the live classes of andes/core/block.py (every Block subclass instantiated with symbolic dummies and attached to a
throw-away host Model so that the real Model.__setattr__/export() name-spacing runs).  The documented transfer
functions are the hand-written specification in translator/blocks.py.

Oracle on the real code (independent of the Lean translation: the live e_str/v_str strings are evaluated with Python's
own eval; LessThan / HardLimiter / DeadBand flags come from the REAL check_var of the live discrete objects):
  tf       random parameter tuple + random complex s: solve the block's Laplace-domain equations for its variables and
           compare Y·den(s) with num(s)·U for the DOCUMENTED transfer function (by-pass cases with the real flags)
  steady   random parameters and input level: the declared initial values v_str make every residual e_str vanish
  reduces  limited variant (flags inside the limits) and unlimited block give the same response
  names    every block of every shipped model (andes.System()): exported names are <block>_<var>, registered on the
           model, unique, and every identifier in a block string resolves to a model symbol
  pinum    PIControllerNumeric.g_numeric/f_numeric/j_numeric in-process vs the Lean hand model (bit-exact) and vs the
           symbolic PIController strings"""
import ast
import glob
import json
import os
import re

from harness import common as C

PROP_MODULES = ['Andes.Props.C18']
RULE = ('case = (block variant, obligation of the documented specification, random parameter tuple, random complex '
        'Laplace variable / input level); distinct = distinct (variant, obligation, zero-pattern of the parameters, '
        'flag pattern); non-trivial = equations non-singular at the point and input non-zero')
ASSUMPTIONS = [
    'Laplace-domain statements: zero initial state (deviation variables); s is an arbitrary field element, so the '
    'theorems are identities of rational functions, not statements about time responses (inverse transform not modelled)',
    'limiter / LessThan / DeadBand flag semantics are hypotheses of the theorems (C09 models the Discrete classes); the '
    'oracle takes the flags from the real check_var of the live objects',
    'for the order-free generated Flags predicates a tested time constant is assumed non-negative (T <= 0 iff T = 0)',
    'Washout with T = 0 and LeadLag with T2 = 0 < T1 are singular (output equation 0 = 0) and excluded as inadmissible',
    'anti-windup / rate limiting act on the state outside the equation strings (AntiWindup.check_eq): not part of C18',
]
CLEAN_REBUILD = False   # the generated module is rebuilt whenever its text changes; Props/C18 is small
TOL = 1e-8


def generate(ctx):
    from translator import blocks as TB
    g = TB.generate(C.LEAN)
    ctx.cov['block_classes'] = len(g['classes'])
    ctx.cov['variants'] = len(g['variants'])
    ctx.cov['generated_theorems'] = len(g['theorems'])
    ctx.cov['rational_witnesses'] = g['witnesses']
    for p in g['problems']:
        ctx.broken.append('coverage: ' + p)
    ctx._c18_text = g['text']
    return {'modules': ['Andes.Gen.Blocks'], 'theorems': g['theorems']}


def name_broken(ctx):
    """attach the enclosing generated theorem to `build: Andes/Gen/Blocks.lean:LINE` entries"""
    txt = getattr(ctx, '_c18_text', None)
    if not txt:
        return
    lines = txt.split('\n')
    for i, b in enumerate(ctx.broken):
        m = re.search(r'Gen/Blocks\.lean:(\d+)', b)
        if m and '[' not in b[:12]:
            ln = min(int(m.group(1)), len(lines)) - 1
            while ln > 0 and not re.match(r'(theorem|example|def) ', lines[ln]):
                ln -= 1
            ctx.broken[i] = b + '  [in: ' + lines[ln][:90] + ']'


# --------------------------------------------------------------------------- live flags

def _setv(obj, env):
    import numpy as np
    n = getattr(obj, 'name', None)
    if isinstance(n, str) and n in env and not isinstance(env[n], complex):
        try:
            obj.v = np.array([float(env[n])])
        except Exception:  # noqa
            pass


def real_flags(ex, env, kinds):
    """flags from the REAL check_var of the live discrete objects of the extracted block"""
    out = {}
    for dn, d in ex['host'].discrete.items():
        if type(d).__name__ not in kinds or not getattr(d, 'has_check_var', False):
            continue
        for a in ('u', 'bound', 'lower', 'upper', 'center'):
            if hasattr(d, a):
                _setv(getattr(d, a), env)
        d.list2array(1)
        if hasattr(d, '_eval'):
            d._eval = False
        d.check_var()
        for fn, fv in zip(d.get_names(), d.get_values()):
            out[fn] = float(fv[0])
    return out


# --------------------------------------------------------------------------- case generation

def rand_env(rng, ex, ob, allow_zero=True):
    env = {}
    for p in ex['symbolic']:
        mag = rng.choice([0.05, 0.2, 0.5, 1.0, 1.0, 2.0, 5.0, 12.0]) * rng.uniform(0.8, 1.25)
        if p in ('kp', 'ki', 'kd', 'ref', 'x0', 'y0', 'u', 'u1', 'u2', 'center', 'gain', 'R') and rng.random() < 0.3:
            mag = -mag
        if allow_zero and p not in ob.get('nz', []) and re.match(r'^(T\d?|Td)$', p) and rng.random() < 0.25:
            mag = 0.0
        env[p] = mag
    if 'lower' in env:
        env['lower'], env['upper'] = -1e4 * (1 + rng.random()), 1e4 * (1 + rng.random())
    if 'aw_lower' in env:
        env['aw_lower'], env['aw_upper'] = -2e4, 2e4
    if ex['cls'] == 'DeadBand1':
        env['lower'], env['upper'] = -abs(rng.uniform(0.1, 2)), abs(rng.uniform(0.1, 2))
        env['u'] = rng.choice([-3, -0.01, 0.0, 0.01, 3]) * rng.uniform(0.5, 1.5)
    if ex['cls'] == 'Piecewise':
        env['p0'], env['p1'] = sorted([rng.uniform(-2, 2), rng.uniform(-2, 2)])
        for f in ('f0', 'f1', 'f2'):
            env[f] = rng.uniform(-5, 5)
    return env


def apply_eqs(TB, env, ob):
    for a, b in ob['eqs']:
        env[a] = TB.py_eval(b, env)


def scale(*xs):
    return sum(abs(x) for x in xs) + 1e-300


def tf_case(TB, ex, ob, env, s):
    """None = singular; else (ok, detail)"""
    flags = {f: 0.0 for f in ex['flags']}
    for f in ex['flags']:
        if f.endswith('_zi'):
            flags[f] = 1.0
    flags.update(real_flags(ex, env, ('LessThan',)))
    spec = dict(ob['flags'])
    mism = [f for f, v in spec.items() if f in flags and any(f == x for d in ex['discrete'] if d['cls'] == 'LessThan'
                                                             for x in d['flags']) and flags[f] != v]
    flags.update({k: float(v) for k, v in spec.items()})
    full = dict(env, **flags)
    sol = TB.solve_laplace(ex['vars'], full, s, 0j, 1 + 0j, tiny=1e-12)
    if sol is None:
        return None
    full.update(sol)
    full['s'] = s
    lhs = full[ob['out']] * TB.py_eval(ob['den'], full)
    rhs = TB.py_eval(ob['num'], full) * TB.py_eval(ob['inp'], full)
    err = abs(lhs - rhs) / scale(lhs, rhs)
    return err <= TOL, {'err': err, 'flag_mismatch': mism, 'flags': {k: flags[k] for k in sorted(flags)}}


def steady_case(TB, ex, ob, env):
    flags = {f: 0.0 for f in ex['flags']}
    for f in ex['flags']:
        if f.endswith('_zi'):
            flags[f] = 1.0
    flags.update(real_flags(ex, env, ('LessThan', 'DeadBand')))
    flags.update({k: float(v) for k, v in ob['flags'].items()})
    full = TB.init_values(ex['vars'], dict(env, **flags))
    # the limiters' real verdict at the initial point must be "inside" for the in-limits clause to apply
    inside = True
    lim = real_flags(ex, full, ('HardLimiter', 'AntiWindup', 'AntiWindupRate'))
    for k, v in lim.items():
        if k.endswith('_zi') and v != 1.0:
            inside = False
    worst = 0.0
    for v in ex['vars']:
        if v['e'] is None:
            continue
        r = TB.py_eval(v['e'], full)
        terms = [abs(full[n.id]) for n in ast.walk(ast.parse(v['e'], mode='eval')) if isinstance(n, ast.Name) and n.id in full]
        worst = max(worst, abs(r) / (1.0 + sum(terms)))
    return worst <= TOL, {'err': worst, 'inside': inside, 'flags': {k: flags[k] for k in sorted(flags)}}


def reduces_case(TB, ex, bex, ob, env, s):
    flags = {f: (1.0 if f.endswith('_zi') else 0.0) for f in ex['flags']}
    flags.update(real_flags(ex, env, ('LessThan',)))
    flags.update({k: float(v) for k, v in ob['flags'].items()})
    full = dict(env, **flags)
    a = TB.solve_laplace(ex['vars'], full, s, 0j, 1 + 0j, tiny=1e-12)
    benv = dict(env)
    for k, v in ob['subst'].items():
        benv[k] = TB.py_eval(v, env)
    bflags = {f: (1.0 if f.endswith('_zi') else 0.0) for f in bex['flags']}
    bflags.update(real_flags(bex, benv, ('LessThan',)))
    b = TB.solve_laplace(bex['vars'], dict(benv, **bflags), s, 0j, 1 + 0j, tiny=1e-12)
    if a is None or b is None:
        return None
    err = abs(a['B_y'] - b['B_y']) / scale(a['B_y'], b['B_y'], 1e-9)
    return err <= TOL, {'err': err}


def real_aw_flags(ex, dn, env, edot):
    """flags from the REAL check_eq of a live anti-windup limiter: limited variable and bounds from env, the
    derivative of its state given"""
    import numpy as np
    d = ex['host'].discrete[dn]
    env = dict(env, rate_lower=-100.0, rate_upper=100.0)      # rate limits (AntiWindupRate) far away
    for a in ('u', 'lower', 'upper', 'rate_lower', 'rate_upper'):
        if hasattr(d, a):
            _setv(getattr(d, a), env)
    d.list2array(1)
    d.state.e = np.array([float(edot)])
    d.u.e = d.state.e
    d.state.a = np.array([0])
    d.state.v = np.array(d.u.v, dtype=float) if d.state is d.u else np.array([0.0])
    d.check_eq(allow_adjust=False, niter=0)
    return {fn: float(fv[0]) for fn, fv in zip(d.get_names(), d.get_values())}


def limits_stream(ctx, TB, exs, n_per):
    """the limiters of the limited variants act on the DOCUMENTED variable with the DOCUMENTED bounds: at a random
    point strictly inside the documented range the real check_var of the live discrete object says `inside`
    (so the block reduces to the unlimited one there); strictly outside, a hard limiter says so"""
    rng = ctx.rng
    for name, lims in TB.DOC_LIMITS.items():
        if name not in exs:
            continue
        ex = exs[name]
        live = {d['name']: d for d in ex['discrete']}
        for k in range(n_per):
            env = {p: rng.uniform(0.2, 2.0) for p in ex['symbolic']}
            for v in ex['vars']:
                env[v['name']] = rng.uniform(-1, 1)
            rngs = {}
            for (dn, var, lo, hi) in lims:
                a = rng.uniform(-3, 1)
                rngs[dn] = (a, a + rng.uniform(0.5, 4))
                env[lo], env[hi] = rngs[dn]
            # one limiter is probed, the variables of the others sit inside their own documented ranges
            probe = rng.choice(lims)
            where = rng.choice(['inside', 'inside', 'below', 'above'])
            for (dn, var, lo, hi) in lims:
                a, b = rngs[dn]
                if (dn, var, lo, hi) == probe and where != 'inside':
                    env[var] = a - rng.uniform(0.05, 2) if where == 'below' else b + rng.uniform(0.05, 2)
                else:
                    env[var] = rng.uniform(a + 0.02 * (b - a), b - 0.02 * (b - a))
            dn, var, lo, hi = probe
            case = {'variant': name, 'kind': 'limits', 'limiter': dn, 'where': where, 'env': jsonable(env)}
            ctx.count('kind:limits')
            if dn not in live:
                ctx.oracle_fail('limiter-missing:' + name, '%s: the documented limiter %s does not exist on the live block' % (name, dn), case)
                continue
            kind = live[dn]['cls']
            edot = rng.choice([-1.0, 1.0]) * rng.uniform(0.1, 2)
            if kind == 'HardLimiter':
                fl = real_flags(ex, env, (kind,))
            else:
                fl = real_aw_flags(ex, dn, env, edot)
                case['derivative'] = edot
            zi, zl, zu = fl.get(dn + '_zi'), fl.get(dn + '_zl'), fl.get(dn + '_zu')
            ctx.case((name, dn, where, kind, edot > 0), {'case': case, 'flags': [zi, zl, zu]} if k == 0 else None)
            want = None
            if where == 'inside':
                want = (1.0, 0.0, 0.0)
            elif kind == 'HardLimiter':
                want = (0.0, 1.0, 0.0) if where == 'below' else (0.0, 0.0, 1.0)
            elif kind in ('AntiWindup', 'AntiWindupRate'):
                # "if x > xmax and x dot > 0: x = xmax and x dot = 0; if x < xmin and x dot < 0: ..."; returning: inactive
                act = (where == 'below' and edot < 0) or (where == 'above' and edot > 0)
                want = ((0.0, 1.0, 0.0) if where == 'below' else (0.0, 0.0, 1.0)) if act else (1.0, 0.0, 0.0)
            if want is not None and (zi, zl, zu) != want:
                ctx.oracle_fail('limiter-acts-on-other-bounds:' + name,
                                '%s: %s = %.4g is %s the documented range [%s, %s] = [%.4g, %.4g], but the live %s %s reports '
                                '(zi, zl, zu) = %r: inside its limits the block does not reduce to the unlimited one'
                                % (name, var, env[var], where, lo, hi, env[lo], env[hi], kind, dn, (zi, zl, zu)), case)


def zero_pattern(env):
    return ''.join('0' if v == 0 else '+' if (not isinstance(v, complex) and v > 0) else '-' for v in env.values())


def jsonable(env):
    return {k: ([v.real, v.imag] if isinstance(v, complex) else v) for k, v in env.items()}


# --------------------------------------------------------------------------- streams

def block_stream(ctx, n_per):
    from translator import blocks as TB
    classes = {c.__name__: c for c in TB.block_classes()}
    exs = {}
    for v in TB.VARIANTS:
        if v['cls'] in classes:
            try:
                exs[v['name']] = TB.extract(classes[v['cls']], **v['over'])
            except Exception as e:  # noqa
                ctx.oracle_fail('block-not-instantiable', '%s cannot be instantiated/exported: %s' % (v['name'], e),
                                {'variant': v['name']})
    for name, obs in TB.SPEC.items():
        if name not in exs:
            continue
        ex = exs[name]
        for ob in obs:
            for k in range(n_per):
                env = rand_env(ctx.rng, ex, ob)
                apply_eqs(TB, env, ob)
                s = complex(ctx.rng.uniform(-2, 2), ctx.rng.uniform(0.05, 6) * ctx.rng.choice([-1, 1]))
                run_case(ctx, TB, exs, name, ob, env, s)
    limits_stream(ctx, TB, exs, n_per)


def run_case(ctx, TB, exs, name, ob, env, s):
    ex = exs[name]
    case = {'variant': name, 'ob': ob['name'], 'kind': ob['kind'], 'env': jsonable(env), 's': [s.real, s.imag]}
    key = ob.get('key')
    try:
        if ob['kind'] == 'tf':
            r = tf_case(TB, ex, ob, env, s)
        elif ob['kind'] == 'steady':
            r = steady_case(TB, ex, ob, env)
        else:
            r = reduces_case(TB, ex, exs[ob['base']], ob, env, s)
    except ZeroDivisionError:
        r = None
    except (NameError, KeyError) as e:
        # an identifier of the block's strings is not an argument / exported name / exported flag: the name-spacing
        # clause of C18 fails on the live class
        ctx.case((name, ob['name'], 'unresolved'), None)
        ctx.oracle_fail('block-unresolved-symbol:' + name, '%s: the exported equation strings use a name that the block '
                        'does not export under <block>_<var>: %s' % (name, e), case)
        return False
    ctx.count('kind:' + ob['kind'])
    if r is None:
        ctx.count('singular_or_undefined')
        ctx.case(None)
        return True
    ok, det = r
    sig = (name, ob['name'], zero_pattern(env), json.dumps(det.get('flags', {}), sort_keys=True))
    ctx.case(sig, {'case': case, 'detail': det} if ctx.evaluations % 97 == 0 else None)
    ctx.count('variant:' + name)
    if det.get('flag_mismatch'):
        ctx.count('spec_flag_mismatch')
        ctx.oracle_fail('flag-semantics:' + name, '%s.%s: the real LessThan.check_var gives flags different from the '
                        'ones the documented by-pass case assumes: %s' % (name, ob['name'], det['flag_mismatch']), case)
    if ob['kind'] == 'steady' and not det.get('inside', True):
        ctx.count('steady_outside_limits')
        return True
    if not ok:
        what = {'tf': '%s: response of the extracted equations differs from the documented transfer function (%s)/(%s) '
                      '[%s], rel. error %.3g',
                'steady': '%s: declared initial values do not balance the equations%s%s [%s], rel. residual %.3g',
                'reduces': '%s: limited variant inside its limits differs from the unlimited block %s%s [%s], rel. error %.3g'}
        msg = what[ob['kind']] % ((name, ob['num'], ob['den'], ob['name'], det['err']) if ob['kind'] == 'tf' else
                                  (name, '', '', ob['name'], det['err']) if ob['kind'] == 'steady' else
                                  (name, ob['base'], '', ob['name'], det['err']))
        ctx.oracle_fail(key or ('%s-mismatch:%s' % (ob['kind'], name)), msg, case)
        return False
    return True


# --------------------------------------------------------------------------- supporting evidence: time response

def talbot(F, t, M=32):
    """fixed-Talbot numerical inverse Laplace transform (Abate & Valko) of F at time t > 0"""
    import cmath
    import math
    r = 2.0 * M / (5.0 * t)
    acc = 0.5 * F(complex(r, 0.0)).real * math.exp(r * t)
    for k in range(1, M):
        th = k * math.pi / M
        cot = math.cos(th) / math.sin(th)
        sk = complex(r * th * cot, r * th)
        sig = th + (th * cot - 1.0) * cot
        acc += (cmath.exp(t * sk) * F(sk) * complex(1.0, sig)).real
    return acc * r / M


def step_stream(ctx, n_per):
    """from the declared initial values (a steady state) apply a unit step to the input, integrate the block's DAE
    (live strings, implicit trapezoid, h = 1 ms) and compare the output with the inverse Laplace transform of the
    documented transfer function — evidence that the Laplace-domain identities describe the time behaviour"""
    import numpy as np
    from translator import blocks as TB
    classes = {c.__name__: c for c in TB.block_classes()}
    worst = {}
    for v in TB.VARIANTS:
        obs = [o for o in TB.SPEC.get(v['name'], []) if o['kind'] == 'tf' and o['name'] == 'tf' and not o.get('excl')]
        sts = [o for o in TB.SPEC.get(v['name'], []) if o['kind'] == 'steady' and not o.get('excl')]
        if not obs or not sts or v['cls'] not in classes:
            continue
        ob, st = obs[0], sts[0]
        try:
            _step_variant(ctx, TB, classes, v, ob, st, n_per, worst)
        except (NameError, KeyError) as e:
            ctx.oracle_fail('block-unresolved-symbol:' + v['name'], '%s: unresolved name in the block strings: %s' % (v['name'], e),
                            {'kind': 'step', 'variant': v['name']})
    ctx.cov['step_response_max_rel_err'] = {k: float('%.3g' % e) for k, e in worst.items()}


def _step_variant(ctx, TB, classes, v, ob, st, n_per, worst):
    import numpy as np
    if True:
        ex = TB.extract(classes[v['cls']], **v['over'])
        names = [x['name'] for x in ex['vars'] if x['e'] is not None]
        isx = np.array([x['kind'] == 'State' for x in ex['vars'] if x['e'] is not None])
        for k in range(n_per):
            env = rand_env(ctx.rng, ex, dict(ob, nz=[p for p in ex['symbolic'] if re.match(r'^(T\d?|Td)$', p)]))
            for p in ex['symbolic']:
                if re.match(r'^(T\d?|Td)$', p):
                    env[p] = ctx.rng.uniform(0.05, 0.6)
            apply_eqs(TB, env, ob)
            apply_eqs(TB, env, st)
            flags = {f: (1.0 if f.endswith('_zi') else 0.0) for f in ex['flags']}
            flags.update(real_flags(ex, env, ('LessThan',)))
            flags.update({kk: float(vv) for kk, vv in ob['flags'].items()})
            base = dict(env, **flags)
            z0 = TB.init_values(ex['vars'], base)
            zvec = np.array([z0[nm] for nm in names], dtype=float)

            def resid(z, u):
                e = dict(base, u=u)
                e.update(zip(names, z))
                return np.array([TB.py_eval(x['e'], e) for x in ex['vars'] if x['e'] is not None], dtype=float)
            u1 = env['u'] + 1.0
            n = len(names)
            c = resid(np.zeros(n), u1)
            A = np.column_stack([resid(np.eye(n)[j], u1) - c for j in range(n)])
            Tm = np.array([(TB.py_eval(x['T'], base) if x['T'] else 1.0) if x['kind'] == 'State' else 0.0
                           for x in ex['vars'] if x['e'] is not None])
            # consistent algebraic variables right after the step (states continuous)
            ia, ix = np.where(~isx)[0], np.where(isx)[0]
            z = zvec.copy()
            if len(ia):
                z[ia] = np.linalg.solve(A[np.ix_(ia, ia)], -(c[ia] + A[np.ix_(ia, ix)] @ z[ix]))
            h, tend = 1e-3, 1.0
            Mlhs = np.diag(Tm) - 0.5 * h * A * isx[:, None]
            Mlhs[ia, :] = A[ia, :]
            Minv = np.linalg.inv(Mlhs)
            iy = names.index(ob['out'])
            y_init = zvec[iy]
            checks = {int(round(t / h)): t for t in (0.05, 0.2, 0.5, 1.0)}
            err = 0.0
            for step in range(1, int(round(tend / h)) + 1):
                f0 = A @ z + c
                rhs = np.diag(Tm) @ z + 0.5 * h * f0 * isx + 0.5 * h * c * isx
                rhs[ia] = -c[ia]
                z = Minv @ rhs
                if step in checks:
                    t = checks[step]

                    def G(sv):
                        e = dict(base, s=sv)
                        return TB.py_eval(ob['num'], e) / TB.py_eval(ob['den'], e) / sv
                    ya = y_init + talbot(G, t)
                    err = max(err, abs(z[iy] - ya) / (1.0 + abs(ya)))
            ctx.case(('step', v['name'], k), None)
            ctx.count('step_response_runs')
            worst[v['name']] = max(worst.get(v['name'], 0.0), err)
            if err > 2e-3:
                ctx.oracle_fail('step-response:' + v['name'], '%s: simulated unit-step response from the declared initial '
                                'values differs from the documented transfer function by %.3g' % (v['name'], err),
                                {'kind': 'step', 'variant': v['name'], 'env': jsonable(env)})



KNOWN_FUNCS = {'Piecewise', 'sqrt', 'exp', 'sin', 'cos', 'Abs', 'sign', 're', 'im', 'log', 'atan', 'atan2', 'tan',
               'Indicator', 'safe_div', 'True', 'False', 'Lt', 'Le', 'abs', 'conj', 'arg', 'radians', 'rad'}


def names_stream(ctx):
    """name-spacing clause on every block instance of every shipped model"""
    import andes
    from andes.core.block import Block
    try:
        ss = andes.System(no_undill=True, default_config=True)
    except (AttributeError, KeyError, NameError) as e:
        # models address block exports as self.<block>_<var>: a broken naming rule surfaces here
        ctx.oracle_fail('block-namespacing:system', 'the shipped models cannot be constructed: a model addresses a block '
                        'export that is not registered under <block>_<var>: %s: %s' % (type(e).__name__, e),
                        {'kind': 'names', 'model': 'System'})
        return
    nblk = 0

    def walk(m, blk, prob):
        nonlocal nblk
        nblk += 1
        ctx.count('shipped_block:' + type(blk).__name__)
        for key, obj in blk.vars.items():
            if isinstance(obj, Block):
                walk(m, obj, prob)
                exp = (blk.name + '_' + key) if obj.namespace == 'local' else key
            else:
                exp = (blk.name + '_' + key) if blk.namespace == 'local' else key
            if obj.name != exp:
                prob.append('export %s of block %s is named %r, expected %r' % (key, blk.name, obj.name, exp))
            if m.__dict__.get(obj.name) is not obj:
                prob.append('export %s of block %s is not registered on the model as %s' % (key, blk.name, obj.name))
    for mn, m in ss.models.items():
        prob = []
        for b in m.blocks.values():
            if b.owner is m:
                walk(m, b, prob)
        known = set(m.__dict__.keys()) | set(m.config.as_dict().keys()) | {'dae_t', 'sys_f', 'sys_mva'}
        for d in m.discrete.values():
            known |= set(d.get_names())
        allv = list(m._all_vars().keys())
        if len(allv) != len(set(allv)):
            prob.append('duplicate variable names')
        for vn, v in m._all_vars().items():
            if not getattr(v, 'not_top_level', False):
                continue
            for sname in ('e_str', 'v_str'):
                src = getattr(v, sname, None)
                if src is None:
                    continue
                try:
                    tree = ast.parse(str(src).strip(), mode='eval')
                except SyntaxError:
                    prob.append('%s.%s is not an expression: %r' % (vn, sname, src))
                    continue
                for n in ast.walk(tree):
                    if isinstance(n, ast.Name) and n.id not in known and n.id not in KNOWN_FUNCS:
                        prob.append('%s.%s uses the unresolved symbol %s' % (vn, sname, n.id))
        if m.blocks:
            ctx.case(('names', mn), None)
        for p in prob[:3]:
            ctx.oracle_fail('block-namespacing:' + mn, mn + ': ' + p, {'kind': 'names', 'model': mn})
    ctx.cov['shipped_block_instances'] = nblk


def pinum_stream(ctx, n):
    """PIControllerNumeric: real numeric callbacks vs the Lean hand model (bits) and vs the PIController strings"""
    import numpy as np
    from translator import blocks as TB
    from andes.core import block as B
    blk, _ = TB.instantiate(B.PIControllerNumeric)
    pex = TB.extract(B.PIController)
    blk.xi.id, blk.y.id, blk.u.id = 'xi', 'y', 'u'
    lines, impl, cases = [], [], []
    for k in range(n):
        vals = [ctx.rng.choice([0.0, 1.0, -1.0, 0.1, 3.7, 1e-3, 250.0]) * ctx.rng.uniform(0.5, 2) for _ in range(6)]
        kp, ki, ref, u, xi, y = vals
        for nm, v in (('kp', kp), ('ki', ki), ('ref', ref), ('u', u)):
            getattr(blk, nm).v = np.array([v])
        blk.xi.v, blk.y.v = np.array([xi]), np.array([y])
        blk.xi.e, blk.y.e = np.array([0.0]), np.array([0.0])
        blk.g_numeric()
        blk.f_numeric()
        blk.j_numeric()
        tr = []
        for jn in ('fyc', 'gyc', 'gxc'):
            for i, j, v in zip(blk.triplets.ijac[jn], blk.triplets.jjac[jn], blk.triplets.vjac[jn]):
                tr.append((jn, i, j, float(np.ravel(v)[0])))
        order = {('fyc', 'xi', 'u'): 0, ('gyc', 'y', 'u'): 1, ('gxc', 'y', 'xi'): 2, ('gyc', 'y', 'y'): 3}
        tr.sort(key=lambda t: order.get(t[:3], 9))
        impl.append('%s %s %s' % (C.f2h(blk.y.e[0]), C.f2h(blk.xi.e[0]),
                                  ','.join('%s:%s:%s:%s' % (a, b, c, C.f2h(v)) for a, b, c, v in tr)))
        lines.append('pinum ' + ' '.join(C.f2h(v) for v in vals))
        cases.append(vals)
        # against the symbolic block's strings
        env = {'kp': kp, 'ki': ki, 'ref': ref, 'u': u, 'x0': 0.0, 'B_xi': xi, 'B_y': y}
        try:
            es = {v['name']: TB.py_eval(v['e'], env) for v in pex['vars']}
        except (NameError, KeyError):
            continue                             # reported by the block stream as block-unresolved-symbol
        if 'B_y' not in es or 'B_xi' not in es:
            continue
        if abs(es['B_y'] - blk.y.e[0]) > 1e-12 * (1 + abs(es['B_y'])) or abs(es['B_xi'] - blk.xi.e[0]) > 1e-12 * (1 + abs(es['B_xi'])):
            ctx.oracle_fail('pinumeric-differs-from-picontroller', 'PIControllerNumeric residuals %r differ from the '
                            'PIController equations %r' % ((blk.y.e[0], blk.xi.e[0]), es), {'kind': 'pinum', 'vals': vals})
        ctx.case(('pinum', tuple(v == 0 for v in vals)), None)
    outs = ctx.driver.ask(lines)
    ctx.traces += len(lines)
    for vals, a, b in zip(cases, impl, outs):
        if a != b:
            ctx.disagree('pinum', {'kind': 'pinum', 'vals': vals}, a, b)
    ctx.count('pinum_cases', n)


def replay_corpus(ctx):
    from translator import blocks as TB
    classes = {c.__name__: c for c in TB.block_classes()}
    for f in sorted(glob.glob(os.path.join(C.ROOT, 'corpus', 'c18', '*.json'))):
        rep = json.load(open(f))
        ctx.count('corpus')
        replay_one(ctx, TB, classes, rep.get('case', rep))


def replay_one(ctx, TB, classes, case):
    name = case.get('variant')
    vs = {v['name']: v for v in TB.VARIANTS}
    if name not in vs or vs[name]['cls'] not in classes:
        return True
    exs = {name: TB.extract(classes[vs[name]['cls']], **vs[name]['over'])}
    ob = [o for o in TB.SPEC.get(name, []) if o['name'] == case.get('ob')]
    if not ob:
        return True
    ob = ob[0]
    if ob['kind'] == 'reduces':
        b = vs[ob['base']]
        exs[ob['base']] = TB.extract(classes[b['cls']], **b['over'])
    env = {k: (complex(*v) if isinstance(v, list) else v) for k, v in case['env'].items()}
    s = complex(*case.get('s', [0.3, 1.0]))
    return run_case(ctx, TB, exs, name, ob, env, s)


def run(ctx):
    import andes
    andes.config_logger(stream_level=50)
    name_broken(ctx)
    replay_corpus(ctx)
    block_stream(ctx, ctx.n(12, 120))
    names_stream(ctx)
    pinum_stream(ctx, ctx.n(200, 2000))
    step_stream(ctx, ctx.n(1, 5))


def search(ctx):
    name_broken(ctx)
    block_stream(ctx, 150)


def replay(ctx, rep):
    import andes
    andes.config_logger(stream_level=50)
    from translator import blocks as TB
    case = rep.get('case') or {}
    print('replay:', json.dumps(case)[:400])
    if case.get('kind') == 'names':
        names_stream(ctx)
    elif case.get('kind') == 'pinum':
        pinum_stream(ctx, 50)
    else:
        classes = {c.__name__: c for c in TB.block_classes()}
        replay_one(ctx, TB, classes, case)
    for f in ctx.oracle_failures + ctx.known_hits:
        print('  ', f['key'], '-', str(f['what'])[:200])
    return not ctx.oracle_failures and not ctx.known_hits and not ctx.disagreements
