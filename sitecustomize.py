"""Imported automatically by every python process whose PYTHONPATH contains /verif (the checks' children).
Starts the anchored-line recorder in child processes of a running check; does nothing otherwise."""
import os
if os.environ.get('VERIF_ANCHORCOV'):
    try:
        from harness.anchorcov import child_start
        child_start()
    except Exception:     # noqa
        pass
